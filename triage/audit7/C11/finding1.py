import os, sys; sys.path.insert(0, os.environ.get('AOTOOLS_ROOT', '/tmp/wt7_C11'))
# C11: angularSpectrum with magnification != 1 carries a spurious constant phase
# exp(i k (1-m)/(2z) * 1e-10) (the "+ 1e-10" added to r1sq), so it does not reproduce the
# Gouy (on-axis) phase of the analytic Gaussian beam and does not return the same field as
# twoStepFresnel on the identical grid.
import numpy
from aotools import opticalpropagation as op


def gauss(N, d, w0, wvl, z):
    """Analytic paraxial Gaussian beam, waist w0 at z = 0, exp(+ikz) convention, exp(ikz) dropped
    (all propagators of the module drop it). Carries width, curvature and Gouy phase."""
    x = numpy.arange(-N / 2, N / 2) * d
    X, Y = numpy.meshgrid(x, x)
    k = 2 * numpy.pi / wvl
    zR = numpy.pi * w0 ** 2 / wvl
    q = z - 1j * zR
    return (-1j * zR) / q * numpy.exp(1j * k * (X ** 2 + Y ** 2) / (2 * q))


wvl, N, d1, w0, z = 500e-9, 256, 2e-6, 40e-6, 1e-3
bad = False
for m in (1.0, 1.5, 0.7):
    d2 = m * d1
    U0 = gauss(N, d1, w0, wvl, 0.)
    ref = gauss(N, d2, w0, wvl, z)
    a = op.angularSpectrum(U0, wvl, d1, d2, z)
    c = N // 2
    onaxis = numpy.angle(a[c, c] / ref[c, c])
    pred = 2 * numpy.pi / wvl / 2 * (1 - m) / z * 1e-10
    print("m = %.2f  z = %g m  d1 = %g m" % (m, z, d1))
    print("   max|angularSpectrum - analytic|            = %.3e" % abs(a - ref).max())
    print("   max||angularSpectrum| - |analytic||        = %.3e" % abs(abs(a) - abs(ref)).max())
    print("   on-axis (Gouy) phase error [rad]           = %+.6f  (k(1-m)/(2z)*1e-10 = %+.6f)" % (onaxis, pred))
    if m != 1.0:
        t = op.twoStepFresnel(U0, wvl, d1, d2, z)
        print("   max|twoStepFresnel - analytic|             = %.3e" % abs(t - ref).max())
        print("   max|angularSpectrum - twoStepFresnel|      = %.3e" % abs(a - t).max())
        if abs(a - t).max() > 1e-6 and abs(t - ref).max() < 1e-6:
            bad = True
    if abs(onaxis) > 1e-6:
        bad = True
if bad:
    print("VIOLATION: angularSpectrum (m != 1) differs from the analytic Gaussian beam and from "
          "twoStepFresnel on the same grid by a constant phase of k(1-m)/(2z)*1e-10 rad (0.31 rad at m = 1.5)")
    sys.exit(1)
print("no violation")
sys.exit(0)
