import os, sys; sys.path.insert(0, os.environ.get('AOTOOLS_ROOT', '/tmp/wt7_C11'))
# C11: twoStepFresnel loses all accuracy when the magnification d2/d1 differs from 1 by a few ulps
# (e.g. d2 computed as 0.1*3*d1/0.3, mathematically equal to d1). Only m == 1 exactly is special-cased;
# otherwise the intermediate plane is put at z/(1-m) ~ 1e13 m and the chirps exp(i k x^2/(2 Dz)) have
# phases of ~1e17 rad. angularSpectrum on the identical grid stays at 1e-11.
import warnings
import numpy
from aotools import opticalpropagation as op


def gauss(x, w0, wvl, z, x0, y0):
    X, Y = numpy.meshgrid(x, x)
    k = 2 * numpy.pi / wvl
    zR = numpy.pi * w0 ** 2 / wvl
    q = z - 1j * zR
    return (-1j * zR) / q * numpy.exp(1j * k * ((X - x0) ** 2 + (Y - y0) ** 2) / (2 * q))


wvl, N, d1, w0, z, zw = 500e-9, 256, 2e-6, 40e-6, 3e-3, 1e-3
x0, y0 = 25e-6, -40e-6
cases = [("d2 = d1                 ", d1),
         ("d2 = 0.1*3*d1/0.3       ", 0.1 * 3 * d1 / 0.3),
         ("d2 = nextafter(d1, 1)   ", float(numpy.nextafter(d1, 1))),
         ("d2 = nextafter(d1, 0)   ", float(numpy.nextafter(d1, 0))),
         ("d2 = d1*(1+1e-14)       ", d1 * (1 + 1e-14)),
         ("d2 = d1*(1+1e-12)       ", d1 * (1 + 1e-12)),
         ("d2 = d1*(1+1e-9)        ", d1 * (1 + 1e-9)),
         ("d2 = d1*1.01            ", d1 * 1.01)]
bad = False
for name, d2 in cases:
    xin = numpy.arange(-N / 2, N / 2) * d1
    xout = numpy.arange(-N / 2, N / 2) * d2
    U0 = gauss(xin, w0, wvl, zw, x0, y0)           # beam 1 mm past its waist, off axis
    ref = gauss(xout, w0, wvl, z + zw, x0, y0)
    with warnings.catch_warnings():
        warnings.simplefilter("ignore")
        t = op.twoStepFresnel(U0, wvl, d1, d2, z)
    a = op.angularSpectrum(U0, wvl, d1, d2, z)
    a = a / numpy.exp(1j * 2 * numpy.pi / wvl / 2 * (1 - d2 / d1) / z * 1e-10)    # constant phase of finding 1
    e_two, e_mod, e_ang = abs(t - ref).max(), abs(abs(t) - abs(ref)).max(), abs(a - ref).max()
    print("%s m-1 = %+.3e : max|two - analytic| = %.3e  max||two|-|analytic|| = %.3e  max|angularSpectrum - analytic| = %.3e  max|two - ang| = %.3e"
          % (name, d2 / d1 - 1, e_two, e_mod, e_ang, abs(t - a).max()))
    if d2 != d1 and abs(d2 / d1 - 1) < 1e-11 and e_two > 1e-4 and e_ang < 1e-8:
        bad = True
if bad:
    print("VIOLATION: twoStepFresnel with d2 within a few ulps of d1 is wrong by up to 1.3e-1 (modulus 5.5e-2) "
          "while angularSpectrum on the same grid is exact to 1e-11")
    sys.exit(1)
print("no violation")
sys.exit(0)
