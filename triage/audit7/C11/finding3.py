import os, sys; sys.path.insert(0, os.environ.get('AOTOOLS_ROOT', '/tmp/wt7_C11'))
# C11: for an odd grid size N the propagators no longer agree with each other on coinciding grids
# (oneStepFresnel / twoStepFresnel / angularSpectrum with the output spacing of the one-step method),
# none of them reproduces the analytic Gaussian beam, and lensAgainst misses the Airy pattern.
# With even N all of this holds to rounding.
import numpy
from scipy.special import j1
from aotools import opticalpropagation as op


def gauss(x, w0, wvl, z):
    X, Y = numpy.meshgrid(x, x)
    k = 2 * numpy.pi / wvl
    zR = numpy.pi * w0 ** 2 / wvl
    q = z - 1j * zR
    return (-1j * zR) / q * numpy.exp(1j * k * (X ** 2 + Y ** 2) / (2 * q))


wvl, d1, w0, z = 500e-9, 4e-6, 40e-6, 5e-3
worst = {}
for N in (128, 129):
    d2 = wvl * z / (N * d1)          # output spacing of oneStepFresnel; handed to the other two => same grid
    x1 = numpy.arange(-N / 2, N / 2) * d1
    x2 = numpy.arange(-N / 2, N / 2) * d2
    U0 = gauss(x1, w0, wvl, 0.)
    ref = gauss(x2, w0, wvl, z)
    one = op.oneStepFresnel(U0, wvl, d1, z)
    two = op.twoStepFresnel(U0, wvl, d1, d2, z)
    ang = op.angularSpectrum(U0, wvl, d1, d2, z)
    ang = ang / numpy.exp(1j * 2 * numpy.pi / wvl / 2 * (1 - d2 / d1) / z * 1e-10)   # remove the constant phase of finding 1
    print("N = %d  d1 = %g  d2 = lambda z/(N d1) = %.6g" % (N, d1, d2))
    pairs = {"one-two": abs(one - two).max(), "one-ang": abs(one - ang).max(), "two-ang": abs(two - ang).max()}
    for kname, v in pairs.items():
        print("   max|%s| = %.3e" % (kname, v))
    for kname, v in (("one", one), ("two", two), ("ang", ang)):
        print("   max|%s - analytic| = %.3e" % (kname, abs(v - ref).max()))
    worst[N] = max(pairs.values())

    # Airy pattern through lensAgainst (area-weighted circular aperture of radius a)
airy_err = {}
for N in (512, 513):
    d, f, a, s = 1e-3, 2.0, 0.05, 8
    x = numpy.arange(-N / 2, N / 2) * d
    xs = (x[:, None] + (numpy.arange(s) - s / 2 + 0.5)[None, :] * d / s).ravel()
    XS, YS = numpy.meshgrid(xs, xs)
    A = (numpy.hypot(XS, YS) <= a).astype(float).reshape(N, s, N, s).mean((1, 3))
    I = abs(op.lensAgainst(A, wvl, d, f)) ** 2
    dd = wvl * f / (N * d)
    x2 = numpy.arange(-N / 2., N / 2.) * dd          # the observation coordinates lensAgainst uses
    X2, Y2 = numpy.meshgrid(x2, x2)
    arg = 2 * numpy.pi * a * numpy.hypot(X2, Y2) / (wvl * f)
    arg[arg == 0] = 1e-30
    airy = (numpy.pi * a ** 2 / (wvl * f)) ** 2 * (2 * j1(arg) / arg) ** 2
    airy_err[N] = abs(I - airy).max() / (numpy.pi * a ** 2 / (wvl * f)) ** 2
    print("lensAgainst N = %d: max|I - Airy| / I_Airy(0) = %.3e" % (N, airy_err[N]))

if worst[128] < 1e-9 and worst[129] > 1e-3:
    print("VIOLATION: on the same grid the propagators differ by %.2f (odd N = 129) but by %.1e (N = 128); "
          "lensAgainst vs Airy: %.2f (N = 513) against %.1e (N = 512)" % (worst[129], worst[128], airy_err[513], airy_err[512]))
    sys.exit(1)
print("no violation")
sys.exit(0)
