import os, sys; sys.path.insert(0, os.environ.get('AOTOOLS_ROOT', '/tmp/wt7_C11'))
# C11: for a negative distance oneStepFresnel returns the field rotated by 180 degrees (about sample
# N/2) with respect to twoStepFresnel / angularSpectrum on the same grid and to the analytic beam.
# (The same defect was repaired in twoStepFresnel by _fresnelTransform; oneStepFresnel still uses the
# forward transform for both signs, so its implied output spacing wvl*z/(N*d1) is negative.)
import numpy
from aotools import opticalpropagation as op


def gauss(x, w0, wvl, z, x0, y0):
    X, Y = numpy.meshgrid(x, x)
    k = 2 * numpy.pi / wvl
    zR = numpy.pi * w0 ** 2 / wvl
    q = z - 1j * zR
    return (-1j * zR) / q * numpy.exp(1j * k * ((X - x0) ** 2 + (Y - y0) ** 2) / (2 * q))


wvl, N, d1, w0, z = 500e-9, 128, 4e-6, 40e-6, 5e-3
x0, y0 = 30e-6, -50e-6                       # off-axis beam, so orientation is visible
dz = wvl * z / (N * d1)                      # spacing in the plane at +z
xa = numpy.arange(-N / 2, N / 2) * d1        # waist plane
xb = numpy.arange(-N / 2, N / 2) * dz        # plane at +z
Ua = gauss(xa, w0, wvl, 0., x0, y0)
Ub = gauss(xb, w0, wvl, z, x0, y0)

fwd = op.oneStepFresnel(Ua, wvl, d1, z)
print("forward  oneStepFresnel(+z) vs analytic             : %.3e" % abs(fwd - Ub).max())
one = op.oneStepFresnel(Ub, wvl, dz, -z)     # |output spacing| = wvl*z/(N*dz) = d1
two = op.twoStepFresnel(Ub, wvl, dz, d1, -z)
ang = op.angularSpectrum(Ub, wvl, dz, d1, -z)
ang = ang / numpy.exp(1j * 2 * numpy.pi / wvl / 2 * (1 - d1 / dz) / (-z) * 1e-10)
pk = lambda u: tuple(int(i) for i in numpy.unravel_index(abs(u).argmax(), u.shape))
print("backward twoStepFresnel(-z)  vs analytic             : %.3e   peak at [row, col] %s" % (abs(two - Ua).max(), pk(two)))
print("backward angularSpectrum(-z) vs analytic             : %.3e   peak at %s" % (abs(ang - Ua).max(), pk(ang)))
print("backward oneStepFresnel(-z)  vs analytic             : %.3e   peak at %s (analytic peak at %s)" % (abs(one - Ua).max(), pk(one), pk(Ua)))
print("backward oneStepFresnel(-z)  vs twoStepFresnel(-z)   : %.3e" % abs(one - two).max())
r = abs(one[1:, 1:] - Ua[1:, 1:][::-1, ::-1]).max()
print("oneStepFresnel(-z)[1:,1:] vs analytic[1:,1:] rotated by 180 deg: %.3e" % r)
print("round trip oneStep(-z) o oneStep(+z) vs input        : %.3e" % abs(op.oneStepFresnel(fwd, wvl, dz, -z) - Ua).max())
if abs(one - two).max() > 1e-3 and abs(two - Ua).max() < 1e-9 and r < 1e-9:
    print("VIOLATION: oneStepFresnel with z < 0 returns the field rotated by 180 degrees: it differs from "
          "twoStepFresnel / analytic on the same grid by %.2f, and equals their 180-degree rotation to %.1e" % (abs(one - two).max(), r))
    sys.exit(1)
print("no violation")
sys.exit(0)
