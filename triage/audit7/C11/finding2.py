import os, sys; sys.path.insert(0, os.environ.get('AOTOOLS_ROOT', '/tmp/wt7_C11'))
# C11: for an odd grid size N the unit-magnification angular-spectrum propagator moves an on-axis,
# untilted Gaussian beam sideways by lambda z / (2 N d) in x and y (proportional to z): it does not
# reproduce the analytic Gaussian beam. Even N is exact to rounding.
import numpy
from aotools import opticalpropagation as op


def gauss(x, w0, wvl, z):
    X, Y = numpy.meshgrid(x, x)
    k = 2 * numpy.pi / wvl
    zR = numpy.pi * w0 ** 2 / wvl
    q = z - 1j * zR
    return (-1j * zR) / q * numpy.exp(1j * k * (X ** 2 + Y ** 2) / (2 * q))


wvl, d, w0 = 500e-9, 2e-6, 20e-6
bad = False
even_ok = True
for N in (128, 129, 256, 255):
    for z in (1e-3, 2e-3, -1e-3):
        # two possible readings of the sample coordinates for odd N: the module's own arange(-N/2, N/2)*d,
        # and the FFT-centred (i - N//2)*d. The beam is centred on coordinate 0 of the chosen reading.
        res = []
        for name, x in (("module coords arange(-N/2,N/2)*d", numpy.arange(-N / 2, N / 2) * d),
                        ("fft-centred coords (i-N//2)*d  ", (numpy.arange(N) - N // 2) * d)):
            U0 = gauss(x, w0, wvl, 0.)
            out = op.angularSpectrum(U0, wvl, d, d, z)
            ref = gauss(x, w0, wvl, z)
            I = abs(out) ** 2
            cx = (I.sum(0) * x).sum() / I.sum()
            cy = (I.sum(1) * x).sum() / I.sum()
            err = abs(out - ref).max()
            res.append(err)
            print("N=%3d z=%+.0e %s: max|out-analytic| = %.3e  centroid (x,y)/d = (%+.4f, %+.4f)   -lambda z/(2 N d^2) = %+.4f"
                  % (N, z, name, err, cx / d, cy / d, -wvl * z / (2 * N * d * d)))
        if N % 2 == 1 and min(res) > 1e-6:
            bad = True
        if N % 2 == 0 and max(res) > 1e-9:
            even_ok = False
print('even N exact to 1e-9:', even_ok)
if bad and even_ok:
    print("VIOLATION: for odd N angularSpectrum(m = 1) displaces an on-axis Gaussian beam by -lambda z/(2 N d) "
          "in x and y and misses the analytic solution by up to ~1e-1 (N = 129, z = 2 mm); even N agrees to 1e-11 or better")
    sys.exit(1)
print("no violation")
sys.exit(0)
