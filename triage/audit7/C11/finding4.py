import os, sys; sys.path.insert(0, os.environ.get('AOTOOLS_ROOT', '/tmp/wt7_C11'))
# C11: twoStepFresnel at unit magnification (d2 == d1) returns an all-NaN field as soon as one of
# d1, d2, z is a numpy scalar (numpy.float64 / float32 / an element of an array): the m == 1 case is
# handled by catching ZeroDivisionError, which numpy scalars do not raise (they give inf + a warning).
import warnings
import numpy
from aotools import opticalpropagation as op


def gauss(x, w0, wvl, z):
    X, Y = numpy.meshgrid(x, x)
    k = 2 * numpy.pi / wvl
    zR = numpy.pi * w0 ** 2 / wvl
    q = z - 1j * zR
    return (-1j * zR) / q * numpy.exp(1j * k * (X ** 2 + Y ** 2) / (2 * q))


wvl, N, d1, w0, z = 500e-9, 128, 4e-6, 30e-6, 5e-3
x = numpy.arange(-N / 2, N / 2) * d1
U0 = gauss(x, w0, wvl, 0.)
ref = gauss(x, w0, wvl, z)
ang = op.angularSpectrum(U0, wvl, d1, d1, z)
print("angularSpectrum (m = 1) vs analytic: %.3e" % abs(ang - ref).max())
heights = numpy.array([5e-3])          # e.g. a layer altitude taken from an array
cases = [("python floats            ", (d1, d1, z)),
         ("z = numpy.float64        ", (d1, d1, numpy.float64(z))),
         ("z = heights[0] (ndarray) ", (d1, d1, heights[0])),
         ("z = numpy.float32        ", (d1, d1, numpy.float32(z))),
         ("z = numpy.int64(1) [m]   ", (d1, d1, numpy.int64(1))),
         ("d1 = numpy.float64       ", (numpy.float64(d1), d1, z)),
         ("d1, d2 = numpy.float64   ", (numpy.float64(d1), numpy.float64(d1), z))]
bad = False
for name, (a, b, c) in cases:
    with warnings.catch_warnings(record=True) as w:
        warnings.simplefilter("always")
        t = op.twoStepFresnel(U0, wvl, a, b, c)
    nn = int(numpy.isnan(t).sum())
    msg = "; ".join(sorted(set(str(i.message) for i in w)))
    if float(c) == z:
        print("%s: NaN entries %5d / %d   max|two - angularSpectrum| = %s   %s"
              % (name, nn, t.size, "%.3e" % abs(t - ang).max() if nn == 0 else "nan", msg))
    else:
        print("%s: NaN entries %5d / %d   %s" % (name, nn, t.size, msg))
    if nn and name.strip() != "python floats":
        bad = True
if bad:
    print("VIOLATION: twoStepFresnel(U, wvl, d, d, z) is NaN everywhere when d or z is a numpy scalar, "
          "while the same numbers as Python floats give the field of angularSpectrum")
    sys.exit(1)
print("no violation")
sys.exit(0)
