import os, sys; sys.path.insert(0, os.environ.get('AOTOOLS_ROOT', '/tmp/wt7_C07'))
# C07, clause "the sub-harmonic variant only adds low-frequency power (no structure-function value decreases)".
# Configuration: ft_sh_phase_screen called with the documented *integer* seed.
# ft_sh_phase_screen builds R = default_rng(seed) AND hands the same integer to ft_phase_screen, which builds
# default_rng(seed) again: the 54 sub-harmonic draws are then the first 54 draws of the high-frequency screen,
# not independent ones.  Over the ensemble of integer seeds the cross term lowers the structure function of
# some pixel pairs below that of the plain FFT screen.
import numpy as np
from aotools.turbulence import phasescreen as ps


class Probe(np.random.Generator):
    """A Generator whose normal() hands out a prepared vector (to read off the linear map draws -> screen)."""
    def __init__(self, vec):
        super().__init__(np.random.PCG64(0))
        self.vec = np.asarray(vec, float)
        self.pos = 0

    def normal(self, loc=0., scale=1., size=None):
        n = int(np.prod(size))
        out = self.vec[self.pos:self.pos + n].reshape(size)
        self.pos += n
        return out


def linmap(func, ndraw, *args):
    cols = []
    for i in range(ndraw):
        v = np.zeros(ndraw)
        v[i] = 1
        g = Probe(v)
        cols.append(func(*args, seed=g).ravel())
        assert g.pos == ndraw
    return np.array(cols).T


def sf(M):
    C = M @ M.T
    d = np.diag(C)
    return d[:, None] + d[None, :] - 2 * C


def case(N, r0, delta, L0, l0, nseeds):
    print("---- r0=%g N=%d delta=%g L0=%g l0=%g" % (r0, N, delta, L0, l0))
    nd = 2 * N * N
    A = linmap(ps.ft_phase_screen, nd, r0, N, delta, L0, l0)            # high-frequency screen
    B = linmap(ps.ft_sh_phase_screen, nd + 54, r0, N, delta, L0, l0)    # injected Generator: independent draws
    assert np.abs(B[:, :nd] - A).max() == 0
    Blo = B[:, nd:]

    # (a) the real code with an integer seed re-uses the stream: sub-harmonic draws == first 54 draws
    worst = 0.
    for s in (0, 1, 7, 123456):
        stream = np.random.default_rng(s).normal(size=max(nd, 54))
        pred = A @ stream[:nd] + Blo @ stream[:54]
        got = ps.ft_sh_phase_screen(r0, N, delta, L0, l0, seed=s).ravel()
        worst = max(worst, np.abs(pred - got).max())
    print("max |ft_sh_phase_screen(seed=int) - (A_hi g + A_lo g[:54])| =", worst)
    shared = worst < 1e-9

    # (b) exact ensemble structure functions
    M = np.zeros((N * N, max(nd, 54)))
    M[:, :nd] = A
    M[:, :54] += Blo
    Dhi, Dind, Dint = sf(A), sf(B), sf(M)
    off = ~np.eye(N * N, dtype=bool)
    print("independent draws (Generator injected): min over pairs of D_sh - D_fft = %.6g" % (Dind - Dhi)[off].min())
    diff = np.where(off, Dint - Dhi, np.inf)
    k = np.argmin(diff)
    i, j = np.unravel_index(k, diff.shape)
    print("integer seed: min over pairs of D_sh - D_fft = %.6g at pixels (%d,%d),(%d,%d): D_fft=%.6g D_sh(int seed)=%.6g D_sh(independent)=%.6g"
          % (diff[i, j], i // N, i % N, j // N, j % N, Dhi[i, j], Dint[i, j], Dind[i, j]))
    print("number of ordered pixel pairs whose structure function decreased: %d of %d" % ((diff < -1e-9).sum(), off.sum()))

    # (c) direct Monte-Carlo over integer seeds with the real code, at that pair
    mc = None
    if nseeds:
        acc = 0.
        for s in range(nseeds):
            scr = ps.ft_sh_phase_screen(r0, N, delta, L0, l0, seed=s).ravel()
            acc += (scr[i] - scr[j]) ** 2
        mc = acc / nseeds
        err = mc * np.sqrt(2. / nseeds)
        print("Monte-Carlo over seeds 0..%d at that pair: D_sh = %.5g +- %.2g   (D_fft exact %.5g)" % (nseeds - 1, mc, err, Dhi[i, j]))
    bad = shared and diff[i, j] < -1e-6 * Dhi.max()
    if mc is not None:
        bad = bad and (mc + 4 * mc * np.sqrt(2. / nseeds) < Dhi[i, j])
    return bad, diff[i, j], Dhi[i, j]


bad1, d1, h1 = case(4, 0.2, 1.0, 1.0, 0.01, 20000)
bad2, d2, h2 = case(32, 0.2, 0.5, 5.0, 0.01, 0)
if bad1 and bad2:
    print("VIOLATION: with an integer seed the sub-harmonic screen's structure function is BELOW the FFT screen's:")
    print("  N=4  delta=1   L0=1: D_sh - D_fft = %.5g (D_fft = %.5g, %.1f%%)" % (d1, h1, 100 * d1 / h1))
    print("  N=32 delta=0.5 L0=5: D_sh - D_fft = %.5g (D_fft = %.5g, %.3f%%)" % (d2, h2, 100 * d2 / h2))
    sys.exit(1)
print("no violation")
sys.exit(0)
