import os, sys; sys.path.insert(0, os.environ.get('AOTOOLS_ROOT', '/tmp/wt7_C07'))
# C07, clause "the sub-harmonic variant ... is closer to the analytic curve at large separations"
# (quantifier: all even N, pixel sizes, r0, L0, l0).
# Configurations: a 12 m screen (N=96, delta=0.125 m) with L0 = 8 m, and a 12.8 m screen (N=64, delta=0.2 m) with L0 = 10 m; r0=0.15, l0=0.01.
# The exact ensemble structure functions are read off the real code by probing it with unit draws.
import warnings
import numpy as np
from aotools.turbulence import phasescreen as ps
from aotools.turbulence.slopecovariance import structure_function_vk


class Probe(np.random.Generator):
    """A Generator whose normal() hands out a prepared vector (to read off the linear map draws -> screen)."""
    def __init__(self, vec):
        super().__init__(np.random.PCG64(0))
        self.vec = np.asarray(vec, float)
        self.pos = 0

    def normal(self, loc=0., scale=1., size=None):
        n = int(np.prod(size))
        out = self.vec[self.pos:self.pos + n].reshape(size)
        self.pos += n
        return out


def case(N, r0, delta, L0, l0):
    print("---- r0=%g N=%d delta=%g (screen %.4g m) L0=%g l0=%g" % (r0, N, delta, N * delta, L0, l0))
    h = N // 2
    nd = 2 * N * N
    # the sub-harmonic screen is (FFT screen of the first 2N^2 draws) + (sub-harmonic part of the last 54 draws)
    rng = np.random.default_rng(5)
    v = rng.normal(size=nd + 54)
    full = ps.ft_sh_phase_screen(r0, N, delta, L0, l0, seed=Probe(v))
    hi = ps.ft_phase_screen(r0, N, delta, L0, l0, seed=Probe(v[:nd]))
    lo = ps.ft_sh_phase_screen(r0, N, delta, L0, l0, seed=Probe(np.concatenate([np.zeros(nd), v[nd:]])))
    print("additivity check |sh(v_hi,v_lo) - fft(v_hi) - sh(0,v_lo)| =", np.abs(full - hi - lo).max())
    assert np.abs(full - hi - lo).max() < 1e-9

    Dfft = np.zeros((h + 1, h + 1))
    Dlo = np.zeros((h + 1, h + 1))
    for i in range(nd):                     # unit draws of the FFT screen
        u = np.zeros(nd)
        u[i] = 1
        s = ps.ft_phase_screen(r0, N, delta, L0, l0, seed=Probe(u))[:h + 1, :h + 1]
        Dfft += (s - s[0, 0]) ** 2
    for i in range(54):                     # unit draws of the sub-harmonics
        u = np.zeros(nd + 54)
        u[nd + i] = 1
        s = ps.ft_sh_phase_screen(r0, N, delta, L0, l0, seed=Probe(u))[:h + 1, :h + 1]
        Dlo += (s - s[0, 0]) ** 2
    Dsh = Dfft + Dlo                        # exact ensemble structure function between pixel (0,0) and pixel (i,j)
    d = np.arange(h + 1) * delta
    dy, dx = np.meshgrid(d, d, indexing='ij')
    r = np.hypot(dx, dy)
    with warnings.catch_warnings():
        warnings.simplefilter('ignore')
        Dvk = structure_function_vk(r, r0, L0)
    efft = np.abs(Dfft - Dvk)
    esh = np.abs(Dsh - Dvk)
    large = r >= 0.25 * N * delta
    worse = large & (esh > efft)
    print("separations (0..N/2, 0..N/2) with r >= D/4: %d ; sub-harmonic screen FARTHER from analytic at %d of them" % (large.sum(), worse.sum()))
    # robustness: analytic curve rescaled to the code's rounded spectrum constant (0.023 instead of 0.0228956, 0.17253 instead of 0.172629)
    Dvk2 = Dvk * (2 * 0.023 * np.pi * 6 / 5 / 0.17253)
    worse2 = large & (np.abs(Dsh - Dvk2) > np.abs(Dfft - Dvk2))
    print("  (against the analytic curve rescaled to the constant 0.023: farther at %d of %d)" % (worse2.sum(), large.sum()))
    for (i, j) in ((0, h), (h, h), (h // 2, h // 2), (0, 3 * h // 4)):
        print("  separation (%2d,%2d) px r=%6.3f m: D_fft=%9.4f D_sh=%9.4f D_vk=%9.4f  |err| fft %.4f  sh %.4f"
              % (i, j, r[i, j], Dfft[i, j], Dsh[i, j], Dvk[i, j], efft[i, j], esh[i, j]))
    return worse.sum(), large.sum(), efft[h, h], esh[h, h]


res = [case(96, 0.15, 0.125, 8., 0.01), case(64, 0.15, 0.2, 10., 0.01)]
if all(w > n // 2 and es > ef for (w, n, ef, es) in res):
    print("VIOLATION: for L0 comparable to the screen size the sub-harmonic screen is farther from the analytic "
          "von Karman structure function than the plain FFT screen at most large separations:")
    for (w, n, ef, es) in res:
        print("  farther at %d of %d large separations; at (N/2,N/2): |D_fft-D_vk| = %.4g, |D_sh-D_vk| = %.4g" % (w, n, ef, es))
    sys.exit(1)
print("no violation")
sys.exit(0)
