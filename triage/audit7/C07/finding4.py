import os, sys; sys.path.insert(0, os.environ.get('AOTOOLS_ROOT', '/tmp/wt7_C07'))
# C07, quantifier "all even N, pixel sizes, r0, L0, l0": boundary value l0 = 0 (no inner scale, i.e. the pure
# von Karman spectrum that the analytic structure function describes; exp(-(f/fm)^2) -> 1 as l0 -> 0).
# The statement promises a screen (a linear function of the draws with the stated covariance); the code raises.
# The opposite boundary L0 = inf (pure Kolmogorov) is handled (a division warning, then the DC term is zeroed).
import warnings
import numpy as np
from aotools.turbulence import phasescreen as ps

bad = 0
for name, func in (("ft_phase_screen", ps.ft_phase_screen), ("ft_sh_phase_screen", ps.ft_sh_phase_screen)):
    for l0 in (0, 0.0, np.float64(0.0)):
        try:
            with warnings.catch_warnings():
                warnings.simplefilter('ignore')
                s = func(0.2, 16, 0.1, 20., l0, seed=np.random.default_rng(1))
            print("%s(0.2, 16, 0.1, 20., l0=%r) -> screen, std %.4f" % (name, l0, s.std()))
        except Exception as e:
            bad += 1
            print("%s(0.2, 16, 0.1, 20., l0=%r) -> %s: %s" % (name, l0, type(e).__name__, e))
with warnings.catch_warnings():
    warnings.simplefilter('ignore')
    s = ps.ft_phase_screen(0.2, 16, 0.1, np.inf, 0.01, seed=np.random.default_rng(1))
    s1 = ps.ft_phase_screen(0.2, 16, 0.1, 20., 1e-9, seed=np.random.default_rng(1))
print("for comparison L0=inf -> screen, std %.4f ; l0=1e-9 -> screen, std %.4f" % (s.std(), s1.std()))
if bad:
    print("VIOLATION: l0 = 0 raises in %d of 6 calls instead of giving the von Karman screen without inner scale" % bad)
    sys.exit(1)
print("no violation")
sys.exit(0)
