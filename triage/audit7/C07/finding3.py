import os, sys; sys.path.insert(0, os.environ.get('AOTOOLS_ROOT', '/tmp/wt7_C07'))
# C07, clause "Its structure function approaches the analytic von Karman one as the grid is refined".
# Configuration: D = N*delta = 12.8 m fixed, L0 = 4 m (outer scale well inside the screen, so the missing
# zero-frequency cell is negligible), r0 = 0.15, l0 = 1e-4; N = 64 ... 2048 (delta halves at each step).
# The per-frequency amplitudes s_k = sqrt(PSD_k)*del_f are read off the REAL code with two calls
# (draws: real parts all 1 / imaginary parts all 1); the ensemble covariance is sum_k s_k^2 cos(2 pi k.d/N)
# (that the screen is exactly this linear function of the draws is checked here by full unit-draw probing at N=8).
import warnings
import numpy as np
from aotools.turbulence import phasescreen as ps
from aotools.turbulence.slopecovariance import structure_function_vk


class Probe(np.random.Generator):
    def __init__(self, vec):
        super().__init__(np.random.PCG64(0))
        self.vec = np.asarray(vec, float)
        self.pos = 0

    def normal(self, loc=0., scale=1., size=None):
        n = int(np.prod(size))
        out = self.vec[self.pos:self.pos + n].reshape(size)
        self.pos += n
        return out


def amplitudes(r0, N, delta, L0, l0):
    """s_k^2 on the unshifted DFT grid, from two calls of the real code."""
    one, zero = np.ones(N * N), np.zeros(N * N)
    pa = ps.ft_phase_screen(r0, N, delta, L0, l0, seed=Probe(np.concatenate([one, zero])))   # sum s_k cos(theta_k)
    pb = ps.ft_phase_screen(r0, N, delta, L0, l0, seed=Probe(np.concatenate([zero, one])))   # -sum s_k sin(theta_k)
    g = pa - 1j * pb                                   # sum_k s_k exp(i theta_k(x)), x on the centred pixel grid
    s = np.fft.fft2(np.fft.ifftshift(g)) / (N * N)
    assert np.abs(s.imag).max() < 1e-9 * np.abs(s.real).max()
    return s.real ** 2


def D_ensemble(r0, N, delta, L0, l0):
    s2 = amplitudes(r0, N, delta, L0, l0)
    cov = np.fft.ifft2(s2).real * N * N                # sum_k s_k^2 cos(2 pi k.d/N)
    return 2 * (cov[0, 0] - cov)


# check of the two-call read-out against full unit-draw probing (N = 8)
N = 8
args = (0.15, N, 0.3, 1.0, 1e-4)
cols = []
for i in range(2 * N * N):
    u = np.zeros(2 * N * N)
    u[i] = 1
    cols.append(ps.ft_phase_screen(*args, seed=Probe(u)).ravel())
A = np.array(cols).T
C = A @ A.T
Dfull = (np.diag(C)[:, None] + np.diag(C)[None, :] - 2 * C)[0].reshape(N, N)   # pixel (0,0) against pixel (i,j)
Dtwo = D_ensemble(*args)
print("N=8: max |D(unit-draw probing) - D(two-call read-out)| =", np.abs(Dfull - Dtwo).max())
assert np.abs(Dfull - Dtwo).max() < 1e-9

r0, L0, l0, Dscr = 0.15, 4.0, 1e-4, 12.8
seps = (1.6, 3.2, 6.4)                                  # metres, along the axis
print("D_fft / D_vk(analytic, aotools.structure_function_vk) at separations", seps, "m;  screen %.1f m, L0=%g m" % (Dscr, L0))
ratios = {}
for N in (64, 128, 256, 512, 1024, 2048):
    delta = Dscr / N
    Dn = D_ensemble(r0, N, delta, L0, l0)
    row = []
    for r in seps:
        j = int(round(r / delta))
        with warnings.catch_warnings():
            warnings.simplefilter('ignore')
            row.append(Dn[0, j] / structure_function_vk(j * delta, r0, L0))
    ratios[N] = row
    print("  N=%4d delta=%.5f : " % (N, delta) + "  ".join("%.6f" % x for x in row))
limit = 2 * 0.023 * np.pi * 6 / 5 / 0.17253
print("ratio of the constants  2*0.023*(6 pi/5) / 0.17253 = %.6f   (exact spectrum constant is 0.0228956, not 0.023)" % limit)
err = {N: [abs(x - 1) for x in ratios[N]] for N in ratios}
away = all(err[b][k] > err[a][k] for a, b in ((256, 512), (512, 1024), (1024, 2048)) for k in range(len(seps)))
if away and min(err[2048]) > 0.004 and all(abs(x - limit) < 2e-4 for x in ratios[2048]):
    print("VIOLATION: every refinement of the grid from N=256 to N=2048 moves the structure function AWAY from the analytic curve "
          "(|ratio-1| at 6.4 m: %.5f -> %.5f -> %.5f -> %.5f); it converges to %.5f x the analytic von Karman structure function, not to it."
          % (err[256][2], err[512][2], err[1024][2], err[2048][2], limit))
    sys.exit(1)
print("no violation")
sys.exit(0)
