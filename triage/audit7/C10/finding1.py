import os, sys; sys.path.insert(0, os.environ.get('AOTOOLS_ROOT', '/tmp/wt7_C10'))
# C10: twoStepFresnel at unit magnification (d2 == d1) returns an all-NaN field when the distance z
# (or the input spacing d1) is a NumPy scalar instead of a built-in Python float: the unit-magnification
# fallback is keyed on ZeroDivisionError, which NumPy scalar division never raises (it returns inf).
import warnings
import numpy
from aotools import opticalpropagation as op

rng = numpy.random.RandomState(0)
N = 16
U = rng.standard_normal((N, N)) + 1j * rng.standard_normal((N, N))
V = rng.standard_normal((N, N)) + 1j * rng.standard_normal((N, N))
a, b = 0.3 - 1.2j, -2 + 0.7j
wvl = 500e-9


def power(F, d):
    return float((numpy.abs(F) ** 2).sum() * d ** 2)


cases = [
    ("reference: python floats d1=d2=0.01, z=1.0", 0.01, 0.01, 1.0),
    ("z = numpy.float64(1.0)", 0.01, 0.01, numpy.float64(1.0)),
    ("z = numpy.float64(-250.0)", 0.01, 0.01, numpy.float64(-250.0)),
    ("z = numpy.array([1e3, 5e3])[0]  (layer heights array)", 0.01, 0.01, numpy.array([1e3, 5e3])[0]),
    ("z = numpy.int64(10)", 0.01, 0.01, numpy.int64(10)),
    ("d1 = d2 = numpy.float64(1.0)/100 (spacing = D/N), z=1.0", numpy.float64(1.0) / 100, numpy.float64(1.0) / 100, 1.0),
]

bad = 0
for label, d1, d2, z in cases:
    with warnings.catch_warnings():
        warnings.simplefilter("ignore")
        out = op.twoStepFresnel(U, wvl, d1, d2, z)
        lin = numpy.abs(op.twoStepFresnel(a * U + b * V, wvl, d1, d2, z)
                        - (a * out + b * op.twoStepFresnel(V, wvl, d1, d2, z))).max()
        ref = op.angularSpectrum(U, wvl, d1, d2, z)   # same geometry, other propagator
    pin, pout, pref = power(U, d1), power(out, d2), power(ref, d2)
    nnan = int(numpy.isnan(out).sum())
    ok = numpy.isfinite(pout) and abs(pout / pin - 1) < 1e-10 and lin < 1e-10
    print("%-60s type(z)=%-14s P_in=%.12g P_out=%.12g (angularSpectrum P_out=%.12g) nan=%d/%d lin_resid=%g -> %s"
          % (label, type(z).__name__, pin, pout, pref, nnan, out.size, lin, "ok" if ok else "BROKEN"))
    if not ok:
        bad += 1

if bad:
    print("VIOLATION: twoStepFresnel with d2 == d1 and a NumPy-typed z or d1 returns NaN everywhere: "
          "sum|U_out|^2 d_out^2 is nan instead of sum|U_in|^2 d_in^2 (%d of %d cases)" % (bad, len(cases)))
    sys.exit(1)
print("no violation")
sys.exit(0)
