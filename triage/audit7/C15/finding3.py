import os, sys; sys.path.insert(0, os.environ.get('AOTOOLS_ROOT', '/tmp/wt7_C15'))
# brightest_pixel on a stack of rank 4 (documented: "2d or greater rank array") silently applies NO threshold:
# the stack answers differ from each frame processed alone.
import numpy as np
from aotools.image_processing import centroiders as C
rng = np.random.RandomState(0)
st = rng.rand(2, 3, 8, 8)          # e.g. (frames, sub-apertures, y, x), non-negative
frac = 0.2                         # selects round(0.2*64) = 13 pixels
b4 = C.brightest_pixel(st, frac)   # shape (2, 2, 3)
worst = 0.
for i in range(2):
    for j in range(3):
        alone = C.brightest_pixel(st[i, j], frac)
        in3 = C.brightest_pixel(st[i], frac)[:, j]
        plain = C.centre_of_gravity(st[i, j])
        print("frame[%d,%d] alone(2-D)=%s in 3-D stack=%s in 4-D stack=%s  unthresholded CoG=%s"
              % (i, j, alone, in3, b4[:, i, j], plain))
        worst = max(worst, np.abs(b4[:, i, j] - alone).max())
print("max |4-D stack - frame alone| = %g px" % worst)
if worst > 1e-8:
    print("VIOLATION: 4-D stack result equals the unthresholded centre of gravity, not the brightest-pixel centroid of each frame")
    sys.exit(1)
sys.exit(0)
