import os, sys; sys.path.insert(0, os.environ.get('AOTOOLS_ROOT', '/tmp/wt7_C15'))
# correlation_centroid with padding=1 is a circular correlation: shifts of n/2 or more (content still fully inside
# the frame) alias, and extended content wraps, so the answer depends on the padding.
import numpy as np
from aotools.image_processing import centroiders as C

def spot(n, cy, cx, w=1):
    a = np.zeros((n, n))
    k = np.array([1., 2., 5., 2., 1.]) if w == 2 else np.array([2., 5., 2.])
    a[cy-w:cy+w+1, cx-w:cx+w+1] = np.outer(k, k)
    return a

bad = False
n = 16
ref = spot(n, 2, 2)
im = spot(n, 13, 13)              # displaced by s = (+11, +11); 3x3 spot occupies rows/cols 12..14, inside the frame
s = 11.
print("case A: n=16, 3x3 spot at (2,2) in ref and at (13,13) in im, s=(+11,+11), centre n/2 = 8")
for p in (1, 2, 3):
    c = C.correlation_centroid(im, ref, 0., p)[:, 0]
    print("  padding=%d centroid=%s displacement from centre=%s (expected %s)" % (p, c, c - n/2., s))
    if np.abs(c - n/2. - s).max() > 1e-8:
        bad = True
# case B: small shift but extended content (wider than n/2): autocorrelation wraps for padding=1
print("case B: n=16, uniform 10x10 block, s=(+2,+2)")
ref = np.zeros((n, n)); ref[2:12, 2:12] = 1.
im = np.zeros((n, n)); im[4:14, 4:14] = 1.
for p in (1, 2, 3):
    c = C.correlation_centroid(im, ref, 0., p)[:, 0]
    print("  padding=%d centroid=%s displacement from centre=%s (expected 2)" % (p, c, c - n/2.))
    if np.abs(c - n/2. - 2.).max() > 1e-8:
        bad = True
if bad:
    print("VIOLATION: with padding=1 the displacement is not s although the content stays inside the frame")
    sys.exit(1)
sys.exit(0)
