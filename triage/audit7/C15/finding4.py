import os, sys; sys.path.insert(0, os.environ.get('AOTOOLS_ROOT', '/tmp/wt7_C15'))
# centre_of_gravity with a threshold on a rank-4 stack: raises when the two leading sizes differ, and when they are
# equal uses the thresholds of the TRANSPOSED frame index ([j,i] instead of [i,j]).
import numpy as np, warnings
from aotools.image_processing import centroiders as C
warnings.simplefilter('ignore')
rng = np.random.RandomState(1)
bad = False
st = rng.rand(2, 3, 8, 8)
print("unthresholded 4-D works, shape", C.centre_of_gravity(st).shape)
try:
    r = C.centre_of_gravity(st, 0.3)
    print("thresholded (2,3,8,8) ->", r.shape)
except Exception as e:
    print("thresholded (2,3,8,8) raises %s: %s" % (type(e).__name__, e))
    bad = True
# equal leading sizes: runs, but wrong. Frames get brightness (1..9) so that thresholds differ a lot between frames.
st2 = rng.rand(3, 3, 8, 8) * np.arange(1, 10).reshape(3, 3, 1, 1)
r4 = C.centre_of_gravity(st2, 0.5)
worst = 0.
for i in range(3):
    r3 = C.centre_of_gravity(st2[i], 0.5)       # rank-3 stack path (same zero-below-threshold rule)
    for j in range(3):
        one = C.centre_of_gravity(st2[i, j][None], 0.5)[:, 0]   # frame alone as a 1-deep stack (same rule again)
        d = np.abs(r4[:, i, j] - one)
        d = np.where(np.isnan(d), np.inf, d).max()
        worst = max(worst, d)
        print("frame[%d,%d] alone=%s in 3-D stack=%s in 4-D stack=%s" % (i, j, one, r3[:, j], r4[:, i, j]))
print("max |4-D - alone| =", worst)
if worst > 1e-8:
    bad = True
if bad:
    print("VIOLATION: thresholded centre_of_gravity on rank-4 stacks raises (n0 != n1) or gives different/nan answers (n0 == n1)")
    sys.exit(1)
sys.exit(0)
