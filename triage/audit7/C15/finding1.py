import os, sys; sys.path.insert(0, os.environ.get('AOTOOLS_ROOT', '/tmp/wt7_C15'))
# correlation_centroid: for odd image sizes the offset from the array centre depends on the parity of the padding.
import numpy as np
from aotools.image_processing import centroiders as C

def spot(ny, nx, cy, cx):
    a = np.zeros((ny, nx))
    a[cy-1:cy+2, cx-1:cx+2] = [[1, 2, 1], [2, 5, 2], [1, 2, 1]]
    return a

bad = False
s = np.array([1., 2.])            # (sx, sy): image = reference moved by +1 in x and +2 in y
for (ny, nx) in [(15, 15), (17, 17), (16, 16), (9, 12)]:
    ref = spot(ny, nx, 3, 4)
    im = spot(ny, nx, 3 + 2, 4 + 1)
    res = {}
    for p in (1, 2, 3, 4):
        c = C.correlation_centroid(im, ref, 0., p)[:, 0]
        res[p] = c - s            # the "array centre" implied by this padding
        print("shape (ny,nx)=%s padding=%d centroid(x,y)=%s  centroid - s = %s" % ((ny, nx), p, c, res[p]))
    spread = max(np.abs(res[p] - res[1]).max() for p in res)
    print("   max difference of implied centre between paddings: %g" % spread)
    if spread > 1e-8:
        bad = True
if bad:
    print("VIOLATION: for odd sizes the centroid of the same displaced image differs by 0.5 px between odd and even padding")
    sys.exit(1)
sys.exit(0)
