import os, sys; sys.path.insert(0, os.environ.get('AOTOOLS_ROOT', '/tmp/wt7_C15'))
# Unsigned-integer (camera) images: subtraction wraps around.
#  (a) quadCell: the signal of the mirrored image is not minus the signal.
#  (b) brightest_pixel: img - pxlValue wraps for pixels below the rank value, so the result is neither the
#      value for the same image in float nor unchanged under multiplication by a positive constant.
import numpy as np, warnings
from aotools.image_processing import centroiders as C
warnings.simplefilter('ignore')
bad = False
q = np.array([[5, 1], [5, 1]], dtype=np.uint16)           # non-negative 2x2 image, more light on the left
a = C.quadCell(q); b = C.quadCell(q[:, ::-1])
print("quadCell uint16 image     :", a, a.dtype)
print("quadCell mirrored (x flip):", b)
print("quadCell float image      :", C.quadCell(q.astype(float)), " mirrored:", C.quadCell(q[:, ::-1].astype(float)))
if not (float(a[0]) == -float(b[0])):
    print("  -> x signal %r is not minus the mirrored x signal %r" % (a[0], b[0]))
    bad = True
stack = np.stack([q, q[:, ::-1]])
print("quadCell stack of both    :", C.quadCell(stack).tolist())

rng = np.random.RandomState(0)
im = (rng.rand(8, 8) * 50).astype(np.uint16); im[3, 4] = 200     # non-negative, max 200
r_u = C.brightest_pixel(im, 0.2)
r_f = C.brightest_pixel(im.astype(float), 0.2)
r_u3 = C.brightest_pixel((im * 3).astype(np.uint16), 0.2)       # max 600, no overflow in the product
r_f3 = C.brightest_pixel(im.astype(float) * 3, 0.2)
print("brightest_pixel uint16      :", r_u)
print("brightest_pixel same, float :", r_f)
print("brightest_pixel uint16 * 3  :", r_u3)
print("brightest_pixel float  * 3  :", r_f3)
print("  |uint - float| = %g,  |uint*3 - uint| = %g,  |float*3 - float| = %g"
      % (np.abs(r_u - r_f).max(), np.abs(r_u3 - r_u).max(), np.abs(r_f3 - r_f).max()))
if np.abs(r_u3 - r_u).max() > 1e-8 or np.abs(r_u - r_f).max() > 1e-8:
    bad = True
if bad:
    print("VIOLATION: unsigned images wrap around in quadCell / brightest_pixel")
    sys.exit(1)
sys.exit(0)
