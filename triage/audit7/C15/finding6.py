import os, sys; sys.path.insert(0, os.environ.get('AOTOOLS_ROOT', '/tmp/wt7_C15'))
# brightest_pixel returns nan for a flat-topped spot when the selected fraction (>= 2 pixels) does not reach below
# the plateau: the rank value equals the maximum, everything is clipped to 0 and the centre of gravity is 0/0.
import numpy as np, warnings
from aotools.image_processing import centroiders as C
warnings.simplefilter('ignore')
bad = False
t = np.zeros((5, 5)); t[1:3, 2:4] = 1.      # the image of test_centre_of_gravity_value: 2x2 block, CoG = (2.5, 1.5)
print("centre_of_gravity:", C.centre_of_gravity(t))
for frac in (0.08, 0.12, 0.16, 0.2, 0.5):
    n = int(round(frac * 25))
    r = C.brightest_pixel(t, frac)
    r3 = C.brightest_pixel(np.stack([t, t]), frac)[:, 0]
    sh = np.zeros((5, 5)); sh[2:4, 2:4] = 1.  # content moved by +1 in y, away from the borders
    rs = C.brightest_pixel(sh, frac)
    print("fraction %.2f (%d pixels): 2-D %s  in stack %s  shifted by (0,+1) %s" % (frac, n, r, r3, rs))
    if n >= 2 and (np.isnan(r).any() or np.abs(rs - r - np.array([0., 1.])).max() > 1e-8):
        bad = True
# also a saturated camera spot on a background
s = np.full((8, 8), 3.); s[2:5, 3:6] = 255.   # 3x3 saturated core
r = C.brightest_pixel(s, 0.1)                 # 6 pixels selected
print("saturated 3x3 core, fraction 0.1 (6 pixels):", r, " centre_of_gravity threshold 0.5:", C.centre_of_gravity(s, 0.5))
if np.isnan(r).any():
    bad = True
if bad:
    print("VIOLATION: brightest_pixel gives nan for plateau images with fractions selecting >= 2 pixels")
    sys.exit(1)
sys.exit(0)
