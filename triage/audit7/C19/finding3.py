import os, sys; sys.path.insert(0, os.environ.get('AOTOOLS_ROOT', '/tmp/wt7_C19'))
# C19: calculate_structure_function on integer-typed phase arrays squares the difference
# in the input dtype, so (phase[:-i]-phase[i:])**2 wraps around for 8/16-bit (and unsigned)
# integers.  A ramp of slope 1 stored as uint8/int8 gives 0 at lag 16 instead of 256; an
# int16 ramp of slope 200 gives a NEGATIVE "mean squared difference" at lag 1.
import numpy
from aotools.turbulence.slopecovariance import calculate_structure_function

bad = False
N = 128
for dtype, a in [(numpy.uint8, 1), (numpy.int8, 1), (numpy.int16, 200), (numpy.uint16, 200), (numpy.float64, 200)]:
    ramp = (a * numpy.arange(N)[:, None] * numpy.ones((1, N), dtype=int)).astype(dtype)
    assert numpy.array_equal(ramp.astype(float), a * numpy.arange(N)[:, None] * numpy.ones((1, N)))  # values fit the dtype
    sf = calculate_structure_function(ramp, 20, 1)
    closed = (a ** 2) * numpy.arange(20.) ** 2
    err = numpy.abs(sf - closed).max()
    print("%-8s slope %3d: sf[1]=%g (expected %g)  sf[16]=%g (expected %g)  sf[17]=%g (expected %g)  max|err|=%g"
          % (numpy.dtype(dtype).name, a, sf[1], closed[1], sf[16], closed[16], sf[17], closed[17], err))
    if numpy.dtype(dtype).kind in "iu" and err > 1e-9:
        bad = True

# unsigned, small values, no large lag needed: quadratic-in-amplitude also fails
p = (20 * (numpy.arange(16)[:, None] % 2) * numpy.ones((1, 16), dtype=int)).astype(numpy.uint8)  # rows alternate 0, 20
s1 = calculate_structure_function(p, 3, 1)
s2 = calculate_structure_function(p.astype(float), 3, 1)
print("uint8 alternating rows 0/20 (expected sf = [0, 400, 0]): ", s1, " float64 same values:", s2)
if not numpy.allclose(s1, s2):
    bad = True

if bad:
    print("VIOLATION: integer-typed phase arrays give wrapped (even negative) 'mean squared differences'")
    sys.exit(1)
print("no violation")
sys.exit(0)
