import os, sys; sys.path.insert(0, os.environ.get('AOTOOLS_ROOT', '/tmp/wt7_C19'))
# C19: temporal power spectrum with an ODD number of frames drops the highest
# positive-frequency bin k=(n-1)/2 (which is below Nyquist and is not the mirror of
# any returned bin).  A pure sinusoid at that bin yields an all-(numerically)-zero
# spectrum: no peak at its bin, and Parseval's identity cannot hold.
import numpy
from aotools.turbulence.temporal_ps import calc_slope_temporalps, get_tps_time_axis

bad = False
for n in (5, 9, 101):
    k = (n - 1) // 2
    t = numpy.arange(n)
    sig = numpy.cos(2 * numpy.pi * k * t / n)
    slopes = sig[:, None] * numpy.ones((1, 4))          # (nFrames, nCentroids)
    tps, err = calc_slope_temporalps(slopes)
    axis = get_tps_time_axis(100., n)
    full = (abs(numpy.fft.fft(slopes, axis=0)) ** 2).mean(-1)
    energy = n * (sig ** 2).sum()                       # Parseval: sum_k |X_k|^2 = n sum_t x_t^2
    recon = tps[0] + 2 * tps[1:].sum()                  # all that can be rebuilt from the returned half
    print("n_frames=%d sinusoid bin k=%d (f=%.4f*frame_rate < 0.5)" % (n, k, k / n))
    print("   returned bins: %d (0..%d); axis max = %.4f Hz, sinusoid at %.4f Hz"
          % (len(tps), len(tps) - 1, axis.max(), k * 100. / n))
    print("   max of returned spectrum = %.3e at bin %d ; true |X_k|^2 at bin %d = %.6f"
          % (tps.max(), int(numpy.argmax(tps)), k, full[k]))
    print("   Parseval: n*sum x^2 = %.6f ; recoverable from output = %.3e" % (energy, recon))
    if len(tps) <= k or abs(recon - energy) > 1e-6 * energy:
        bad = True

# control: even n, same construction at the top returned bin works
n = 8; k = 3
sig = numpy.cos(2 * numpy.pi * k * numpy.arange(n) / n)
tps, _ = calc_slope_temporalps(sig[:, None] * numpy.ones((1, 4)))
print("control n=8 k=3: argmax", int(numpy.argmax(tps)), "peak", tps.max())

# n_frames = 1: not even the DC bin is returned
tps1, _ = calc_slope_temporalps(numpy.ones((1, 4)))
print("n_frames=1: returned shape", tps1.shape, "(DC term |X_0|^2 = 1 is lost)")

if bad:
    print("VIOLATION: for odd n_frames the positive-frequency bin (n-1)/2 is missing from "
          "calc_slope_temporalps / get_tps_time_axis; sinusoid there gives no peak and Parseval fails")
    sys.exit(1)
print("no violation")
sys.exit(0)
