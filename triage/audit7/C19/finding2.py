import os, sys; sys.path.insert(0, os.environ.get('AOTOOLS_ROOT', '/tmp/wt7_C19'))
# C19: calculate_structure_function shifts along the FIRST axis but derives the number
# of lags from the SECOND axis (phase.shape[1]).  For a 2-D phase with fewer rows than
# columns the returned vector contains NaN (mean of an empty slice) at every lag
# j*step >= phase.shape[0]; a ramp does not give a^2 (j*step)^2 there.
import warnings
import numpy
from aotools.turbulence.slopecovariance import calculate_structure_function

bad = False
cases = [((8, 64), None, None, 1.0), ((5, 40), None, None, 2.0), ((16, 64), None, 4, 0.5), ((12, 32), 20, 1, 1.0)]
for shape, nb, step, a in cases:
    phase = a * numpy.arange(shape[0])[:, None] * numpy.ones((1, shape[1]))
    with warnings.catch_warnings():
        warnings.simplefilter("ignore")
        sf = calculate_structure_function(phase, nb, step)
    st = 1 if step is None else step
    j = numpy.arange(len(sf))
    closed = a ** 2 * (j * st) ** 2
    nnan = int(numpy.isnan(sf).sum())
    print("phase shape %s nbOfPoint=%s step=%s slope=%s" % (shape, nb, step, a))
    print("   returned :", sf)
    print("   a^2(j*step)^2:", closed)
    print("   NaN entries: %d of %d (lags j*step >= %d rows)" % (nnan, len(sf), shape[0]))
    if nnan or not numpy.allclose(sf, closed):
        bad = True

# control: transposed orientation (rows >= columns) is exact
phase = numpy.arange(64.)[:, None] * numpy.ones((1, 8))
print("control shape (64, 8):", calculate_structure_function(phase))

if bad:
    print("VIOLATION: returned structure function has NaN at lags taken from shape[1] "
          "that exceed the extent of the shifted (first) axis")
    sys.exit(1)
print("no violation")
sys.exit(0)
