import os, sys; sys.path.insert(0, os.environ.get('AOTOOLS_ROOT', '/tmp/wt7_C01'))
# C01 finding 1: integer-typed sub-aperture diameters make make_covariance_matrix() raise instead of
# returning the covariance matrix (the same geometry with float-typed diameters works).
import numpy
from aotools.turbulence.slopecovariance import CovarianceMatrix

mask = numpy.ones((4, 4))
common = dict(n_wfs=2, pupil_masks=[mask, mask], telescope_diameter=4.,
              gs_altitudes=[0, 0], gs_positions=[[0, 0], [10, 0]], wfs_wavelengths=[500e-9, 500e-9],
              n_layers=1, layer_altitudes=[0.], layer_r0s=[0.1], layer_L0s=[25.])

ref = CovarianceMatrix(subap_diameters=[1.0, 1.0], **common).make_covariance_matrix()
print("float diameters [1.0, 1.0]: ok, shape", ref.shape, "M[0,0] =", ref[0, 0])

bad = 0
for name, sd in [("python ints [1, 1]", [1, 1]), ("numpy int array", numpy.array([1, 1]))]:
    try:
        M = CovarianceMatrix(subap_diameters=sd, **common).make_covariance_matrix()
        same = numpy.array_equal(M, ref)
        print("%s: ok, identical to float result: %s" % (name, same))
        if not same:
            bad += 1
    except Exception as e:
        print("%s: raised %s: %s" % (name, type(e).__name__, e))
        bad += 1

if bad:
    print("VIOLATION: 1 m sub-apertures given as integers (same geometry as [1.0, 1.0]) produce no matrix;", bad, "of 2 integer-typed inputs fail")
    sys.exit(1)
print("no violation")
sys.exit(0)
