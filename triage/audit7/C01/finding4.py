import os, sys; sys.path.insert(0, os.environ.get('AOTOOLS_ROOT', '/tmp/wt7_C01'))
# C01 finding 4: the class docstring documents  gs_altitudes  as "Reciprocal (1/metres) of the Guide star alitude",
# but make_covariance_matrix() uses it as the altitude itself (scale_factor = 1 - layer_altitude / gs_altitude).
# A caller who follows the documentation (1/90000 for a sodium LGS) gets sub-apertures "projected" with a scale factor
# of 1 - 1e4 * 9e4 = -9e8 instead of 1 - 1e4/9e4 = 0.889.
import numpy, scipy.special
from aotools.turbulence.slopecovariance import CovarianceMatrix


def Dvk(r, r0, L0):
    r = numpy.asarray(r, dtype=float)
    out = numpy.zeros_like(r)
    nz = r > 0
    z = r[nz] / L0
    out[nz] = 0.17253 * (L0 / r0) ** (5 / 3.) * (
        1 - 2 * numpy.pi ** (5 / 6.) / scipy.special.gamma(5 / 6.) * z ** (5 / 6.) * scipy.special.kv(5 / 6., 2 * numpy.pi * z))
    return out


def oracle(masks, D, d, H, gspos, wl, alts, r0s, L0s):
    """covariance of finite-difference slopes at the geometrically projected positions; H = LGS altitude in metres"""
    nt = int(sum(m.sum() for m in masks))
    M = numpy.zeros((2 * nt, 2 * nt))
    for h, r0, L0 in zip(alts, r0s, L0s):
        P, Q = [], []
        s = 1 - h / H
        for m, g in zip(masks, gspos):
            pos = ((numpy.argwhere(m == 1) + 0.5) * d - D / 2.) * s + numpy.array(g) * numpy.pi / 180 / 3600 * h
            for ax in (0, 1):
                e = numpy.zeros(2); e[ax] = d * s / 2.
                P.append(pos + e); Q.append(pos - e)
        P = numpy.vstack(P); Q = numpy.vstack(Q)
        DD = lambda A, B: Dvk(numpy.sqrt(((A[:, None] - B[None]) ** 2).sum(-1)), r0, L0)
        M += 0.5 * (DD(P, Q) + DD(Q, P) - DD(P, P) - DD(Q, Q)) * (wl / (2 * numpy.pi * d * s)) ** 2
    return M


rng = numpy.random.RandomState(0)
masks = [(rng.rand(5, 5) > 0.3).astype(float) for _ in range(2)]
D, d, H, wl = 4., 0.8, 90000., 589e-9
gspos = [[10., 0.], [-5., 8.]]
alts, r0s, L0s = [0., 10000.], [0.15, 0.4], [25., 25.]
O = oracle(masks, D, d, H, gspos, wl, alts, r0s, L0s)

res = {}
for label, gsalt in [("as documented, 1/altitude = 1/90000", [1 / H] * 2), ("contrary to the docstring, altitude = 90000", [H] * 2)]:
    c = CovarianceMatrix(2, masks, D, [d] * 2, gsalt, gspos, [wl] * 2, 2, alts, r0s, L0s)
    M = c.make_covariance_matrix()
    rel = numpy.abs(M - O).max() / O.max()
    res[label] = rel
    print("gs_altitudes %-45s: projected sub-aperture diameter at 10 km = %.6g m (geometric: %.6g m), max|M-true|/max = %.3e"
          % (label, c.subap_layer_diameters[1][0], d * (1 - 10000. / H), rel))

if res["as documented, 1/altitude = 1/90000"] > 1e-5:
    print("VIOLATION: with the documented argument convention the matrix is off by %.3g of its largest entry"
          % res["as documented, 1/altitude = 1/90000"])
    sys.exit(1)
print("no violation")
sys.exit(0)
