import os, sys; sys.path.insert(0, os.environ.get('AOTOOLS_ROOT', '/tmp/wt7_C01'))
# C01 finding 2: mirror_covariance_matrix() fills the result by a bitwise OR of the float32 bit patterns of M and M.T.
# Inside a diagonal (same-WFS) block BOTH triangles were computed, and cov[i, j] / cov[j, i] are summed in a different
# order, so entries whose true value is 0 (x-slope vs y-slope of sub-apertures in the same row/column) hold two
# DIFFERENT rounding residues.  OR-ing their exponent bits manufactures a number that neither triangle contained.
import numpy, scipy.special
from aotools.turbulence.slopecovariance import CovarianceMatrix


def Dvk(r, r0, L0):
    r = numpy.asarray(r, dtype=float)
    out = numpy.zeros_like(r)
    nz = r > 0
    z = r[nz] / L0
    out[nz] = 0.17253 * (L0 / r0) ** (5 / 3.) * (
        1 - 2 * numpy.pi ** (5 / 6.) / scipy.special.gamma(5 / 6.) * z ** (5 / 6.) * scipy.special.kv(5 / 6., 2 * numpy.pi * z))
    return out


def oracle(mask, D, d, wl, r0, L0):
    """covariance of finite-difference slopes (single on-axis NGS WFS, one ground layer), float64"""
    pos = (numpy.argwhere(mask == 1) + 0.5) * d - D / 2.
    P, Q = [], []
    for ax in (0, 1):
        e = numpy.zeros(2); e[ax] = d / 2.
        P.append(pos + e); Q.append(pos - e)
    P = numpy.vstack(P); Q = numpy.vstack(Q)
    DD = lambda A, B: Dvk(numpy.sqrt(((A[:, None] - B[None]) ** 2).sum(-1)), r0, L0)
    return 0.5 * (DD(P, Q) + DD(Q, P) - DD(P, P) - DD(Q, Q)) * (wl / (2 * numpy.pi * d)) ** 2


def evaluate(label, n, d, wl, r0, L0):
    mask = numpy.ones((n, n))
    c = CovarianceMatrix(1, [mask], n * d, [d], [0], [[0, 0]], [wl], 1, [0.], [r0], [L0])
    M = c.make_covariance_matrix().copy()
    c._make_covariance_matrix()                 # same assembly again, without the mirroring step
    P = c.covariance_matrix.copy()
    O = oracle(mask, n * d, d, wl, r0, L0)
    diag = O[0, 0]
    err = numpy.abs(M - O)
    a, b = numpy.unravel_index(err.argmax(), err.shape)
    ev = numpy.linalg.eigvalsh(M.astype(float))
    evP = numpy.linalg.eigvalsh(numpy.tril(P).astype(float) + numpy.tril(P, -1).T)
    print("--", label, ": %dx%d full mask, d=%g, wavelength=%g, r0=%g, L0=%g" % (n, n, d, wl, r0, L0))
    print("   diagonal (slope variance) true value      :", diag)
    print("   worst entry [%d,%d]  true covariance (0 by symmetry for these entries; float64 residue of the oracle): %.3e" % (a, b, O[a, b]))
    print("   assembled before mirroring  P[%d,%d]=%.6e  P[%d,%d]=%.6e" % (a, b, P[a, b], b, a, P[b, a]))
    print("   returned                    M[%d,%d]=%.6e  M[%d,%d]=%.6e" % (a, b, M[a, b], b, a, M[b, a]))
    print("   |M - true| / diagonal                     : %.3e   (float32 eps = 6e-8)" % (err.max() / diag))
    print("   max |P - true| / diagonal before mirroring: %.3e" % (numpy.abs(P - O).max() / diag))
    print("   eigenvalues of returned matrix min/max    : %.3e / %.3e" % (ev.min(), ev.max()))
    print("   eigenvalues of lower triangle mirrored properly, min/max: %.3e / %.3e" % (evP.min(), evP.max()))
    return err.max() / diag, ev.min() / ev.max(), M


# (A) wavelength expressed in microns (slopes then come out in micro-radians), one weak layer
relA, psdA, MA = evaluate("A", 8, 0.5, 0.5, 15.0, 25.0)
# wavelength-scaling clause: the same system at wavelength 1.0 must be exactly 4x
_, _, MA2 = evaluate("A, wavelength doubled", 8, 0.5, 1.0, 15.0, 25.0)
scal = numpy.abs(MA2.astype(float) / 4 - MA).max() / MA.diagonal().max()
print("   max |M(wl=1.0)/4 - M(wl=0.5)| / diagonal : %.3e" % scal)
# (B) SI units: same mechanism, bounded at the 1e-6 level
relB, psdB, _ = evaluate("B", 8, 0.5, 500e-9, 0.5, 10.0)

bad = relA > 1e-5 or psdA < -1e-5 or scal > 1e-5 or relB > 5e-7
if bad:
    print("VIOLATION: entries whose covariance is 0 (both computed triangles ~1e-19) are returned as O(1):"
          " error %.3g x diagonal, min/max eigenvalue %.3g, wavelength scaling off by %.3g x diagonal; SI case error %.3g x diagonal"
          % (relA, psdA, scal, relB))
    sys.exit(1)
print("no violation")
sys.exit(0)
