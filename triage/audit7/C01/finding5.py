import os, sys; sys.path.insert(0, os.environ.get('AOTOOLS_ROOT', '/tmp/wt7_C01'))
# C01 finding 5 (depends on how "slope measurement" is read -- see finding5.json):
# an LGS Shack-Hartmann sub-aperture of diameter d measures  [Phi(p + d/2) - Phi(p - d/2)] / d  in the PUPIL, where
# Phi(p) = sum_l phi_l(p (1 - h_l/H) + theta h_l).  The phase DIFFERENCE is the layer phase difference across the projected
# (shrunken) sub-aperture d (1 - h/H), but it is still divided by the pupil diameter d.  The code divides by the projected
# diameters (r0_scale uses subap_layer_diameters), so every LGS-LGS layer block is too large by (1 - h/H)^-2 and every
# LGS-NGS block by (1 - h/H)^-1.
import numpy, scipy.special
from aotools.turbulence.slopecovariance import CovarianceMatrix


def Dvk(r, r0, L0):
    r = numpy.asarray(r, dtype=float)
    out = numpy.zeros_like(r)
    nz = r > 0
    z = r[nz] / L0
    out[nz] = 0.17253 * (L0 / r0) ** (5 / 3.) * (
        1 - 2 * numpy.pi ** (5 / 6.) / scipy.special.gamma(5 / 6.) * z ** (5 / 6.) * scipy.special.kv(5 / 6., 2 * numpy.pi * z))
    return out


def oracle(masks, D, d, H, gspos, wl, h, r0, L0, divide_by):
    s = 1 - h / H
    P, Q = [], []
    for m, g in zip(masks, gspos):
        pos = ((numpy.argwhere(m == 1) + 0.5) * d - D / 2.) * s + numpy.array(g) * numpy.pi / 180 / 3600 * h
        for ax in (0, 1):
            e = numpy.zeros(2); e[ax] = d * s / 2.          # edges of the projected sub-aperture at the layer
            P.append(pos + e); Q.append(pos - e)
    P = numpy.vstack(P); Q = numpy.vstack(Q)
    DD = lambda A, B: Dvk(numpy.sqrt(((A[:, None] - B[None]) ** 2).sum(-1)), r0, L0)
    den = d if divide_by == "pupil" else d * s
    return 0.5 * (DD(P, Q) + DD(Q, P) - DD(P, P) - DD(Q, Q)) * (wl / (2 * numpy.pi * den)) ** 2


# deterministic illustration with a pure tilt phi(x) = a x at the layer
a, d, h, H, p = 1.0, 0.8, 15000., 90000., 0.4
s = 1 - h / H
dphi = a * ((p + d / 2) * s) - a * ((p - d / 2) * s)
print("pure tilt a=1 rad/m at 15 km seen by a 90 km LGS: phase difference across the pupil sub-aperture = %.6f rad" % dphi)
print("   tilt the WFS measures (difference / d)          = %.6f   (cone effect: a (1 - h/H))" % (dphi / d))
print("   tilt implied by dividing by projected d(1-h/H)  = %.6f" % (dphi / (d * s)))

rng = numpy.random.RandomState(2)
masks = [(rng.rand(5, 5) > 0.3).astype(float) for _ in range(2)]
D, wl, r0, L0 = 4., 589e-9, 0.2, 25.
gspos = [[10., 0.], [-5., 8.]]
c = CovarianceMatrix(2, masks, D, [d] * 2, [H] * 2, gspos, [wl] * 2, 1, [h], [r0], [L0])
M = c.make_covariance_matrix().astype(float)
O_pupil = oracle(masks, D, d, H, gspos, wl, h, r0, L0, "pupil")
O_proj = oracle(masks, D, d, H, gspos, wl, h, r0, L0, "projected")
big = numpy.abs(O_pupil) > 1e-3 * O_pupil.max()
ratio = M[big] / O_pupil[big]
print("2 LGS at 90 km, one layer at 15 km, (1 - h/H)^-2 = %.6f" % s ** -2)
print("   M / (difference divided by pupil diameter d)         : min %.6f max %.6f" % (ratio.min(), ratio.max()))
print("   max|M - (difference divided by projected diameter)|/max : %.3e" % (numpy.abs(M - O_proj).max() / O_proj.max()))
if abs(ratio.mean() - 1) > 1e-4:
    print("VIOLATION: LGS slope covariances of the 15 km layer are %.4f x the covariance of the slopes the WFS measures" % ratio.mean())
    sys.exit(1)
print("no violation")
sys.exit(0)
