import os, sys; sys.path.insert(0, os.environ.get('AOTOOLS_ROOT', '/tmp/wt7_C01'))
# C01 finding 3: structure_function_vk evaluates  A * (1 - c z^(5/6) K_5/6(2 pi z)),  A = 0.17253 (L0/r0)^(5/3), z = r/L0.
# For a large outer scale the bracket is 1 - (1 - O(z^(5/3))): catastrophic cancellation, absolute error ~ 1e-16 * A,
# which grows as L0^(5/3) while the covariances stay O(1).  From L0 ~ 1e7 m the returned entries are wrong far beyond
# single precision and at L0 = 1e9 m the matrix is not positive semi-definite.
import numpy, scipy.special
from scipy.special import gamma
from aotools.turbulence.slopecovariance import CovarianceMatrix

nu = 5 / 6.


def Dvk_series(r, r0, L0):
    """von Karman structure function from the ascending series of K_nu (no cancellation for 2 pi r / L0 < 2):
       1 - 2^(1-nu)/Gamma(nu) x^nu K_nu(x) = Gamma(1-nu) [ sum_k (x/2)^(2k+2nu)/(k! Gamma(k+nu+1)) - sum_{k>=1} (x/2)^(2k)/(k! Gamma(k-nu+1)) ]"""
    r = numpy.asarray(r, dtype=float)
    h = numpy.pi * r / L0
    assert h.max() < 1
    s = numpy.zeros_like(r)
    for k in range(25):
        s += gamma(1 - nu) * h ** (2 * k + 2 * nu) / (gamma(k + 1) * gamma(k + nu + 1))
        if k >= 1:
            s -= gamma(1 - nu) * h ** (2 * k) / (gamma(k + 1) * gamma(k - nu + 1))
    return 0.17253 * (L0 / r0) ** (5 / 3.) * s


def Dvk_closed(r, r0, L0):
    r = numpy.asarray(r, dtype=float)
    z = numpy.where(r > 0, r, 1.) / L0
    v = 0.17253 * (L0 / r0) ** (5 / 3.) * (1 - 2 * numpy.pi ** nu / gamma(nu) * z ** nu * scipy.special.kv(nu, 2 * numpy.pi * z))
    return numpy.where(r > 0, v, 0.)


def oracle(mask, D, d, wl, r0, L0, Dfun):
    pos = (numpy.argwhere(mask == 1) + 0.5) * d - D / 2.
    P, Q = [], []
    for ax in (0, 1):
        e = numpy.zeros(2); e[ax] = d / 2.
        P.append(pos + e); Q.append(pos - e)
    P = numpy.vstack(P); Q = numpy.vstack(Q)
    DD = lambda A, B: Dfun(numpy.sqrt(((A[:, None] - B[None]) ** 2).sum(-1)), r0, L0)
    return 0.5 * (DD(P, Q) + DD(Q, P) - DD(P, P) - DD(Q, Q)) * (wl / (2 * numpy.pi * d)) ** 2


n, d, wl, r0 = 8, 0.5, 500e-9, 0.15
mask = numpy.ones((n, n))
# the series oracle agrees with the closed form where the closed form is well conditioned
chk = numpy.abs(oracle(mask, n * d, d, wl, r0, 25., Dvk_series) / oracle(mask, n * d, d, wl, r0, 25., Dvk_closed)[0, 0]
                - oracle(mask, n * d, d, wl, r0, 25., Dvk_closed) / oracle(mask, n * d, d, wl, r0, 25., Dvk_closed)[0, 0]).max()
print("oracle check at L0=25 m: series vs closed form, max difference / diagonal = %.2e" % chk)
print("Kolmogorov limit check: series D(1 m; r0=0.15, L0=1e12) = %.6f, 6.88 (1/0.15)^(5/3) = %.6f"
      % (Dvk_series(numpy.array([1.]), 0.15, 1e12)[0], 6.88 * (1 / 0.15) ** (5 / 3.)))

worst = 0.
worst_psd = 0.
print("%10s %22s %22s %22s" % ("L0 [m]", "max|M-true|/diagonal", "min eig / max eig", "M[0,0] / true[0,0]"))
for L0 in [25., 1e3, 1e5, 1e6, 1e7, 1e8, 1e9]:
    c = CovarianceMatrix(1, [mask], n * d, [d], [0], [[0, 0]], [wl], 1, [0.], [r0], [L0])
    M = c.make_covariance_matrix()
    O = oracle(mask, n * d, d, wl, r0, L0, Dvk_series)
    rel = numpy.abs(M - O).max() / O[0, 0]
    ev = numpy.linalg.eigvalsh(M.astype(float))
    print("%10g %22.3e %22.3e %22.8f" % (L0, rel, ev.min() / ev.max(), M[0, 0] / O[0, 0]))
    if L0 >= 1e7:
        worst = max(worst, rel)
        worst_psd = min(worst_psd, ev.min() / ev.max())

if worst > 1e-5:
    print("VIOLATION: for L0 >= 1e7 m entries differ from the von Karman slope covariance by up to %.3g x the diagonal"
          " (single precision is 6e-8); smallest eigenvalue ratio %.3g" % (worst, worst_psd))
    sys.exit(1)
print("no violation")
sys.exit(0)
