import os, sys; sys.path.insert(0, os.environ.get('AOTOOLS_ROOT', '/tmp/wt7_C14'))
# float32 pupil mask + a threshold held as numpy.float64: the cell mean is computed in
# float32 (0.7 -> 0.69999999) and compared in float64, so a cell whose mean mask value
# equals the threshold is dropped. The same mask in float64 / bool / uint8 is selected.
import numpy
from aotools.wfs import wfslib

base = numpy.zeros((20, 20))
base[:7, :10] = 1      # cell (0,0): 70 of 100 pixels
base[10:, 10:] = 1     # cell (1,1): full
threshold = numpy.float64(0.7)
print("2 x 2 sub-apertures on a 20 x 20 mask, cell (0,0) has 70 of 100 pixels set; threshold =", repr(threshold))

results = {}
for dt in (numpy.float64, bool, numpy.uint8, numpy.float32):
    coords, fills = wfslib.findActiveSubaps(2, base.astype(dt), threshold, returnFill=True)
    results[dt.__name__] = [tuple(float(v) for v in c) for c in coords.reshape(-1, 2)]
    print("mask dtype %-8s selected cells %s fills %s" % (dt.__name__, results[dt.__name__],
          [repr(float(f)) for f in fills]))

cell = base.astype(numpy.float32)[:10, :10]
print("float32 cell mean = %r (float64 value %.17g), exact mean = 70/100, threshold = %.17g"
      % (cell.mean(), float(cell.mean()), float(threshold)))
print("with a Python float threshold 0.7 (comparison then done in float32):",
      [tuple(float(v) for v in c) for c in wfslib.findActiveSubaps(2, base.astype(numpy.float32), 0.7).reshape(-1, 2)])

if results["float32"] != results["float64"]:
    print("VIOLATION: cell (0,0) has mean mask value 0.7 >= threshold but is not returned for the float32 mask "
          "(discrepancy %.3g)" % (float(threshold) - float(cell.mean())))
    sys.exit(1)
print("no violation")
sys.exit(0)
