import os, sys; sys.path.insert(0, os.environ.get('AOTOOLS_ROOT', '/tmp/wt7_C14'))
# make_subaps_2d on a non-square sub-aperture mask: the column loop runs over mask.shape[0]
# instead of mask.shape[1], so scatter-then-read-back is not the identity (or crashes).
import numpy
from aotools.wfs import wfslib

violation = False

def roundtrip(mask, label):
    global violation
    n = int((mask == 1).sum())
    data = (1.0 + numpy.arange(3 * 2 * n, dtype=float)).reshape(3, 2, n)   # all entries non-zero
    print("%s: mask shape %s, %d valid sub-apertures, data shape %s" % (label, mask.shape, n, data.shape))
    try:
        s2d = wfslib.make_subaps_2d(data, mask)
    except Exception as e:
        print("   make_subaps_2d raised", repr(e))
        violation = True
        return
    back = s2d[:, :, mask == 1]
    ok = back.shape == data.shape and numpy.array_equal(back, data)
    print("   output shape", s2d.shape, " read back through the mask == data:", ok)
    if not ok:
        print("   number of sub-apertures scattered (non-zero cells in frame 0, x-slopes):",
              int((s2d[0, 0] != 0).sum()), "of", n)
        print("   frame 0 x-slope map:\n", s2d[0, 0])
        violation = True

roundtrip(numpy.ones((4, 4)), "square control")
wide = numpy.ones((3, 5)); wide[0, 0] = 0
roundtrip(wide, "wide mask (3 rows, 5 columns)")
tall = numpy.ones((5, 3)); tall[0, 0] = 0
roundtrip(tall, "tall mask (5 rows, 3 columns)")

if violation:
    print("VIOLATION: scatter into the 2-D map then read back through the mask is not the identity for non-square masks")
    sys.exit(1)
print("no violation")
sys.exit(0)
