import os, sys; sys.path.insert(0, os.environ.get('AOTOOLS_ROOT', '/tmp/wt7_C14'))
# circle() with a radius held in a small NumPy integer type: radius*radius overflows
# and the mask is no longer the indicator of the pixel centres within distance r.
import warnings
import numpy
from aotools.functions.pupil import circle

warnings.simplefilter("ignore")   # the overflow only raises a RuntimeWarning

def reference(r, n):
    c = numpy.arange(0.5, n, 1.0) - n / 2.
    x, y = numpy.meshgrid(c, c)
    return (x * x + y * y <= float(r) ** 2).astype(float)

violation = False
cases = [(numpy.int16(181), 400), (numpy.int16(182), 400),
         (numpy.uint8(15), 40), (numpy.uint8(16), 40),
         (numpy.int8(11), 30), (numpy.int8(12), 30),
         (numpy.int32(46340), 8), (numpy.int32(46341), 8)]
prev = None
for r, n in cases:
    got = circle(r, n)
    ref = reference(r, n)
    same = numpy.array_equal(got, ref)
    print("circle(%r, %d): sum = %g, exact indicator sum = %g, pi r^2 = %.1f, equal = %s"
          % (r, n, got.sum(), ref.sum(), numpy.pi * float(r) ** 2, same))
    if not same:
        violation = True

a = circle(numpy.int16(181), 400)
b = circle(numpy.int16(182), 400)
nested = bool((b >= a).all())
print("nested in r: circle(int16 181, 400) <= circle(int16 182, 400) everywhere:", nested,
      "(sums %g, %g)" % (a.sum(), b.sum()))
if not nested:
    violation = True

if violation:
    print("VIOLATION: integer-typed radius: radius*radius wraps around; mask is empty "
          "although every/most pixel centres lie within distance r; masks not nested in r")
    sys.exit(1)
print("no violation")
sys.exit(0)
