import os, sys; sys.path.insert(0, os.environ.get('AOTOOLS_ROOT', '/tmp/wt7_C14'))
# Non-square mask whose two sides are both multiples of the sub-aperture count:
# findActiveSubaps uses a separate spacing per axis, computeFillFactor takes one spacing
# for both axes, so the fill factors cannot be recomputed by the fill-factor function.
import numpy
from aotools.wfs import wfslib

subaps = 4
mask = numpy.zeros((8, 12))
ii, jj = numpy.indices(mask.shape)
# an ellipse filling the 8 x 12 array (pixel centres at half-integer coordinates)
mask[((ii + 0.5 - 4) / 4.0) ** 2 + ((jj + 0.5 - 6) / 6.0) ** 2 <= 1.0] = 1
print("mask shape", mask.shape, "sub-aperture count", subaps,
      "-> spacings", mask.shape[0] / subaps, "and", mask.shape[1] / subaps, "(both integer)")
print(mask.astype(int))

coords, fills = wfslib.findActiveSubaps(subaps, mask, 0.2, returnFill=True)
print("active cells:", len(coords))
print("fills from findActiveSubaps :", numpy.round(fills, 4))

violation = True
for spacing in (mask.shape[0] / subaps, mask.shape[1] / subaps):
    re = wfslib.computeFillFactor(mask, coords, spacing)
    same = numpy.array_equal(re, fills)
    print("computeFillFactor(spacing=%g):" % spacing, numpy.round(re, 4), " equal:", same,
          " max |diff| = %.4f" % numpy.abs(re - fills).max())
    if same:
        violation = False
try:
    re = wfslib.computeFillFactor(mask, coords, (mask.shape[0] / subaps, mask.shape[1] / subaps))
    print("computeFillFactor(spacing=(2,3)):", re)
except Exception as e:
    print("computeFillFactor with a per-axis spacing raised", repr(e))

# control: square mask, multiple of the count
sq = numpy.zeros((12, 12))
i2, j2 = numpy.indices(sq.shape)
sq[(i2 + 0.5 - 6) ** 2 + (j2 + 0.5 - 6) ** 2 <= 36] = 1
c2, f2 = wfslib.findActiveSubaps(4, sq, 0.2, returnFill=True)
print("square control equal:", numpy.array_equal(wfslib.computeFillFactor(sq, c2, 3), f2))

if violation:
    print("VIOLATION: fill factors of a non-square mask (sides multiples of the count) are not reproduced by computeFillFactor")
    sys.exit(1)
print("no violation")
sys.exit(0)
