import os, sys; sys.path.insert(0, os.environ.get('AOTOOLS_ROOT', '/tmp/wt7_C17'))
# C17: "for stacked profiles the integration axis argument gives the same numbers
# as looping over profiles" -- isoplanaticAngle / coherenceTime / rytov_variance with
# axis=0 and the (documented) per-layer 1-D altitude / wind vector shared by all profiles.
import numpy
from aotools.turbulence import atmos_conversions as ac

lam = 700e-9
rng = numpy.random.RandomState(17)
violations = []


def loop_over_profiles(fn, cn2_LP, x):
    # cn2_LP has layers along axis 0, profiles along axis 1: loop over the profiles
    return numpy.array([fn(cn2_LP[:, p], x, lam) for p in range(cn2_LP.shape[1])])


def run(fn, cn2_LP, x, label):
    ref = loop_over_profiles(fn, cn2_LP, x)
    print("%s %s: cn2 shape %s (layers on axis 0), per-layer vector shape %s, axis=0"
          % (fn.__name__, label, cn2_LP.shape, x.shape))
    print("   loop over profiles :", ref)
    try:
        got = numpy.asarray(fn(cn2_LP, x, lam, axis=0))
    except Exception as e:
        print("   axis=0             : raised %s: %s" % (type(e).__name__, e))
        violations.append((fn.__name__, label, "exception " + type(e).__name__))
        return
    print("   axis=0             :", got)
    if got.shape != ref.shape:
        print("   shape %s instead of %s" % (got.shape, ref.shape))
        violations.append((fn.__name__, label, "shape %s != %s" % (got.shape, ref.shape)))
        return
    err = numpy.abs(got / ref - 1).max()
    print("   max relative deviation: %.3g" % err)
    if err > 1e-9:
        violations.append((fn.__name__, label, "max rel. deviation %.3g" % err))
    # control: the same numbers with the integration axis last must agree (they do)
    ctrl = numpy.abs(numpy.asarray(fn(cn2_LP.T.copy(), x, lam, axis=-1)) / ref - 1).max()
    print("   control (transposed stack, axis=-1) max relative deviation: %.3g" % ctrl)


for L, P, label in [(5, 3, "L=5 layers, P=3 profiles"),
                    (5, 5, "L=5 layers, P=5 profiles (square stack)"),
                    (4, 1, "L=4 layers, P=1 profile stored as a column")]:
    cn2 = 10 ** rng.uniform(-16, -13, (L, P))
    h = numpy.sort(rng.uniform(100., 20000., L))
    v = rng.uniform(2., 40., L)
    run(ac.isoplanaticAngle, cn2, h, label)
    run(ac.coherenceTime, cn2, v, label)
    run(ac.rytov_variance, cn2, h, label)

if violations:
    print("VIOLATION: the axis argument does not give the same numbers as looping over profiles")
    for item in violations:
        print("   ", item)
    sys.exit(1)
print("no violation")
sys.exit(0)
