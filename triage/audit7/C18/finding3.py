import os, sys; sys.path.insert(0, os.environ.get('AOTOOLS_ROOT', '/tmp/wt7_C18'))
# C18 finding 3: the accuracy of GCTM depends on the absolute scale of the strengths. The same
# profile shape is compressed to ~1e-7 relative moment error when its total strength is 1e-12, but
# for weak totals the optimiser stops after 0-2 iterations (absolute tolerances on a cost that
# scales as strength**2) and the returned moments are 17-21 % off - no better than the unoptimised
# equivalent-layers starting guess.
import warnings
import numpy
warnings.simplefilter('ignore')
from aotools.turbulence.profile_compression import GCTM, equivalent_layers

L = 2
h = numpy.linspace(0., 20000., 100)
shape = numpy.exp(-h / 3000.)
shape /= shape.sum()
hs = 1e4

def relerr(ho, co, p):
    m_in = numpy.array([(p * (h / hs) ** k).sum() for k in range(2 * L - 1)])
    m_out = numpy.array([(co * (ho / hs) ** k).sum() for k in range(2 * L - 1)])
    return numpy.abs(m_out - m_in) / m_in

worst = {}
for total in (1e-12, 1e-13, 1e-15, 1e-16, 1e-18):
    p = shape * total
    ho, co = GCTM(h, p, L)
    gh, gc = equivalent_layers(h, p, L)
    e = relerr(ho, co, p)
    eg = relerr(gh, gc, p)
    worst[total] = e.max()
    print('total strength %.0e: heights %s  strengths/total %s' % (total, ho, co / total))
    print('     relative error of moments 0..%d: %s   (starting guess: %s)' % (2 * L - 2, e, eg))
print('worst relative moment error: strong profile %.2e, weak profiles %.2e / %.2e / %.2e'
      % (worst[1e-12], worst[1e-15], worst[1e-16], worst[1e-18]))
if worst[1e-12] < 1e-4 and max(worst[1e-15], worst[1e-16], worst[1e-18]) > 0.1:
    print('VIOLATION: for weak profiles GCTM returns moments off by more than 10 %, '
          'the same shape at total 1e-12 is reproduced to', worst[1e-12])
    sys.exit(1)
print('no violation')
sys.exit(0)
