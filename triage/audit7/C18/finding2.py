import os, sys; sys.path.insert(0, os.environ.get('AOTOOLS_ROOT', '/tmp/wt7_C18'))
# C18 finding 2: GCTM on a profile whose L equal-thickness slabs all contain layers (inside the
# quantifier) but where the layers of one slab have exactly zero strength: the starting guess has a
# NaN height, the optimiser returns it unchanged, the moments are not reproduced (NaN).
import warnings
import numpy
warnings.simplefilter('ignore')
from aotools.turbulence.profile_compression import GCTM, equivalent_layers

L = 3
h = numpy.linspace(0., 20000., 21)          # regular grid, 7 layers in each of the 3 slabs
p = numpy.exp(-h / 3000.) * 1e-13
p[7:14] = 0.                                # a clear (turbulence-free) band between 7 and 13 km
edges = h.min() + (h.max() - h.min()) / L * numpy.arange(L)
counts = numpy.bincount(numpy.digitize(h, edges) - 1, minlength=L)
print('layers per slab', counts, '(all non-empty: %s)' % (counts > 0).all())
h_out, c_out = GCTM(h, p, L)
print('GCTM heights  ', h_out)
print('GCTM strengths', c_out)
hs = 1e4
m_in = numpy.array([(p * (h / hs) ** k).sum() for k in range(2 * L - 1)])
m_out = numpy.array([(c_out * (h_out / hs) ** k).sum() for k in range(2 * L - 1)])
print('moments in ', m_in)
print('moments out', m_out)
rel = numpy.abs(m_out - m_in) / m_in
print('relative error', rel)
bad = (len(h_out) != L or len(c_out) != L or not numpy.isfinite(h_out).all()
       or not numpy.isfinite(c_out).all() or not (c_out >= 0).all()
       or not numpy.isfinite(rel).all() or rel.max() > 1e-2)
if bad:
    print('VIOLATION: GCTM returns NaN heights; moments 1..%d of the output are NaN' % (2 * L - 2))
    sys.exit(1)
print('no violation')
sys.exit(0)
