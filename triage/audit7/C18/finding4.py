import os, sys; sys.path.insert(0, os.environ.get('AOTOOLS_ROOT', '/tmp/wt7_C18'))
# C18 finding 4: optimal_grouping with heights held in an unsigned-integer array (e.g. metres read
# from a file as uint16/uint32). h[i]-h[j] wraps around, |.| of an unsigned number is the number
# itself, so the cost function is wrong: the returned grouping/representative heights cost MORE than
# the plain equal split, and differ from the result for the same heights as float.
import numpy
from aotools.turbulence.profile_compression import optimal_grouping

def true_cost(h, p, h_out, c_out):
    # cost (Saxenhuber 2017 Eq. 7) of the returned layers: contiguous groups are recovered from the
    # cumulative strengths, each input layer is charged p_i * |h_i - h_l|
    h = h.astype(float); cost = 0.; start = 0
    for hl, cl in zip(h_out.astype(float), c_out):
        stop = start + 1
        while stop < len(p) and abs(p[start:stop].sum() - cl) > 1e-12 * max(1., abs(cl)):
            stop += 1
        cost += (p[start:stop] * numpy.abs(h[start:stop] - hl)).sum()
        start = stop
    assert start == len(p)
    return cost

def equal_split_cost(h, p, L):
    h = h.astype(float); N = len(p)
    edges = numpy.linspace(0, N, L + 1, dtype=int)
    cost = 0.
    for a, b in zip(edges[:-1] + numpy.r_[0, numpy.ones(L - 1, int)], edges[1:] + 1):
        b = min(b, N)
        cost += min((p[a:b] * numpy.abs(h[a:b] - hk)).sum() for hk in h[a:b])
    return cost

L = 2
p = numpy.ones(5)
h_u = numpy.array([0, 1000, 5000, 9000, 20000], dtype=numpy.uint32)
violated = False
for seed in (0, 1, 2):
    numpy.random.seed(seed)
    hu, cu = optimal_grouping(3, L, h_u, p)
    numpy.random.seed(seed)
    hf, cf = optimal_grouping(3, L, h_u.astype(float), p)
    c_u = true_cost(h_u, p, hu, cu); c_f = true_cost(h_u, p, hf, cf); c_eq = equal_split_cost(h_u, p, L)
    print('seed', seed, 'uint32 heights ->', hu, cu, 'cost', c_u)
    print('        float heights  ->', hf, cf, 'cost', c_f, '  equal split cost', c_eq)
    if c_u > c_eq * (1 + 1e-12):
        violated = True
if violated:
    print('VIOLATION: with unsigned-integer heights the returned layers cost more than the equal split')
    sys.exit(1)
print('no violation')
sys.exit(0)
