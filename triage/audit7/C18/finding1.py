import os, sys; sys.path.insert(0, os.environ.get('AOTOOLS_ROOT', '/tmp/wt7_C18'))
# C18 finding 1: equivalent_layers returns a NaN height (and NaN wind) for every slab that holds
# no input layer (irregular heights), so the 5/3 height moment / 5/3 wind moment of the
# compressed profile is NaN instead of being conserved.
import warnings
import numpy
warnings.simplefilter('ignore')
from aotools.turbulence.profile_compression import equivalent_layers

cases = [
    ('dense ground, one high layer', numpy.array([0., 100., 200., 10000.]),
     numpy.array([4., 3., 2., 1.]) * 1e-13, numpy.array([5., 10., 15., 20.]), 3),
    ('octave-spaced heights', numpy.array([0., 500., 1000., 2000., 4000., 8000., 16000.]),
     numpy.array([5., 3., 2., 1., 1., .5, .2]) * 1e-13, numpy.array([5., 6., 8., 10., 15., 30., 20.]), 5),
]
violated = False
for name, h, p, w, L in cases:
    h_el, c_el, w_el = equivalent_layers(h, p, L, w)
    m_h_in = (p * h ** (5 / 3)).sum()
    m_h_out = (c_el * h_el ** (5 / 3)).sum()
    m_w_in = (p * w ** (5 / 3)).sum()
    m_w_out = (c_el * w_el ** (5 / 3)).sum()
    print(name, ': N =', len(h), 'L =', L)
    print('  heights out   ', h_el)
    print('  strengths out ', c_el, ' total in/out', p.sum(), c_el.sum())
    print('  wind out      ', w_el)
    print('  5/3 height moment in/out', m_h_in, m_h_out)
    print('  5/3 wind moment   in/out', m_w_in, m_w_out)
    ok_h = numpy.isfinite(m_h_out) and abs(m_h_out - m_h_in) <= 1e-10 * abs(m_h_in)
    ok_w = numpy.isfinite(m_w_out) and abs(m_w_out - m_w_in) <= 1e-10 * abs(m_w_in)
    if not (ok_h and ok_w and numpy.isfinite(h_el).all() and numpy.isfinite(w_el).all()):
        violated = True
if violated:
    print('VIOLATION: equivalent_layers output has NaN heights/wind; 5/3 moments are NaN, not conserved')
    sys.exit(1)
print('no violation')
sys.exit(0)
