import os, sys; sys.path.insert(0, os.environ.get('AOTOOLS_ROOT', '/tmp/wt7_C12'))
# C12 finding 5 (precision only): makegammas stores the matrices as float32, so the irrational
# entries sqrt((n+1)(n'+1)) [* sqrt 2] carry a relative error of ~6e-8 and the gamma matrices
# reproduce the exact gradients of the modes only to ~1e-7 relative (1e-6 .. 5e-6 absolute),
# four to five orders of magnitude above float64 round-off. The structure/signs are right:
# the same matrices with the entries recomputed in float64 reproduce the gradients to ~1e-12.
import math
import numpy
from numpy.polynomial import polynomial as P
from aotools.functions import zernike as z


def polymul2(a, b):
    out = numpy.zeros((a.shape[0] + b.shape[0] - 1, a.shape[1] + b.shape[1] - 1), dtype=complex)
    for i in range(a.shape[0]):
        for j in range(a.shape[1]):
            if a[i, j] != 0:
                out[i:i + b.shape[0], j:j + b.shape[1]] += a[i, j] * b
    return out


def polypow(a, k):
    out = numpy.ones((1, 1), dtype=complex)
    for _ in range(k):
        out = polymul2(out, a)
    return out


def zpoly(n, m):
    """exact x-y polynomial coefficients c[px, py] of the Noll-normalised mode (n, m)"""
    D = n + 1
    am = abs(m)
    xy = numpy.zeros((2, 2), dtype=complex); xy[1, 0] = 1; xy[0, 1] = 1j      # x + i y
    r2 = numpy.zeros((3, 3), dtype=complex); r2[2, 0] = 1; r2[0, 2] = 1       # x^2 + y^2
    ang = polypow(xy, am)
    tot = numpy.zeros((D, D), dtype=complex)
    for i in range((n - am) // 2 + 1):
        c = (-1)**i * math.factorial(n - i) // (
            math.factorial(i) * math.factorial((n + am) // 2 - i) * math.factorial((n - am) // 2 - i))
        t = polymul2(ang, polypow(r2, (n - 2 * i - am) // 2))
        tot[:t.shape[0], :t.shape[1]] += c * t
    if m == 0:
        return numpy.sqrt(n + 1) * tot.real
    if m > 0:
        return numpy.sqrt(2 * (n + 1)) * tot.real
    return numpy.sqrt(2 * (n + 1)) * tot.imag


N = 64
coords = (numpy.arange(N) - N / 2. + 0.5) / (N / 2.)
X, Y = numpy.meshgrid(coords, coords)
mask = (X**2 + Y**2) <= 1
bad = False
for nzrad in (2, 4, 6, 8):
    g = z.makegammas(nzrad)
    nz = g.shape[1]
    # float64 version of the same matrices: g**2 is an integer (n+1)(n'+1) or twice that
    g64 = numpy.sign(g) * numpy.sqrt(numpy.round(g.astype(float)**2))
    entry_rel = numpy.abs(g[g != 0].astype(float) - g64[g != 0]) / numpy.abs(g64[g != 0])
    Zs = z.zernikeArray(nz, N)
    e32 = e64 = emode = 0.0
    gmax = 0.0
    for j in range(1, nz + 1):
        n, m = z.zernIndex(j)
        c = zpoly(n, m)
        emode = max(emode, numpy.abs(P.polyval2d(X, Y, c) * mask - Zs[j - 1]).max())
        dx = P.polyval2d(X, Y, P.polyder(c, axis=0)) * mask if n > 0 else 0 * X
        dy = P.polyval2d(X, Y, P.polyder(c, axis=1)) * mask if n > 0 else 0 * X
        gmax = max(gmax, numpy.abs(dx).max(), numpy.abs(dy).max())
        for gg, which in ((g, 32), (g64, 64)):
            ex = numpy.abs(numpy.tensordot(gg[0][j - 1].astype(float), Zs, 1) - dx).max()
            ey = numpy.abs(numpy.tensordot(gg[1][j - 1].astype(float), Zs, 1) - dy).max()
            if which == 32:
                e32 = max(e32, ex, ey)
            else:
                e64 = max(e64, ex, ey)
    print("nzrad=%d (%d modes) dtype=%s: max relative error of a gamma entry = %.2e; "
          "max |gamma.Z - exact gradient| = %.3e (library, float32) vs %.3e (same entries in float64); "
          "max |gradient| = %.1f; polynomial-vs-library mode check %.1e" % (
              nzrad, nz, g.dtype, entry_rel.max(), e32, e64, gmax, emode))
    if e32 > 1e-8 and e64 < 1e-9 and e32 > 1e3 * e64:
        bad = True
if bad:
    print("VIOLATION (precision): gamma matrices are float32; gradients reproduced only to ~1e-6 absolute / 1e-7 relative, not to 1e-10")
    sys.exit(1)
print("no violation")
sys.exit(0)
