import os, sys; sys.path.insert(0, os.environ.get('AOTOOLS_ROOT', '/tmp/wt7_C12'))
# C12 finding 3: the Noll index arithmetic is done in the dtype of j. An index list handed to
# zernikeArray as a small-integer NumPy array (uint8 / int8 / int16) is mapped to wrong (even
# impossible) (n, m) silently (uint8) or crashes (int8, int16), because 8*(j-1) wraps around.
import warnings
import numpy
from aotools.functions import zernike as z

bad = False
with warnings.catch_warnings():
    warnings.simplefilter("ignore")
    for dt, js in ((numpy.uint8, (32, 33, 34, 40, 100, 255)),
                   (numpy.int8, (16, 17, 100)),
                   (numpy.int16, (4096, 4097, 20000)),
                   (numpy.int32, (4097, 20000)),
                   (numpy.int64, (4097, 20000))):
        for j in js:
            ref = z.zernIndex(int(j))
            try:
                got = z.zernIndex(dt(j))
            except Exception as e:
                got = repr(e)
            flag = "" if got == ref else "   <-- WRONG"
            if got != ref:
                bad = True
            print("zernIndex(%s(%d)) = %s ; zernIndex(%d) = %s%s" % (dt.__name__, j, got, j, ref, flag))

    N = 32
    full = z.zernikeArray(40, N)
    idx = numpy.array([4, 33, 40], dtype=numpy.uint8)
    sub = z.zernikeArray(idx, N)
    for k, j in enumerate(idx):
        d = numpy.abs(sub[k] - full[int(j) - 1]).max()
        print("zernikeArray(uint8 array [4,33,40], 32)[%d] vs zernikeArray(40, 32)[%d]: max |difference| = %.4g" % (k, int(j) - 1, d))
        if d > 1e-9:
            bad = True
    sub64 = z.zernikeArray(idx.astype(numpy.int64), N)
    print("same list as int64: max |difference| = %.4g" % max(
        numpy.abs(sub64[k] - full[int(j) - 1]).max() for k, j in enumerate(idx)))

if bad:
    print("VIOLATION: index list of dtype uint8/int8/int16 is mapped to the wrong (n, m); list-built array != slices of count-built array")
    sys.exit(1)
print("no violation")
sys.exit(0)
