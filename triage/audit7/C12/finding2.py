import os, sys; sys.path.insert(0, os.environ.get('AOTOOLS_ROOT', '/tmp/wt7_C12'))
# C12 finding 2: for radial order n >= 171 (Noll j >= 14707) no mode can be generated at all
# (OverflowError from int -> float64 conversion of (n-i)!), even for m = +-n where the radial
# polynomial is simply r**n; for n around 160-170 the result contains NaN outside the pupil.
import warnings
import numpy
from aotools.functions import zernike as z

bad = False
for j in (14706, 14707, 14878, 20000):
    n, m = z.zernIndex(j)
    try:
        with warnings.catch_warnings():
            warnings.simplefilter("ignore")
            Z = z.zernike_noll(j, 16)
        N = 16
        coords = (numpy.arange(N) - N / 2. + 0.5) / (N / 2.)
        X, Y = numpy.meshgrid(coords, coords)
        out = (X**2 + Y**2) > 1
        nan_out = int(numpy.isnan(Z[out]).sum())
        nan_in = int(numpy.isnan(Z[~out]).sum())
        print("j=%d (n,m)=(%d,%d): returned; NaN outside pupil: %d of %d pixels, NaN inside: %d" % (
            j, n, m, nan_out, out.sum(), nan_in))
        if nan_out or nan_in:
            bad = True
    except Exception as e:
        print("j=%d (n,m)=(%d,%d): raised %r" % (j, n, m, e))
        bad = True

# the purely azimuthal mode m = n needs only r**n, yet fails as well
for n in (170, 171, 300):
    try:
        with warnings.catch_warnings():
            warnings.simplefilter("ignore")
            Z = z.zernike_nm(n, n, 16)
        print("zernike_nm(%d, %d, 16): returned, finite=%s, nonzero outside pupil or NaN=%s" % (
            n, n, bool(numpy.isfinite(Z).all()), bool(numpy.isnan(Z).any())))
        if not numpy.isfinite(Z).all():
            bad = True
    except Exception as e:
        print("zernike_nm(%d, %d, 16): raised %r" % (n, n, e))
        bad = True

if bad:
    print("VIOLATION: no result (OverflowError) for every Noll index j >= 14707 (n >= 171); NaN outside the pupil at n = 170")
    sys.exit(1)
print("no violation")
sys.exit(0)
