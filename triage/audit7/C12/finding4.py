import os, sys; sys.path.insert(0, os.environ.get('AOTOOLS_ROOT', '/tmp/wt7_C12'))
# C12 finding 4: with norm="p2v" the piston mode is divided by (max - min) taken over the whole
# array. On grids N = 1, 2, 3 every pixel lies inside the pupil, the piston plane is constant,
# max - min = 0, and the plane becomes inf (1/0); phaseFromZernikes then returns NaN everywhere even
# when the piston coefficient is 0.
import warnings
import numpy
from aotools.functions import zernike as z

bad = False
with warnings.catch_warnings():
    warnings.simplefilter("ignore")
    for N in (2, 3, 4, 5, 8):
        Zs = z.zernikeArray(3, N, norm="p2v")
        pv = [float(a.max() - a.min()) for a in Zs]
        ph = z.phaseFromZernikes([0.0, 1.0, 0.0], N, norm="p2v")
        want = 1.0 * z.zernikeArray([2], N, norm="p2v")[0]
        print("N=%d: peak-to-valley of modes 1..3 = %s ; piston plane = %s" % (N, pv, Zs[0].ravel()[:4]))
        print("      phaseFromZernikes([0,1,0], %d, 'p2v') has NaN: %s ; max |phase - 1*Z2| = %s" % (
            N, bool(numpy.isnan(ph).any()), numpy.abs(ph - want).max()))
        if N in (2, 3) and (not numpy.isfinite(Zs[0]).all() or numpy.isnan(ph).any()):
            bad = True
if bad:
    print("VIOLATION: norm='p2v' piston is inf (not unit peak-to-valley) on N = 2 and N = 3, and poisons phaseFromZernikes")
    sys.exit(1)
print("no violation")
sys.exit(0)
