import os, sys; sys.path.insert(0, os.environ.get('AOTOOLS_ROOT', '/tmp/wt7_C12'))
# C12 finding 1: high-order modes (radial order n >~ 40, Noll j >~ 820) are numerically wrong.
# zernikeRadialFunc sums the alternating factorial series in float64; the terms reach
# ~1e16..1e19 and cancel catastrophically, so the generated "modes" are not Zernike
# polynomials at all: |R_n^m(r)| <= 1 on [0,1] is violated, the Noll Gram entries do not
# tend to the identity on any grid, and rms/p2v-normalised arrays are scaled garbage.
import numpy
from aotools.functions import zernike as z
from aotools.functions.pupil import circle

try:
    from scipy.special import eval_jacobi
except Exception:
    eval_jacobi = None


def reference(n, m, N):
    # stable evaluation: R_n^m(r) = (-1)^k r^m P_k^(m,0)(1 - 2 r^2), k = (n-m)/2
    coords = (numpy.arange(N) - N / 2. + 0.5) / (N / 2.)
    X, Y = numpy.meshgrid(coords, coords)
    R = numpy.sqrt(X**2 + Y**2)
    th = numpy.arctan2(Y, X)
    am = abs(m)
    k = (n - am) // 2
    rad = (-1)**k * R**am * eval_jacobi(k, am, 0, 1 - 2 * R**2)
    if m == 0:
        Z = numpy.sqrt(n + 1) * rad
    elif m > 0:
        Z = numpy.sqrt(2 * (n + 1)) * rad * numpy.cos(am * th)
    else:
        Z = numpy.sqrt(2 * (n + 1)) * rad * numpy.sin(am * th)
    return Z * (R <= 1)


bad = False
print("Noll index j -> (n, m); <Z_j,Z_j> and <Z_j,Z_1> over the pupil (should tend to 1 and 0);")
print("max|Z_j| / sqrt(n+1) (mathematically <= 1 for m = 0 since |R_n^0| <= 1)")
for N in (128, 256, 512):
    npix = circle(N / 2., N).sum()
    for j in (821, 991, 1082, 1276):
        n, m = z.zernIndex(j)
        Z = z.zernike_noll(j, N)
        zz = (Z * Z).sum() / npix
        z1 = Z.sum() / npix
        peak = numpy.abs(Z).max() / numpy.sqrt(n + 1)
        line = "N=%4d j=%5d (n,m)=(%d,%d)  <Z,Z>=%-12.6g <Z,Z1>=%-11.4g max|Z|/sqrt(n+1)=%-9.4g" % (
            N, j, n, m, zz, z1, peak)
        if eval_jacobi is not None:
            Zr = reference(n, m, N)
            line += " | stable reference: <Z,Z>=%.5f, max|Z-Zref|=%.3g" % (
                (Zr * Zr).sum() / npix, numpy.abs(Z - Zr).max())
        print(line)
        if j >= 1082 and (abs(zz - 1) > 0.5 or peak > 1.5):
            bad = True

# the radial function itself, at r = 1 where every Zernike radial polynomial equals 1
r = numpy.array([[1.0, 0.99]])
for n in (30, 40, 44, 50, 60):
    v = z.zernikeRadialFunc(n, 0, r)
    print("zernikeRadialFunc(%d, 0, r=[1, 0.99]) = %s   (exact value at r=1 is 1, and |R| <= 1)" % (n, v))
    if n >= 50 and abs(v[0, 0] - 1) > 0.5:
        bad = True

# unit-RMS normalisation cannot repair the shape: correlation with the true mode
if eval_jacobi is not None:
    N = 256
    j = 1276
    n, m = z.zernIndex(j)
    Zrms = z.zernikeArray([j], N, norm="rms")[0]
    Zr = reference(n, m, N)
    c = (Zrms * Zr).sum() / numpy.sqrt((Zrms**2).sum() * (Zr**2).sum())
    print("norm='rms', j=%d, N=%d: correlation of the returned mode with the true Zernike mode = %.4f (should be 1)" % (j, N, c))
    if abs(c) < 0.9:
        bad = True

if bad:
    print("VIOLATION: modes of radial order >~ 44 (Noll j >= ~991) are not orthonormal on any grid; "
          "Gram diagonal ~4.5 at j=1082 and ~1.1e4 at j=1276 independent of N")
    sys.exit(1)
print("no violation")
sys.exit(0)
