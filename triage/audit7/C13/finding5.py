import os, sys; sys.path.insert(0, os.environ.get('AOTOOLS_ROOT', '/tmp/wt7_C13'))
# C13 finding 5 (minor, degenerate input): output size dim = 1 crashes in setpincs (0/0 -> nan -> integer index),
# although setpincs' results are not even used by make_kl.
import io, contextlib, warnings
warnings.filterwarnings('ignore')
import numpy as np
from aotools.functions import karhunenLoeve as kl

bad = 0
for dim in [1, 2, 3]:
    try:
        with contextlib.redirect_stdout(io.StringIO()):
            k, var, pup, b = kl.make_kl(5, dim, ri=0.3, nr=10)
        print('make_kl(5, %d, ri=0.3, nr=10) -> kl %s, pupil %s' % (dim, k.shape, pup.tolist()))
    except Exception as e:
        print('make_kl(5, %d, ri=0.3, nr=10) -> RAISED %s: %s' % (dim, type(e).__name__, e))
        bad += 1
if bad:
    print('VIOLATION: dim=1 (single pixel at r=0, outside the annulus: expected kl = 0, pupil = [[0.]]) raises instead')
    sys.exit(1)
print('no violation')
sys.exit(0)
