import os, sys; sys.path.insert(0, os.environ.get('AOTOOLS_ROOT', '/tmp/wt7_C13'))
# C13 finding 2: on the native polar grid of the basis that make_kl returns (npp = int(2*pi*nr) azimuthal
# points) the -1/2 double pupil average of K_i D K_i does not equal the returned variance, because the
# kernel is always built on nth = 5*nr azimuthal points, whatever npp is.  With npp = 5*nr it is exact.
import io, contextlib, warnings
warnings.filterwarnings('ignore')
import numpy as np
from aotools.functions import karhunenLoeve as kl


def dense_cov(b):
    """-1/2 * double average over the native grid (nr x np points, equal weights) of K_i(x) D(|x-x'|) K_j(x')"""
    nr, npp, n = b['nr'], b['np'], b['nfunc']
    K = np.array([kl.gkl_sfi(b, i) for i in range(n)]).reshape(n, -1)
    th = np.arange(npp) * 2 * np.pi / npp
    x = (b['radp'][:, None] * np.cos(th)).ravel()
    y = (b['radp'][:, None] * np.sin(th)).ravel()
    sep = 0.5 * np.sqrt((x[:, None] - x[None, :])**2 + (y[:, None] - y[None, :])**2)  # in pupil diameters
    return -0.5 * K @ kl.stf_kolmogorov(sep) @ K.T / (nr * npp)**2


def dft_var(b):
    """the diagonal of the same discrete double average, through the azimuthal DFT (for grids too big for dense_cov)"""
    nr, npp, rad = b['nr'], b['np'], b['radp']
    th = np.arange(npp) * 2 * np.pi / npp
    a = rad[:, None, None]**2 + rad[None, :, None]**2 - 2 * rad[:, None, None] * rad[None, :, None] * np.cos(th)
    F = np.fft.fft(kl.stf_kolmogorov(0.5 * np.sqrt(np.maximum(a, 0))), axis=2).real
    out = []
    for i in range(b['nfunc']):
        m = (b['ord'][i] + 1) // 2
        v = b['rabas'][:, i]
        out.append(-0.5 * (v @ F[:, :, m] @ v) * (npp if m == 0 else npp / 2.) / (nr * npp)**2)
    return np.array(out)


def quiet(f, *a, **k):
    with contextlib.redirect_stdout(io.StringIO()):
        return f(*a, **k)


worst = 0.
# control: azimuthal sampling equal to that of the kernel (gkl_basis default npp = 5*nr): identity holds
b = quiet(kl.gkl_basis, 0.3, 10, None, 30)
C = dense_cov(b)
print('control gkl_basis(ri=0.3, nr=10, npp=None -> %d, nfunc=30): max |diag/var - 1| = %.2e' % (b['np'], np.abs(np.diag(C) / b['evals'] - 1).max()))
print('         cross-check of the DFT evaluation against the dense one: %.2e' % np.abs(np.diag(C) - dft_var(b)).max())

# the grid make_kl itself uses, small enough for the dense double sum
_, var, _, b = quiet(kl.make_kl, 40, 8, ri=0.3, nr=10)
C = dense_cov(b)
rel = np.abs(np.diag(C) / var - 1)
print('make_kl(40, 8, ri=0.3, nr=10): native grid %d x %d; max |diag/var - 1| = %.3e (mode %d, order index %d)' % (b['nr'], b['np'], rel.max(), rel.argmax(), b['ord'][rel.argmax()]))
worst = max(worst, rel.max())

for nmax, ri, nr in [(150, 0.2, 40), (300, 0.9, 40), (119, 0.95, 20)]:
    _, var, _, b = quiet(kl.make_kl, nmax, 8, ri=ri, nr=nr)
    rel = np.abs(dft_var(b) / var - 1)
    print('make_kl(%d, 8, ri=%g, nr=%d): native grid %d x %d; max |double average/var - 1| = %.3e (mode %d), median %.2e'
          % (nmax, ri, nr, b['nr'], b['np'], rel.max(), rel.argmax(), np.median(rel)))
    worst = max(worst, rel.max())

if worst > 1e-6:
    print('VIOLATION: returned variances differ from -1/2 <<K_i D K_i>> on the native polar grid by up to %.1f %%' % (100 * worst))
    sys.exit(1)
print('no violation')
sys.exit(0)
