import os, sys; sys.path.insert(0, os.environ.get('AOTOOLS_ROOT', '/tmp/wt7_C13'))
# C13 finding 1: for thin annuli make_kl / gkl_basis raise IndexError for mode counts that
# both of the code's own sampling checks accept (no "insufficient sampling" message is printed).
import io, contextlib, warnings
warnings.filterwarnings('ignore')
import numpy as np
from aotools.functions import karhunenLoeve as kl

cases = [  # (nmax, dim, ri, nr)
    (120, 16, 0.95, 20),
    (154, 16, 0.90, 20),
    (69, 16, 0.95, 13),
]
bad = 0
for nmax, dim, ri, nr in cases:
    npp = int(2 * np.pi * nr)
    buf = io.StringIO()
    try:
        with contextlib.redirect_stdout(buf):
            out = kl.make_kl(nmax, dim, ri=ri, nr=nr)
        status = 'returned kl of shape %s' % (out[0].shape,)
    except Exception as e:
        status = 'RAISED %s: %s' % (type(e).__name__, e)
        bad += 1
    printed = buf.getvalue()
    print('make_kl(nmax=%d, dim=%d, ri=%g, nr=%d): nr*npp=%d, 15*nmax=%d, polar points per function=%.1f'
          % (nmax, dim, ri, nr, nr * npp, 15 * nmax, nr * npp / nmax))
    print('   sampling warning printed by the code: %s' % ('yes' if ('insufficient' in printed or printed.startswith('warning')) else 'no'))
    print('   ->', status)
# control: the same mode count on a fat annulus works
with contextlib.redirect_stdout(io.StringIO()):
    out = kl.make_kl(120, 16, ri=0.3, nr=20)
print('control make_kl(120, 16, ri=0.3, nr=20) ->', out[0].shape, 'min variance', out[1].min())
if bad:
    print('VIOLATION: %d of %d thin-annulus configurations accepted by the sampling checks crash with IndexError' % (bad, len(cases)))
    sys.exit(1)
print('no violation')
sys.exit(0)
