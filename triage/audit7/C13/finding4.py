import os, sys; sys.path.insert(0, os.environ.get('AOTOOLS_ROOT', '/tmp/wt7_C13'))
# C13 finding 4 (minor, extreme input): for obscuration ratios within about 1e-7 of 1 the kernel contains NaN
# (square root of a negatively rounded squared separation) and the basis generation crashes.
import io, contextlib, warnings
warnings.filterwarnings('ignore')
import numpy as np
from aotools.functions import karhunenLoeve as kl

bad = 0
for ri in [1 - 1e-6, 1 - 1e-7, 1 - 1e-8]:
    for nr in [12, 40]:
        rad = kl.gkl_radii(ri, nr)
        ker = kl.gkl_kernel(ri, nr, rad)
        nnan = int(np.isnan(ker).sum())
        try:
            with contextlib.redirect_stdout(io.StringIO()):
                k, var, pup, b = kl.make_kl(10, 16, ri=ri, nr=nr)
            status = 'ok, min variance %.3g' % var.min()
        except Exception as e:
            status = 'RAISED %s: %s' % (type(e).__name__, e)
            bad += 1
        print('ri = 1 - %.0e, nr = %d: NaN entries in gkl_kernel: %d of %d; make_kl(10, 16, ri, nr) -> %s' % (1 - ri, nr, nnan, ker.size, status))
if bad:
    print('VIOLATION: %d configurations with 0 < ri < 1 give NaN kernels and no basis' % bad)
    sys.exit(1)
print('no violation')
sys.exit(0)
