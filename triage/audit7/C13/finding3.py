import os, sys; sys.path.insert(0, os.environ.get('AOTOOLS_ROOT', '/tmp/wt7_C13'))
# C13 finding 3: the Cartesian rendering has an azimuthal seam.  Pixels whose angle lies in the last polar
# cell, 2*pi*(npp-1)/npp < theta < 2*pi (the strip just below the +x axis), are not interpolated towards
# theta = 2*pi == 0 but hold the value of the last azimuthal sample, because cp is clipped at npp - 1.001
# and map_coordinates is used without periodic wrap.  The error there is ~10x the resampling error anywhere else
# and breaks the mirror symmetry y -> -y of every cos(m*theta) mode.
import io, contextlib, warnings
warnings.filterwarnings('ignore')
import numpy as np
from aotools.functions import karhunenLoeve as kl


def analyse(nmax, dim, ri, nr):
    with contextlib.redirect_stdout(io.StringIO()):
        k, var, pup, b = kl.make_kl(nmax, dim, ri=ri, nr=nr)
    npp = b['np']
    d = (1 - ri**2) / nr
    c = (np.arange(dim) - (dim - 1) / 2) / (0.5 * dim)
    X, Y = np.meshgrid(c, c)                      # x along columns, y along rows (the convention of pcgeom)
    R2 = X**2 + Y**2
    TH = np.arctan2(Y, X) % (2 * np.pi)
    ind = (R2 >= ri**2) & (R2 <= 1)
    assert np.array_equal(pup, ind.astype(float))
    idx = (R2 - ri**2) / d                        # radial index convention of the renderer
    seam = ind & (TH > 2 * np.pi * (npp - 1) / npp)
    rest = ind & ~seam & (idx <= nr - 1)          # leave out the outermost radial cell (documented clamping)
    ii = np.clip(np.floor(idx).astype(int), 0, nr - 2)
    f = np.clip(idx - ii, 0, 1)
    e_seam, e_rest, amp, asym = [], [], [], []
    for i in range(nmax):
        o = b['ord'][i]
        m = (o + 1) // 2
        rb = b['rabas'][:, i]
        az = np.ones_like(TH) if o == 0 else (np.cos(m * TH) if o % 2 == 1 else np.sin(m * TH))
        ref = (rb[ii] * (1 - f) + rb[ii + 1] * f) * az     # polar function at the pixel's (r, theta): exact azimuth, linear in the radial index
        e = np.abs(k[i] - ref)
        e_seam.append(e[seam].max())
        e_rest.append(e[rest].max())
        amp.append(np.abs(k[i]).max())
        # mirror symmetry y -> -y: cos modes and order 0 are even, sin modes are odd
        sgn = -1. if (o != 0 and o % 2 == 0) else 1.
        asym.append(np.abs(k[i] - sgn * k[i][::-1, :]).max())
    e_seam, e_rest, amp, asym = map(np.array, (e_seam, e_rest, amp, asym))
    j = e_seam.argmax()
    print('make_kl(%d, %d, ri=%g, nr=%d): npp=%d, %d pupil pixels, %d of them in the last azimuthal cell' % (nmax, dim, ri, nr, npp, ind.sum(), seam.sum()))
    print('   max |kl - polar function at (r,theta)| in that cell : %.3f  (mode %d, azimuthal order %d, mode amplitude %.2f -> %.0f %% of amplitude)'
          % (e_seam[j], j, (b['ord'][j] + 1) // 2, amp[j], 100 * e_seam[j] / amp[j]))
    print('   max of the same error over all other pupil pixels  : %.3f' % e_rest.max())
    print('   max mirror asymmetry |kl(x,y) -/+ kl(x,-y)|           : %.3f (mode %d)' % (asym.max(), asym.argmax()))
    return e_seam.max(), e_rest.max()


bad = False
for a in [(150, 128, 0.2, 40), (60, 64, 0.3, 20), (10, 256, 0.3, 10)]:
    s, r = analyse(*a)
    if s > 4 * r and s > 0.2:
        bad = True
if bad:
    print('VIOLATION: in the last azimuthal cell the rendering departs from the polar function by several times the resampling error found anywhere else')
    sys.exit(1)
print('no violation')
sys.exit(0)
