import os, sys; sys.path.insert(0, os.environ.get('AOTOOLS_ROOT', '/tmp/wt7_C09'))
# C09 finding 1: ft2 / ift2 evaluate delta**2 and (N*delta_f)**2 in the dtype of the
# *scalar argument* before it touches the array.  For a grid spacing held in a NumPy
# integer scalar (np.int8 / np.uint8 / np.int16 / np.int32 ...) the square wraps around
# silently and the 2-D pair is no longer an inverse pair / Parseval fails, although the
# 1-D pair (which multiplies the array by delta directly) is exact for the same spacing.
# For a np.float32 spacing the square is rounded to float32 (1e-7 error instead of 1e-16).
import warnings
import numpy
import aotools
from aotools import fouriertransform as F

rng = numpy.random.default_rng(0)
bad = False
TOL = 1e-9

def report(tag, val):
    global bad
    flag = val > TOL
    bad = bad or flag
    print("   %-58s %.3e %s" % (tag, val, "<-- VIOLATION" if flag else "ok"))

cases = [
    ("delta = numpy.int16(200)", numpy.int16(200), 5, ()),
    ("delta = numpy.uint8(20)", numpy.uint8(20), 4, (3,)),
    ("delta = numpy.int8(16)", numpy.int8(16), 7, ()),
    ("delta = numpy.int32(50000)", numpy.int32(50000), 6, (2,)),
    ("delta = numpy.float32(0.1)", numpy.float32(0.1), 8, ()),
    ("delta = 200 (python int, control)", 200, 5, ()),
    ("delta = numpy.int64(200) (control)", numpy.int64(200), 5, ()),
]
for name, delta, N, batch in cases:
    for mod, modname in ((aotools, "aotools"), (F, "aotools.fouriertransform")):
        x = rng.normal(size=batch + (N, N)) + 1j * rng.normal(size=batch + (N, N))
        d = float(delta)                 # the same spacing, exactly
        delta_f = 1.0 / (N * d)          # frequency spacing 1/(N*delta)
        with warnings.catch_warnings(record=True) as w:
            warnings.simplefilter("always")
            X = mod.ft2(x, delta)
            xb = mod.ift2(X, delta_f)
        print("%s  N=%d batch=%s  [%s]  warnings=%d" % (name, N, batch, modname, len(w)))
        print("   delta**2 as evaluated by ft2 = %r   true delta^2 = %r" % (delta ** 2, d * d))
        report("inverse pair  max|ift2(ft2(x,delta),1/(N delta)) - x|", float(numpy.max(numpy.abs(xb - x))))
        lhs = float(numpy.sum(numpy.abs(x) ** 2) * d * d)
        rhs = float(numpy.sum(numpy.abs(X) ** 2) * delta_f ** 2)
        report("Parseval rel. |sum|x|^2 d^2 - sum|X|^2 df^2|", abs(lhs - rhs) / lhs)
        # the 1-D pair with the very same spacing is exact
        x1 = x[..., 0, :]
        err1 = float(numpy.max(numpy.abs(mod.ift(mod.ft(x1, delta), delta_f) - x1)))
        print("   (1-D pair, same spacing: max|ift(ft(x))-x| = %.3e)" % err1)

# the same mechanism on the inverse side: (N*delta_f)**2 is evaluated in the scalar's dtype
N = 16
d = 1.0 / 160.0                          # delta_f = 1/(N*d) = 10 exactly
x = rng.normal(size=(N, N))
X = aotools.ft2(x, d)
with warnings.catch_warnings(record=True) as w:
    warnings.simplefilter("always")
    xb = aotools.ift2(X, numpy.int8(10))
print("ift2 with delta_f = numpy.int8(10), N=16 (N*delta_f = 160 wraps in int8); warnings: %s"
      % [str(i.message) for i in w])
report("inverse pair  max|ift2(ft2(x,1/160), int8(10)) - x|", float(numpy.max(numpy.abs(xb - x))))
print("   (control delta_f = 10 python int: %.3e)" % float(numpy.max(numpy.abs(aotools.ift2(X, 10) - x))))

if bad:
    print("VIOLATION: 2-D scaled transforms are not an inverse pair / break Parseval for NumPy-scalar spacings")
    sys.exit(1)
print("no violation")
sys.exit(0)
