import os, sys; sys.path.insert(0, os.environ.get('AOTOOLS_ROOT', '/tmp/wt7_C09'))
# C09 finding 2: the FORWARD real-input transforms rft / rft2 alone (no inverse involved)
# do not satisfy Parseval on their half-spectra.  On a half-spectrum (numpy.fft.rfft layout:
# bin 0 = zero frequency, last bin = Nyquist when N is even) Parseval reads
#     sum |x|^2 * delta  =  sum_k w_k |X_k|^2 * delta_f ,  w = 1 for the self-conjugate bins
#                                                          (DC, Nyquist), 2 for all others.
# rft/rft2 apply numpy.fft.fftshift to the HALF-length axis, which rolls the zero-frequency
# bin to index (N//2+1)//2 and leaves a non-monotonic frequency axis, so the identity fails
# for every N >= 3.  Undoing that roll (ifftshift on the half axis) restores it exactly.
import numpy
import aotools
from aotools import fouriertransform as F

rng = numpy.random.default_rng(0)
TOL = 1e-9
bad = False

def weights(N):
    M = N // 2 + 1
    w = numpy.full(M, 2.0)
    w[0] = 1.0
    if N % 2 == 0:
        w[-1] = 1.0
    return w

print("1-D  rft   (columns: N, batch, delta, sum|x|^2*delta, half-spectrum Parseval sum, rel.err, "
      "rel.err after undoing the half-axis fftshift, index of the DC bin)")
for mod, modname in ((aotools, "aotools"), (F, "aotools.fouriertransform")):
    for N in (1, 2, 3, 4, 5, 8, 9, 16, 17):
        for batch in ((), (3,)):
            delta = 0.25
            delta_f = 1.0 / (N * delta)
            x = rng.normal(size=batch + (N,))
            X = mod.rft(x, delta)
            assert X.shape == batch + (N // 2 + 1,)
            w = weights(N)
            lhs = float(numpy.sum(x ** 2) * delta)
            rhs = float(numpy.sum(w * numpy.abs(X) ** 2) * delta_f)
            rhs_fixed = float(numpy.sum(w * numpy.abs(numpy.fft.ifftshift(X, axes=-1)) ** 2) * delta_f)
            dc = int(numpy.argmin(numpy.abs(X.reshape(-1, X.shape[-1])[0]
                                            - numpy.sum(x.reshape(-1, N)[0]) * delta)))
            rel = abs(lhs - rhs) / lhs
            flag = rel > TOL
            bad = bad or flag
            print("  [%s] N=%2d batch=%-4s delta=%.2f  %.6f  %.6f  rel=%.2e  unrolled rel=%.1e  DC bin at %d %s"
                  % (modname, N, batch, delta, lhs, rhs, rel, abs(lhs - rhs_fixed) / lhs, dc,
                     "<-- VIOLATION" if flag else ""))

print("2-D  rft2")
for N in (3, 4, 5, 8, 9):
    for batch in ((), (2,)):
        delta = 0.5
        delta_f = 1.0 / (N * delta)
        x = rng.normal(size=batch + (N, N))
        X = aotools.rft2(x, delta)
        assert X.shape == batch + (N, N // 2 + 1)
        w = weights(N)
        lhs = float(numpy.sum(x ** 2) * delta ** 2)
        rhs = float(numpy.sum(w * numpy.abs(X) ** 2) * delta_f ** 2)
        rhs_fixed = float(numpy.sum(w * numpy.abs(numpy.fft.ifftshift(X, axes=-1)) ** 2) * delta_f ** 2)
        rel = abs(lhs - rhs) / lhs
        flag = rel > TOL
        bad = bad or flag
        print("  N=%2d batch=%-4s delta=%.2f  %.6f  %.6f  rel=%.2e  unrolled rel=%.1e %s"
              % (N, batch, delta, lhs, rhs, rel, abs(lhs - rhs_fixed) / lhs, "<-- VIOLATION" if flag else ""))

# deterministic illustration: a constant signal has all its energy in the zero-frequency bin
N, delta = 8, 1.0
X = aotools.rft(numpy.ones(N), delta)
print("rft(ones(8), 1.0) =", numpy.round(X.real, 12), " (zero-frequency bin should be first; it is at index",
      int(numpy.argmax(numpy.abs(X))), ")")
print("  sum|x|^2*delta = %.1f ; half-spectrum Parseval sum = %.1f"
      % (N * delta, float(numpy.sum(weights(N) * numpy.abs(X) ** 2) / (N * delta))))

if bad:
    print("VIOLATION: rft / rft2 break Parseval on their half-spectra (half axis is fftshift-ed)")
    sys.exit(1)
print("no violation")
sys.exit(0)
