import os, sys; sys.path.insert(0, os.environ.get('AOTOOLS_ROOT', '/tmp/wt7_C04'))
# C04 finding 1: the covariance used to build A and B is NOT the theoretical von Karman
# covariance at the true separations: turb.phase_covariance casts r to float32 and the whole
# Bessel term comes back rounded to float32 (relative error ~6e-8 of C(0) ~ (L0/r0)^(5/3)).
# The identities  A Cov_zz = Cov_xz  and  A Cov_zz A^T + B B^T = Cov_xx  are then violated
# against the theoretical covariance by amounts comparable to the innovation variance itself
# whenever  C(0)*6e-8  is not tiny compared with  C(0)-C(pixel_scale).
import copy
import numpy as np
from scipy.special import gamma, kv
from aotools.turbulence import infinitephasescreen as ips, turb


def cov_theory(r, r0, L0):
    """Assemat & Wilson 2006 eq. 5 in float64, exact limit at r = 0."""
    r = np.asarray(r, dtype=np.float64)
    amp = (L0 / r0) ** (5. / 3) * (2 ** (-5. / 6)) * gamma(11. / 6) / (np.pi ** (8. / 3)) \
        * ((24. / 5) * gamma(6. / 5)) ** (5. / 6)
    x = 2 * np.pi * r / L0
    with np.errstate(all='ignore'):
        c = x ** (5. / 6) * kv(5. / 6, x)
    c = np.where(r == 0, 2 ** (-1. / 6) * gamma(5. / 6), c)
    return amp * c


def blocks(s):
    pos = np.append(s.stencil_positions, s.X_positions, axis=0).astype(np.float64)
    d = np.sqrt(((pos[:, None, :] - pos[None, :, :]) ** 2).sum(-1))
    C = cov_theory(d, s.r0, s.L0)
    n = s.n_stencils
    return C, C[:n, :n], C[n:, n:], C[:n, n:], C[n:, :n]


bad = False

# root cause, in isolation
r = np.array([0.0, 0.005, 0.01])
got = turb.phase_covariance(r, 0.15, 100.)
ref = cov_theory(r, 0.15, 100.)
print("phase_covariance(r=[0,0.005,0.01], r0=0.15, L0=100):", got)
print("float64 evaluation of the same formula            :", ref)
print("difference:", got - ref, " relative to C(0):", (got - ref) / ref[0], "(float32 eps = 6e-8)")
print("C(0)-C(0.005): library %.6f   theory %.6f" % (got[0] - got[1], ref[0] - ref[1]))
print()

cases = [
    (ips.PhaseScreenVonKarman, dict(nx_size=5, pixel_scale=0.005, r0=0.15, L0=100., n_columns=2)),
    (ips.PhaseScreenVonKarman, dict(nx_size=8, pixel_scale=0.005, r0=0.1, L0=100., n_columns=2)),
    (ips.PhaseScreenKolmogorov, dict(nx_size=5, pixel_scale=0.005, r0=0.15, L0=100., stencil_length_factor=4)),
    (ips.PhaseScreenKolmogorov, dict(nx_size=16, pixel_scale=0.005, r0=0.15, L0=100., stencil_length_factor=4)),
    (ips.PhaseScreenVonKarman, dict(nx_size=64, pixel_scale=0.0625, r0=0.2, L0=50., n_columns=2)),
]
for cls, kw in cases:
    gen = np.random.default_rng(12345)
    s = cls(random_seed=gen, **kw)
    C, zz, xx, zx, xz = blocks(s)
    A, B = s.A_mat, s.B_mat
    r1 = np.abs(A @ zz - xz).max()
    r2 = np.abs(A @ zz @ A.T + B @ B.T - xx).max()
    sol = np.linalg.solve(zz, zx)                      # float64 control, well-conditioned solve
    A64 = sol.T
    condvar = np.diag(xx - xz @ sol)                   # exact conditional (innovation) variance
    c1 = np.abs(A64 @ zz - xz).max()
    bb = np.diag(B @ B.T)
    BBt = s.cov_mat_xx - A @ s.cov_mat_zx
    mineig = np.linalg.eigvalsh((BBt + BBt.T) / 2).min()
    relvar = np.abs(bb / condvar - 1).max()
    # observe through .scrn: new row = A Z + B b, b replayed from a copy of the injected Generator
    Z = s._scrn[(s.stencil_coords[:, 0], s.stencil_coords[:, 1])].copy()
    ref_val = s._scrn[s.reference_coord] if hasattr(s, 'reference_coord') else 0.0
    g2 = copy.deepcopy(gen)
    b = g2.normal(0, 1, size=s.nx_size)
    row = s.add_row()[0].copy()
    full_row = s._scrn[0]
    det_code = full_row - B @ b                        # deterministic part produced by the library
    det_exact = A64 @ (Z - ref_val) + ref_val          # exact conditional mean with the same convention
    z = np.abs(det_code - det_exact) / np.sqrt(condvar)
    print(cls.__name__, kw)
    print("   max|cov_mat - theory| = %.3e  (C(0) = %.3e, ratio %.2e)" % (np.abs(s.cov_mat - C).max(), C[0, 0], np.abs(s.cov_mat - C).max() / C[0, 0]))
    print("   max|A Czz - Cxz|            = %.3e   (float64 solve on the same stencil: %.1e)" % (r1, c1))
    print("   max|A Czz A^T + B B^T - Cxx| = %.3e" % r2)
    print("   exact innovation variance  %.4e .. %.4e ; diag(B B^T) %.4e .. %.4e ; max relative error %.3f" % (condvar.min(), condvar.max(), bb.min(), bb.max(), relvar))
    print("   max|A - A_exact| = %.3e (max|A_exact| = %.3f);  min eig of library's BBt = %.3e" % (np.abs(A - A64).max(), np.abs(A64).max(), mineig))
    print("   new row via .scrn: deterministic part differs from the exact conditional mean by up to %.3f exact innovation sigmas" % z.max())
    if r2 / condvar.min() > 1e-3 or r1 / condvar.min() > 1e-3:
        bad = True
        print("   -> identity residual / innovation variance = %.3e, %.3e  (>> 1e-10)" % (r1 / condvar.min(), r2 / condvar.min()))
    print()

if bad:
    print("VIOLATION: A and B do not satisfy A*Cov(Z,Z)=Cov(X,Z), A*Cov(Z,Z)*A^T+B*B^T=Cov(X,X) for the theoretical von Karman covariance")
    sys.exit(1)
print("no violation")
sys.exit(0)
