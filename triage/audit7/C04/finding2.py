import os, sys; sys.path.insert(0, os.environ.get('AOTOOLS_ROOT', '/tmp/wt7_C04'))
# C04 finding 2: makeBMatrix takes B = U sqrt(W) from numpy.linalg.svd(BBt).  When
# BBt = Cov_xx - A Cov_zx has a negative eigenvalue (the float32-rounded joint covariance is
# indefinite although Cov_zz alone still passes the Cholesky test, so construction SUCCEEDS),
# the SVD silently returns |eigenvalue|, so B B^T = |BBt| != BBt and
# A Cov_zz A^T + B B^T = Cov_xx fails even for the library's OWN covariance matrix, and grossly
# for the theoretical one: the innovation variance is up to ~10x the exact conditional variance
# and A has entries ~20 where the exact A has entries <= 1.2.
import warnings
import numpy as np
from scipy.special import gamma, kv
from aotools.turbulence import infinitephasescreen as ips


def cov_theory(r, r0, L0):
    r = np.asarray(r, dtype=np.float64)
    amp = (L0 / r0) ** (5. / 3) * (2 ** (-5. / 6)) * gamma(11. / 6) / (np.pi ** (8. / 3)) \
        * ((24. / 5) * gamma(6. / 5)) ** (5. / 6)
    x = 2 * np.pi * r / L0
    with np.errstate(all='ignore'):
        c = x ** (5. / 6) * kv(5. / 6, x)
    c = np.where(r == 0, 2 ** (-1. / 6) * gamma(5. / 6), c)
    return amp * c


warnings.simplefilter('ignore', RuntimeWarning)
bad = False
cases = [
    (ips.PhaseScreenKolmogorov, dict(nx_size=9, pixel_scale=0.005, r0=0.15, L0=200., stencil_length_factor=4)),
    (ips.PhaseScreenVonKarman, dict(nx_size=5, pixel_scale=0.005, r0=0.15, L0=200., n_columns=2)),
    (ips.PhaseScreenKolmogorov, dict(nx_size=16, pixel_scale=0.003, r0=0.15, L0=50., stencil_length_factor=4)),
    (ips.PhaseScreenVonKarman, dict(nx_size=33, pixel_scale=0.005, r0=0.1, L0=100., n_columns=2)),
]
for cls, kw in cases:
    gen = np.random.default_rng(2024)
    s = cls(random_seed=gen, **kw)          # construction succeeds
    n = s.n_stencils
    A, B = s.A_mat, s.B_mat
    # (a) against the library's own covariance blocks
    own1 = np.abs(A @ s.cov_mat_zz - s.cov_mat_xz).max()
    own2 = np.abs(A @ s.cov_mat_zz @ A.T + B @ B.T - s.cov_mat_xx).max()
    BBt = s.cov_mat_xx - A @ s.cov_mat_zx
    w, v = np.linalg.eigh((BBt + BBt.T) / 2)
    absBBt = (v * np.abs(w)) @ v.T
    # (b) against the theoretical covariance
    pos = np.append(s.stencil_positions, s.X_positions, axis=0).astype(np.float64)
    d = np.sqrt(((pos[:, None, :] - pos[None, :, :]) ** 2).sum(-1))
    C = cov_theory(d, s.r0, s.L0)
    zz, xx, zx, xz = C[:n, :n], C[n:, n:], C[:n, n:], C[n:, :n]
    sol = np.linalg.solve(zz, zx)
    condvar = np.diag(xx - xz @ sol)
    t1 = np.abs(A @ zz - xz).max()
    t2 = np.abs(A @ zz @ A.T + B @ B.T - xx).max()
    bb = np.diag(B @ B.T)
    # (c) consequence seen through .scrn: amplitude of the extruded rows (theory: stationary, rms <= sqrt(C(0)))
    marks = {}
    with np.errstate(all='ignore'):
        for k in range(1, 301):
            scr = s.add_row()
            if k in (10, 50, 100, 300):
                marks[k] = np.abs(scr[0]).max()
    print(cls.__name__, kw)
    print("   eigenvalues of BBt = Cxx - A Czx (library's own): min %.3e  max %.3e  -> %d negative" % (w.min(), w.max(), (w < 0).sum()))
    print("   max|B B^T - BBt| = %.3e   max|B B^T - |BBt|| = %.3e" % (np.abs(B @ B.T - BBt).max(), np.abs(B @ B.T - absBBt).max()))
    print("   own covariance   : max|A Czz - Cxz| = %.3e   max|A Czz A^T + B B^T - Cxx| = %.3e" % (own1, own2))
    print("   theory covariance: max|A Czz - Cxz| = %.3e   max|A Czz A^T + B B^T - Cxx| = %.3e" % (t1, t2))
    print("   exact innovation variance %.4e .. %.4e ; diag(B B^T) %.4e .. %.4e  (ratio up to %.2f)" % (condvar.min(), condvar.max(), bb.min(), bb.max(), (bb / condvar).max()))
    print("   max|A| = %.3f  (exact A: %.3f)" % (np.abs(A).max(), np.abs(sol).max()))
    print("   max|new row| seen through .scrn after k add_row() calls: " + ", ".join("k=%d: %.3e" % kv_ for kv_ in marks.items()) + "   (sqrt(C(0)) = %.1f rad)" % np.sqrt(C[0, 0]))
    if w.min() < 0 and own2 / condvar.min() > 1e-3:
        bad = True
        print("   -> own-covariance residual of the second identity / exact innovation variance = %.3e" % (own2 / condvar.min()))
    print()

if bad:
    print("VIOLATION: A*Cov(Z,Z)*A^T + B*B^T != Cov(X,X) (B B^T = |BBt| because BBt is indefinite and the SVD discards the sign)")
    sys.exit(1)
print("no violation")
sys.exit(0)
