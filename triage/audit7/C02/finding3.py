import os, sys; sys.path.insert(0, os.environ.get('AOTOOLS_ROOT', '/tmp/wt7_C02'))
# C02 finding 3: a turbulence layer at the altitude of a laser guide star makes the covariance builder divide by zero (NaN matrix, SVD failure / ZeroDivisionError).
import numpy as np
import aotools
from aotools.turbulence.slopecovariance import CovarianceMatrix

n_wfs, nx = 3, 4
results = {}
for lgs_alt in (10000., 10001.):
    cm = CovarianceMatrix(n_wfs, [aotools.circle(nx / 2., nx)] * n_wfs, 4., [1.] * n_wfs, [lgs_alt] * n_wfs,
                          [[0, 0], [10, 0], [-10, 5]], [500e-9] * n_wfs, 3, np.linspace(0, 20000, 3),
                          [0.2, 0.4, 0.5], [25.] * 3, 1)
    try:
        cm.make_covariance_matrix()
        R = cm.make_tomographic_reconstructor()
        results[lgs_alt] = "reconstructor of shape %s, max|R| = %.4f, finite: %s" % (
            R.shape, np.abs(R).max(), bool(np.isfinite(R).all()))
    except Exception as e:
        results[lgs_alt] = "RAISED %s: %s" % (type(e).__name__, e)
    print("layers at 0, 10000, 20000 m; guide stars at %.0f m -> %s" % (lgs_alt, results[lgs_alt]))

if any(v.startswith("RAISED") for v in results.values()):
    print("VIOLATION: no reconstructor is returned when a layer altitude equals the guide star altitude")
    sys.exit(1)
print("no violation")
sys.exit(0)
