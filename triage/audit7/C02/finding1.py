import os, sys; sys.path.insert(0, os.environ.get('AOTOOLS_ROOT', '/tmp/wt7_C02'))
# C02 finding 1: with the default (zero) conditioning, a rank-deficient PSD C_off,off gives a reconstructor
# that does not satisfy the normal equations and is beaten by other linear maps.
import numpy as np
import aotools
from aotools.turbulence.slopecovariance import (CovarianceMatrix,
                                                create_tomographic_covariance_reconstructor)

bad = []


def evaluate(label, C, n_on, R, R_other, other_name):
    C = np.asarray(C, dtype=np.float64)
    R = np.asarray(R, dtype=np.float64)
    n = 2 * n_on
    onon, on, off = C[:n, :n], C[:n, n:], C[n:, n:]

    def var(M):  # E|s_on - M s_off|^2 for slopes with covariance C
        return np.trace(onon - M @ on.T - on @ M.T + M @ off @ M.T)

    eig = np.linalg.eigvalsh(C)
    err = np.abs(R @ off - on).max() / np.abs(on).max()
    v_r, v_o, v_on = var(R), var(R_other), np.trace(onon)
    print("%s" % label)
    print("   eigenvalues of C: min %.3e max %.3e (PSD to rounding), rank(C_off,off) = %d of %d"
          % (eig[0], eig[-1], np.linalg.matrix_rank(off), off.shape[0]))
    print("   max|R| = %.4g" % np.abs(R).max())
    print("   max|R C_off,off - C_on,off| / max|C_on,off| = %.4g" % err)
    print("   E|s_on - R s_off|^2 / E|s_on|^2             = %.6g" % (v_r / v_on))
    print("   same for the competing map (%s) = %.6g" % (other_name, v_o / v_on))
    if err > 1e-3 and v_r > v_o + 1e-3 * v_on:
        print("   -> VIOLATION: normal equations off by %.3g (relative); another linear map has a smaller residual"
              % err)
        bad.append(label)


# (a) direct call, float64, PSD of rank 5 (14 x 14), 2 on-axis sub-apertures, default conditioning
rng = np.random.default_rng(0)
A = rng.standard_normal((14, 5))
C = A @ A.T
R = create_tomographic_covariance_reconstructor(C, 2)
R_other = C[:4, 4:] @ np.linalg.pinv(C[4:, 4:], rcond=1e-10)
evaluate("(a) float64 PSD matrix of rank 5, n_onaxis_subaps=2, svd_conditioning default (0)", C, 2, R, R_other,
         "C_on,off pinv(C_off,off, 1e-10)")

# (b) direct call: on-axis sensor and two off-axis sensors all identical (1 sub-aperture each), exact integers
B = np.array([[1, 0], [0, 1], [1, 0], [0, 1], [1, 0], [0, 1]], dtype=float)
C = B @ B.T
R = create_tomographic_covariance_reconstructor(C, 1, 0)
print("R =\n", R)
evaluate("(b) on-axis sensor = off-axis sensor 1 = off-axis sensor 2, svd_conditioning=0", C, 1, R,
         np.hstack([np.eye(2), np.zeros((2, 2))]), "[I, 0]: copy sensor 1")


def build(gs_positions, layer_altitudes, layer_r0s):
    n_wfs, nx = 3, 4
    cm = CovarianceMatrix(n_wfs, [aotools.circle(nx / 2., nx)] * n_wfs, 4., [1.] * n_wfs, [0] * n_wfs, gs_positions,
                          [500e-9] * n_wfs, len(layer_altitudes), layer_altitudes, layer_r0s,
                          [25.] * len(layer_altitudes), 1)
    C = cm.make_covariance_matrix()
    return cm, C


# (c) end to end: ground-layer-only atmosphere, three natural guide stars, default conditioning
cm, C = build([[0, 0], [10, 0], [-10, 0]], [0.], [0.15])
R = cm.make_tomographic_reconstructor()
m = 2 * cm.n_subaps[0]
evaluate("(c) builder: one layer at 0 m, 3 NGS sensors, make_tomographic_reconstructor()", C, cm.n_subaps[0], R,
         np.hstack([np.eye(m), np.eye(m)]) / 2., "[I/2, I/2]: mean of the off-axis sensors")

# (d) end to end: three layers, the two off-axis sensors look at the same guide star
cm, C = build([[0, 0], [10, 0], [10, 0]], [0., 5000., 10000.], [0.2, 0.4, 0.5])
R = cm.make_tomographic_reconstructor()
C64 = C.astype(np.float64)
R_other = C64[:m, m:] @ np.linalg.pinv(C64[m:, m:], rcond=1e-6)
evaluate("(d) builder: 3 layers, off-axis sensors 1 and 2 on the same guide star, make_tomographic_reconstructor()",
         C, cm.n_subaps[0], R, R_other, "C_on,off pinv(C_off,off, 1e-6)")

if bad:
    print("VIOLATION in %d case(s):" % len(bad))
    for b in bad:
        print("   ", b)
    sys.exit(1)
print("no violation")
sys.exit(0)
