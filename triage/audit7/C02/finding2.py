import os, sys; sys.path.insert(0, os.environ.get('AOTOOLS_ROOT', '/tmp/wt7_C02'))
# C02 finding 2: integer-typed sub-aperture diameters make the covariance builder raise, so no reconstructor is returned.
import numpy as np
import aotools
from aotools.turbulence.slopecovariance import CovarianceMatrix

n_wfs, nx = 3, 4
results = {}
for name, diam in (("list of int [1, 1, 1]", [1, 1, 1]),
                   ("int64 array", np.array([1, 1, 1])),
                   ("list of float [1., 1., 1.]", [1., 1., 1.])):
    cm = CovarianceMatrix(n_wfs, [aotools.circle(nx / 2., nx)] * n_wfs, 4, diam, [0] * n_wfs,
                          [[0, 0], [10, 0], [-10, 5]], [500e-9] * n_wfs, 2, [0., 5000.], [0.2, 0.4], [25., 25.], 1)
    try:
        cm.make_covariance_matrix()
        R = cm.make_tomographic_reconstructor()
        results[name] = "reconstructor of shape %s, max|R| = %.4f" % (R.shape, np.abs(R).max())
    except Exception as e:
        results[name] = "RAISED %s: %s" % (type(e).__name__, e)
    print("subap_diameters = %-28s -> %s" % (name, results[name]))

if any(v.startswith("RAISED") for v in results.values()):
    print("VIOLATION: the same 4 m telescope with 1 m sub-apertures gives a reconstructor when the diameters are "
          "floats and an exception when they are integers")
    sys.exit(1)
print("no violation")
sys.exit(0)
