import os, sys; sys.path.insert(0, os.environ.get('AOTOOLS_ROOT', '/tmp/wt7_C05'))
# C05 finding 1: PhaseScreenVonKarman (default n_columns=2) builds without error for
# nx_size=64, pixel_scale=0.007, r0=0.16, L0=100, but the row recursion it builds is UNSTABLE
# (spectral radius of the row-transition matrix ~6.3).  Repeated add_row() makes the exposed
# screen grow exponentially and become non-finite after a few hundred steps.
import warnings
import numpy as np
warnings.simplefilter('ignore')
from aotools.turbulence import infinitephasescreen as ips

CONFIGS = [
    # (nx_size, pixel_scale, r0, L0, n_columns)
    (64, 0.007, 0.16, 100, 2),
    (32, 0.005, 0.16, 100, 2),
    (64, 0.003, 0.16, 25, 2),
]
MAX_STEPS = 2500


def transition_matrix(s):
    """Companion matrix of the recursion: state = the n_columns newest rows (newest first)."""
    n, k = s.nx_size, s.n_columns
    F = np.zeros((k * n, k * n))
    F[:n, :] = s.A_mat                      # new row = A . (rows 0..k-1)
    F[n:, :-n] = np.eye((k - 1) * n)        # older rows shift down by one
    return F


violation = False
for cfg in CONFIGS:
    n, ps, r0, L0, k = cfg
    s = ips.PhaseScreenVonKarman(n, ps, r0, L0, random_seed=1, n_columns=k)
    rho = float(np.max(np.abs(np.linalg.eigvals(transition_matrix(s)))))
    print("PhaseScreenVonKarman(nx_size=%d, pixel_scale=%g, r0=%g, L0=%g, n_columns=%d, random_seed=1)" % cfg)
    print("   construction OK; spectral radius of the row recursion = %.6f (stable needs < 1)" % rho)
    first_bad = None
    trace = []
    for i in range(1, MAX_STEPS + 1):
        prev = s.scrn.copy()
        out = s.add_row()
        assert out.shape == (n, n)
        if i in (1, 10, 50, 100, 200):
            trace.append((i, float(np.max(np.abs(out)))))
        if not np.isfinite(out).all():
            first_bad = i
            break
    print("   max|scrn| after (steps, value):", trace)
    if first_bad is not None:
        print("   first non-finite value in .scrn after %d add_row() calls" % first_bad)
    else:
        print("   .scrn still finite after %d add_row() calls, max|scrn| = %.3e" % (MAX_STEPS, np.max(np.abs(s.scrn))))
    if rho > 1.0 + 1e-9 or first_bad is not None:
        violation = True

if violation:
    print("VIOLATION: von Karman row recursion is unstable (spectral radius > 1); exposed screen diverges to inf/nan")
    sys.exit(1)
print("no violation")
sys.exit(0)
