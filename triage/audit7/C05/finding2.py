import os, sys; sys.path.insert(0, os.environ.get('AOTOOLS_ROOT', '/tmp/wt7_C05'))
# C05 finding 2: PhaseScreenKolmogorov (default stencil_length_factor=4) builds without error for
# nx_size=16 (internal 17), pixel_scale=0.05, r0=0.16, L0=1000, but repeated add_row() makes the
# exposed screen grow exponentially (x ~2.9 per row) until it contains inf/nan.
import warnings
import numpy as np
warnings.simplefilter('ignore')
from aotools.turbulence import infinitephasescreen as ips

CONFIGS = [
    # (requested nx_size, pixel_scale, r0, L0, stencil_length_factor)
    (16, 0.05, 0.16, 1000, 4),
    (17, 0.05, 0.16, 1000, 1),
    (9, 0.003, 0.16, 100, 4),
]
MAX_STEPS = 2500


def transition_matrix(s):
    """Full linear map (noise-free part) of one add_row on the working array, flattened row-major."""
    L, n = s.stencil_length, s.nx_size
    idx = lambda r, c: r * n + c
    F = np.zeros((L * n, L * n))
    ref = idx(*s.reference_coord)
    for i in range(n):
        for j, (r, c) in enumerate(s.stencil_coords):
            F[i, idx(r, c)] += s.A_mat[i, j]
        F[i, ref] += 1.0 - s.A_mat[i].sum()      # A.(z - ref) + ref
    for r in range(1, L):
        for c in range(n):
            F[idx(r, c), idx(r - 1, c)] = 1.0
    return F


violation = False
for cfg in CONFIGS:
    N, ps, r0, L0, f = cfg
    s = ips.PhaseScreenKolmogorov(N, ps, r0, L0, random_seed=1, stencil_length_factor=f)
    print("PhaseScreenKolmogorov(nx_size=%d, pixel_scale=%g, r0=%g, L0=%g, stencil_length_factor=%d, random_seed=1)" % cfg)
    print("   construction OK; internal size %d x %d, exposed %s" % (s.stencil_length, s.nx_size, s.scrn.shape))
    rho = float(np.max(np.abs(np.linalg.eigvals(transition_matrix(s)))))
    print("   spectral radius of the add_row map = %.6f (a bounded screen needs <= 1; 1 is the piston mode)" % rho)
    first_bad = None
    trace = []
    for i in range(1, MAX_STEPS + 1):
        out = s.add_row()
        assert out.shape == (N, N)
        if i in (1, 10, 50, 100, 200):
            trace.append((i, float(np.max(np.abs(out)))))
        if not np.isfinite(out).all():
            first_bad = i
            break
    print("   max|scrn| after (steps, value):", trace)
    if first_bad is not None:
        print("   first non-finite value in .scrn after %d add_row() calls" % first_bad)
    else:
        print("   .scrn still finite after %d add_row() calls, max|scrn| = %.3e" % (MAX_STEPS, np.max(np.abs(s.scrn))))
    if rho > 1.0 + 1e-6 or first_bad is not None:
        violation = True

if violation:
    print("VIOLATION: Kolmogorov screen diverges exponentially under add_row and ends up containing inf/nan")
    sys.exit(1)
print("no violation")
sys.exit(0)
