import os, sys; sys.path.insert(0, os.environ.get('AOTOOLS_ROOT', '/tmp/wt7_C05'))
# C05 finding 3: for a STABLE von Karman configuration the theoretical von Karman covariance is
# not the stationary covariance of the row recursion.  The A and B matrices are built from a
# covariance that only has float32 precision (turb.phase_covariance casts r to float32), so the
# small-scale statistics of every generated row are off by several per cent, permanently.
#   PhaseScreenVonKarman(16, 0.005, 0.16, 100): adjacent-pixel structure function
#   theory 0.020175 rad^2, recursion 0.0213-0.0215 rad^2 (+6 %).
import warnings
import numpy as np
from scipy.special import gamma, kv
warnings.simplefilter('ignore')
from aotools.turbulence import infinitephasescreen as ips


def vk_cov(r, r0, L0):
    """Assemat & Wilson eq. 5 (same formula as turb.phase_covariance) evaluated in float64."""
    r = np.asarray(r, dtype=float)
    A = (L0 / r0) ** (5. / 3)
    B1 = (2 ** (-5. / 6)) * gamma(11. / 6) / (np.pi ** (8. / 3))
    B2 = ((24. / 5) * gamma(6. / 5)) ** (5. / 6)
    x = 2 * np.pi * r / L0
    with np.errstate(all='ignore'):
        C = x ** (5. / 6) * kv(5. / 6, x)
    C = np.where(r == 0, gamma(5. / 6) / 2 ** (1. / 6), C)   # limit x->0
    return A * B1 * B2 * C


n, ps, r0, L0, k = 16, 0.005, 0.16, 100, 2
s = ips.PhaseScreenVonKarman(n, ps, r0, L0, random_seed=1, n_columns=k)
print("PhaseScreenVonKarman(nx_size=%d, pixel_scale=%g, r0=%g, L0=%g, n_columns=%d, random_seed=1)" % (n, ps, r0, L0, k))

# stability
F = np.zeros((k * n, k * n)); F[:n] = s.A_mat; F[n:, :-n] = np.eye((k - 1) * n)
rho = float(np.max(np.abs(np.linalg.eigvals(F))))
print("spectral radius of the row recursion = %.6f (stable)" % rho)

# (a) deterministic: give the stencil rows EXACTLY the theoretical covariance and propagate one step
pos = np.vstack([s.stencil_positions, s.X_positions])
d = np.sqrt(((pos[:, None, :] - pos[None, :, :]) ** 2).sum(-1))
T = vk_cov(d, r0, L0)
nz = s.n_stencils
Tzz, Txx = T[:nz, :nz], T[nz:, nz:]
Cnew = s.A_mat @ Tzz @ s.A_mat.T + s.B_mat @ s.B_mat.T          # covariance of the new row
D_theory = float(2 * (vk_cov(0.0, r0, L0) - vk_cov(ps, r0, L0)))
D_new = np.array([Cnew[i, i] + Cnew[i + 1, i + 1] - 2 * Cnew[i, i + 1] for i in range(n - 1)])
D_code_cov = float(s.cov_mat_xx[0, 0] + s.cov_mat_xx[1, 1] - 2 * s.cov_mat_xx[0, 1])
print("adjacent-pixel structure function D(%g m):" % ps)
print("   theoretical von Karman                      : %.6f rad^2" % D_theory)
print("   from the library's own cov_mat_xx           : %.6f rad^2" % D_code_cov)
print("   new row, when old rows have the theory cov  : %.6f .. %.6f rad^2" % (D_new.min(), D_new.max()))
rel_det = float(np.max(np.abs(D_new - D_theory)) / D_theory)
print("   => theoretical covariance is NOT reproduced by one step: relative error %.2f %%" % (100 * rel_det))
print("   max |Cnew - Txx| = %.3e rad^2 (variance %.1f rad^2)" % (np.max(np.abs(Cnew - Txx)), T[0, 0]))

# (b) Monte Carlo with the real add_row(): long history, statistics of the newest row
nsteps, burn = 400000, 4000
acc = np.zeros(n - 1); blocks = []; cur = 0.0; cnt = 0
for i in range(nsteps):
    row = s.add_row()[0]
    if i >= burn:
        d2 = np.diff(row) ** 2
        acc += d2; cur += d2.mean(); cnt += 1
        if cnt == 1000:
            blocks.append(cur / cnt); cur = 0.0; cnt = 0
blocks = np.array(blocks)
D_mc = float(blocks.mean()); se = float(blocks.std(ddof=1) / np.sqrt(len(blocks)))
print("Monte Carlo over %d add_row() calls: D = %.6f +- %.6f rad^2  (theory %.6f; ratio %.4f; %.1f sigma away)"
      % (nsteps - burn, D_mc, se, D_theory, D_mc / D_theory, abs(D_mc - D_theory) / se))

if rel_det > 0.01 and abs(D_mc - D_theory) > 5 * se:
    print("VIOLATION: stationary statistics differ from the von Karman model: D_adjacent %.6f (one-step) / %.6f (MC) vs %.6f"
          % (D_new.mean(), D_mc, D_theory))
    sys.exit(1)
print("no violation")
sys.exit(0)
