import os, sys; sys.path.insert(0, os.environ.get('AOTOOLS_ROOT', '/tmp/wt7_C16'))
# C16: "Binning by n returns exactly the n x n block sums (total flux preserved) for images and stacks"
# binImgs accumulates into arrays of the INPUT dtype: detector-typed images (uint8 / uint16 / int16)
# wrap around silently, boolean masks are OR-ed instead of counted.
import numpy
from aotools.interpolation import binImgs


def block_sums(d, n):
    s = d.shape
    return d.reshape(s[:-2] + (s[-2] // n, n, s[-1] // n, n)).astype(numpy.int64).sum(axis=(-3, -1))


cases = [("uint8 image 4x4, all 200, n=2", numpy.full((4, 4), 200, numpy.uint8), 2),
         ("uint16 image 8x8, all 40000 (16-bit camera frame), n=2", numpy.full((8, 8), 40000, numpy.uint16), 2),
         ("uint16 stack 3x8x8, all 5000, n=4", numpy.full((3, 8, 8), 5000, numpy.uint16), 4),
         ("int16 image 6x6, all 4000, n=3", numpy.full((6, 6), 4000, numpy.int16), 3),
         ("bool mask 4x4, all True, n=2", numpy.ones((4, 4), bool), 2),
         ("float64 image 4x4 (control)", numpy.full((4, 4), 200.0), 2)]
bad = 0
for name, d, n in cases:
    with numpy.errstate(all="ignore"):
        r = binImgs(d, n)
    ref = block_sums(d, n)
    same = r.shape == ref.shape and numpy.array_equal(r.astype(numpy.float64), ref.astype(numpy.float64))
    print("%-58s out dtype=%-7s out[...,0,0]=%-8s block sum=%-8s  total out=%s total in=%s  %s"
          % (name, r.dtype, r[..., 0, 0].ravel()[0], ref[..., 0, 0].ravel()[0],
             r.astype(numpy.float64).sum(), d.astype(numpy.float64).sum(), "ok" if same else "WRONG"))
    if not same:
        bad += 1
if bad:
    print("VIOLATION: %d integer/bool inputs are not binned to their block sums (flux not preserved)" % bad)
    sys.exit(1)
print("no violation")
sys.exit(0)
