import os, sys; sys.path.insert(0, os.environ.get('AOTOOLS_ROOT', '/tmp/wt7_C16'))
# C16: "passes through the original samples when the new grid contains the old nodes, is exact
# for polynomials up to the spline order ... for both zoom entry points"
# zoom_rbs evaluates the spline as interpObj(coordsY, coordsX): for a target size (nx, ny) with
# nx != ny the result has shape (ny, nx) and the axes of the content are swapped w.r.t. zoom.
import numpy
from aotools import interpolation

n = 5
i, j = numpy.meshgrid(numpy.arange(n), numpy.arange(n), indexing="ij")
bad = 0
for order in (1, 3):
    p = 1.0 + 2.0 * i + 0.25 * i * j          # polynomial of degree <= 1 in each variable
    new = (n, 2 * (n - 1) + 1)                  # rows unchanged, columns refined by 2: contains the old nodes
    cx = numpy.linspace(0, n - 1, new[0])
    cy = numpy.linspace(0, n - 1, new[1])
    CX, CY = numpy.meshgrid(cx, cy, indexing="ij")
    exact = 1.0 + 2.0 * CX + 0.25 * CX * CY     # shape new
    for f in (interpolation.zoom, interpolation.zoom_rbs):
        r = f(p, new, order=order)
        ok_shape = r.shape == new
        if ok_shape:
            e_poly = numpy.abs(r - exact).max()
            e_node = numpy.abs(r[:, ::2] - p).max()
        else:
            e_poly = e_node = float("nan")
        print("%-8s order=%d newSize=%s -> shape %s  max|out-poly|=%s  max|out[:, ::2]-in|=%s"
              % (f.__name__, order, new, r.shape, e_poly, e_node))
        if not ok_shape or e_poly > 1e-10 or e_node > 1e-10:
            bad += 1
            if r.shape == new[::-1]:
                print("         (output equals zoom(p, newSize[::-1]): max diff = %.2e)"
                      % numpy.abs(r - interpolation.zoom(p, new[::-1], order=order)).max())
if bad:
    print("VIOLATION: zoom_rbs samples the (ny, nx) grid, i.e. the target size with its two entries swapped, for a non-square target size")
    sys.exit(1)
print("no violation")
sys.exit(0)
