import os, sys; sys.path.insert(0, os.environ.get('AOTOOLS_ROOT', '/tmp/wt7_C16'))
# C16: "Spline zoom returns the input when the size is unchanged ... for both zoom entry points"
# zoom accepts a plain integer target size (newSize[0] -> TypeError is caught);
# zoom_rbs catches only IndexError, so a Python int target size raises.
import numpy
from aotools import interpolation

a = numpy.arange(36.).reshape(6, 6) ** 1.5
bad = 0
for f in (interpolation.zoom, interpolation.zoom_rbs):
    for order in (1, 3, 5):
        for size in (6, 11):
            try:
                r = f(a, size, order=order)
                step = (size - 1) // 5
                err = numpy.abs(r[::step, ::step] - a).max()
                print("%-8s order=%d newSize=%d -> shape %s, max |out[nodes]-in| = %.2e" % (f.__name__, order, size, r.shape, err))
                if r.shape != (size, size) or err > 1e-10:
                    bad += 1
            except Exception as e:
                print("%-8s order=%d newSize=%d -> %s: %s" % (f.__name__, order, size, type(e).__name__, e))
                bad += 1
if bad:
    print("VIOLATION: %d calls with an integer target size failed (zoom_rbs raises, zoom works)" % bad)
    sys.exit(1)
print("no violation")
sys.exit(0)
