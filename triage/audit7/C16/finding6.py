import os, sys; sys.path.insert(0, os.environ.get('AOTOOLS_ROOT', '/tmp/wt7_C16'))
# C16: "Spline zoom returns the input when the size is unchanged ... for both zoom entry points"
# quantifier: "all square arrays, target sizes and spline orders 1,3,5"
# Square arrays with side <= order make both entry points raise (FITPACK needs m > k), including
# the DEFAULT order 3 on 2x2 and 3x3 arrays; there is no fallback to a lower order.
import numpy
from aotools import interpolation

bad = 0
for f in (interpolation.zoom, interpolation.zoom_rbs):
    for n, order in ((1, 1), (2, 3), (3, 3), (3, 5), (4, 5), (5, 5), (2, 1), (4, 3), (6, 5)):
        a = numpy.arange(n * n, dtype=float).reshape(n, n) ** 2
        try:
            r = f(a, (n, n), order=order)
            err = numpy.abs(r - a).max()
            print("%-8s %dx%d order=%d -> max|out-in| = %.2e" % (f.__name__, n, n, order, err))
            if err > 1e-10:
                bad += 1
        except Exception as e:
            print("%-8s %dx%d order=%d -> %s: %s" % (f.__name__, n, n, order, type(e).__name__, e))
            bad += 1
if bad:
    print("VIOLATION: %d unchanged-size zoom calls on small square arrays raised instead of returning the input" % bad)
    sys.exit(1)
print("no violation")
sys.exit(0)
