import os, sys; sys.path.insert(0, os.environ.get('AOTOOLS_ROOT', '/tmp/wt7_C16'))
# C16: "treats complex data as real + i*imag, for both zoom entry points"
# Only complex64 and complex128 are recognised as complex; any other complex dtype
# (numpy.clongdouble / complex256) goes down the real branch, where scipy casts to float64
# and the imaginary part is discarded (ComplexWarning only).
import warnings
import numpy
from aotools import interpolation

warnings.simplefilter("ignore")
n = 6
re = numpy.arange(n * n, dtype=float).reshape(n, n)
im = re.T ** 2 + 1.0
bad = 0
for f in (interpolation.zoom, interpolation.zoom_rbs):
    for dt in (numpy.complex64, numpy.complex128, numpy.clongdouble):
        c = (re + 1j * im).astype(dt)
        for new in (n, 2 * (n - 1) + 1):
            try:
                r = f(c, (new, new), order=3)
            except Exception as e:
                print("%-8s %-12s newSize=%d -> %s: %s" % (f.__name__, numpy.dtype(dt).name, new, type(e).__name__, e))
                bad += 1
                continue
            want = f(re, (new, new), order=3) + 1j * f(im, (new, new), order=3)
            err = numpy.abs(r - want).max()
            print("%-8s %-12s newSize=%-2d -> out dtype %-10s max|out - (zoom(re) + i zoom(im))| = %.3e, max|imag(out)| = %.3e"
                  % (f.__name__, numpy.dtype(dt).name, new, r.dtype, err, numpy.abs(numpy.imag(r)).max()))
            if err > 1e-8:
                bad += 1
if bad:
    print("VIOLATION: %d calls lost the imaginary part of complex input" % bad)
    sys.exit(1)
print("no violation")
sys.exit(0)
