import os, sys; sys.path.insert(0, os.environ.get('AOTOOLS_ROOT', '/tmp/wt7_C16'))
# C16: "the reported diameter being where the curve crosses the requested fraction"
# encircled_energy evaluates its curve only on diameters 0..size/2, although the circles it
# integrates reach diameter ~size.  Any image whose EE-fraction diameter exceeds size/2
# gets size/2 back (or 0 when the flux sits outside the inscribed circle), a point where the
# curve is nowhere near the requested fraction.
import numpy
from aotools.image_processing.psf import encircled_energy
from aotools.functions import gaussian2d


def true_diameter(d, frac):
    n = d.shape[0]
    c = n // 2
    y, x = numpy.mgrid[:n, :n] + 0.5
    r = numpy.hypot(x - c, y - c).ravel()
    o = numpy.argsort(r)
    cum = numpy.cumsum(d.ravel()[o]) / d.sum()
    k = min(numpy.searchsorted(cum, frac), r.size - 1)
    return 2 * r[o][k]


bad = 0
cases = [("uniform 32x32", numpy.ones((32, 32)), 0.5),
         ("uniform 64x64", numpy.ones((64, 64)), 0.3),
         ("gaussian 64x64 sigma=16", gaussian2d(64, 16.), 0.5),
         ("gaussian 64x64 sigma=8", gaussian2d(64, 8.), 0.9),
         ("random non-negative 16x16", numpy.random.RandomState(0).rand(16, 16), 0.5)]
for name, data, frac in cases:
    x, y = encircled_energy(data, fraction=frac, eeDiameter=False)
    d = encircled_energy(data, fraction=frac)
    y_at_d = float(numpy.interp(d, x, y))
    print("%-28s fraction=%.2f reported diameter=%.3f  curve at that diameter=%.4f  "
          "curve range=[%.3f, %.3f] on x in [0, %.1f]  brute-force diameter=%.2f"
          % (name, frac, d, y_at_d, y.min(), y.max(), x.max(), true_diameter(data, frac)))
    # tolerance: one grid step of the curve (0.25 px) can not explain a miss of > 0.05 in the fraction
    if abs(y_at_d - frac) > 0.05:
        bad += 1
if bad:
    print("VIOLATION: in %d/%d cases the reported diameter is not where the curve crosses the fraction "
          "(the curve is cut at diameter size/2)" % (bad, len(cases)))
    sys.exit(1)
print("no violation")
sys.exit(0)
