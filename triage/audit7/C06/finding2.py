import os, sys; sys.path.insert(0, os.environ.get('AOTOOLS_ROOT', '/tmp/wt7_C06'))
# C06, clause "Different seeds give different screens and unseeded calls differ from each other"
# for the parameter set N = 1 (finite screens) / nx_size = 1 (initial infinite von Karman screen):
# the only Fourier coefficient is zeroed, so every call returns [[0.]] whatever the seed.
import numpy
from aotools.turbulence import phasescreen as P, infinitephasescreen as I

bad = []
for name, f in (("ft_phase_screen", P.ft_phase_screen), ("ft_sh_phase_screen", P.ft_sh_phase_screen)):
    a = f(0.1, 1, 0.05, 20, 0.01, seed=3)
    b = f(0.1, 1, 0.05, 20, 0.01, seed=4)
    u1 = f(0.1, 1, 0.05, 20, 0.01)
    u2 = f(0.1, 1, 0.05, 20, 0.01)
    print(name, "N=1: seed 3 ->", a.tolist(), " seed 4 ->", b.tolist(),
          " unseeded ->", u1.tolist(), u2.tolist())
    if a.tobytes() == b.tobytes():
        bad.append(name + " seeds 3 and 4 identical")
    if u1.tobytes() == u2.tobytes():
        bad.append(name + " unseeded calls identical")
    # control: N = 2 behaves
    a2 = f(0.1, 2, 0.05, 20, 0.01, seed=3); b2 = f(0.1, 2, 0.05, 20, 0.01, seed=4)
    print(name, "N=2 control: seeds differ ->", a2.tobytes() != b2.tobytes())

s3 = I.PhaseScreenVonKarman(1, 0.05, 0.15, 25, random_seed=3, n_columns=1)
s4 = I.PhaseScreenVonKarman(1, 0.05, 0.15, 25, random_seed=4, n_columns=1)
print("PhaseScreenVonKarman nx_size=1 initial .scrn: seed 3 ->", s3.scrn.tolist(), " seed 4 ->", s4.scrn.tolist())
if s3.scrn.tobytes() == s4.scrn.tobytes():
    bad.append("PhaseScreenVonKarman(1, ...) initial screens of seeds 3 and 4 identical")

# second degenerate family: l0 > ~26*N*delta, the PSD underflows to 0 on the whole grid
z3 = P.ft_phase_screen(0.1, 8, 1e-4, 20, 0.03, seed=3)
z4 = P.ft_phase_screen(0.1, 8, 1e-4, 20, 0.03, seed=4)
print("ft_phase_screen(0.1, 8, 1e-4, 20, l0=0.03): max|scrn| seed 3 -> %g, seed 4 -> %g" % (abs(z3).max(), abs(z4).max()))
if z3.tobytes() == z4.tobytes():
    bad.append("ft_phase_screen N=8 delta=1e-4 l0=0.03 seeds 3 and 4 identical (all zero)")

if bad:
    print("VIOLATION:", "; ".join(bad))
    sys.exit(1)
print("no violation")
sys.exit(0)
