import os, sys; sys.path.insert(0, os.environ.get('AOTOOLS_ROOT', '/tmp/wt7_C06'))
# C06 promises a reproducible screen "with the same seed" for "all seeds"; the docstrings say
# `seed (int, optional)` / `random_seed (int, optional)`.  Negative ints raise ValueError.
from aotools.turbulence import phasescreen as P, infinitephasescreen as I

calls = [
    ("ft_phase_screen(0.1, 8, 0.05, 20, 0.01, seed=-1)", lambda: P.ft_phase_screen(0.1, 8, 0.05, 20, 0.01, seed=-1)),
    ("ft_sh_phase_screen(0.1, 8, 0.05, 20, 0.01, seed=-1)", lambda: P.ft_sh_phase_screen(0.1, 8, 0.05, 20, 0.01, seed=-1)),
    ("PhaseScreenVonKarman(8, 0.1, 0.15, 25, random_seed=-1)", lambda: I.PhaseScreenVonKarman(8, 0.1, 0.15, 25, random_seed=-1)),
    ("PhaseScreenKolmogorov(8, 0.1, 0.15, 25, random_seed=-1)", lambda: I.PhaseScreenKolmogorov(8, 0.1, 0.15, 25, random_seed=-1)),
]
bad = []
for name, f in calls:
    try:
        f()
        print(name, "-> returned")
    except Exception as e:
        print(name, "-> %s: %s" % (type(e).__name__, e))
        bad.append(name)
# control
a = P.ft_phase_screen(0.1, 8, 0.05, 20, 0.01, seed=0); b = P.ft_phase_screen(0.1, 8, 0.05, 20, 0.01, seed=0)
print("control seed=0 reproducible:", a.tobytes() == b.tobytes())
if bad:
    print("VIOLATION: no screen is produced for the integer seed -1 in %d of %d entry points" % (len(bad), len(calls)))
    sys.exit(1)
print("no violation")
sys.exit(0)
