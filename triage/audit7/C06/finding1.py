import os, sys; sys.path.insert(0, os.environ.get('AOTOOLS_ROOT', '/tmp/wt7_C06'))
# C06, clause "Different seeds give different screens and unseeded calls differ from each other"
# (for infinite screens "including every row subsequently added").
# PhaseScreenVonKarman(128, 0.01, 0.15, 100) -- 1.28 m screen, 1 cm pixels, r0 = 15 cm, L0 = 100 m,
# default n_columns -- builds an A matrix whose row recursion is unstable (growth ~1e24 per 100
# rows).  After 1256 rows the values overflow, and from row ~1400 on the whole screen is NaN:
# seed 1, seed 2 and unseeded instances all hold bit-identical screens for every further row.
import warnings
import numpy
warnings.simplefilter("ignore")
from aotools.turbulence import infinitephasescreen as I

ARGS = (128, 0.01, 0.15, 100)
NROWS = 1600


def run(seed):
    s = I.PhaseScreenVonKarman(*ARGS, random_seed=seed)
    first = s.scrn.copy()
    trace = []
    first_nonfinite = None
    for i in range(NROWS):
        s.add_row()
        if i % 200 == 0:
            trace.append(float(numpy.abs(s.scrn).max()))
        if first_nonfinite is None and not numpy.isfinite(s.scrn).all():
            first_nonfinite = i + 1
    return s, first, trace, first_nonfinite


s1, f1, t1, n1 = run(1)
s2, f2, t2, n2 = run(2)
u1, g1, _, _ = run(None)
u2, g2, _, _ = run(None)

print("PhaseScreenVonKarman%r, %d rows added" % (ARGS, NROWS))
print("initial screens differ (seed 1 vs 2):", f1.tobytes() != f2.tobytes())
print("max|scrn| every 200 rows, seed 1:", ["%.3g" % v for v in t1])
print("max|scrn| every 200 rows, seed 2:", ["%.3g" % v for v in t2])
print("first row count with a non-finite value: seed 1 -> %s, seed 2 -> %s" % (n1, n2))

same_seeded = s1.scrn.tobytes() == s2.scrn.tobytes()
same_unseeded = u1.scrn.tobytes() == u2.scrn.tobytes()
print("after %d rows: seed 1 all-NaN %s, seed 2 all-NaN %s" % (
    NROWS, numpy.isnan(s1.scrn).all(), numpy.isnan(s2.scrn).all()))
print("seed 1 and seed 2 screens bit-identical:", same_seeded)
print("two unseeded screens bit-identical:", same_unseeded)

# and every row added afterwards stays identical
later_same = True
for i in range(20):
    a = s1.add_row(); b = s2.add_row(); c = u1.add_row(); d = u2.add_row()
    later_same &= a.tobytes() == b.tobytes() == c.tobytes() == d.tobytes()
print("20 further rows: all four instances bit-identical on every row:", later_same)

# mechanism: spectral radius of the row recursion  x_{k+1} = A [x_k; x_{k-1}] + B b
nx = s1.nx_size
comp = numpy.vstack([s1.A_mat.astype(float),
                     numpy.hstack([numpy.eye(nx), numpy.zeros((nx, nx))])])
rho = float(numpy.abs(numpy.linalg.eigvals(comp)).max())
print("spectral radius of the row recursion (must be < 1 for a stationary screen): %.4f" % rho)

if same_seeded or same_unseeded:
    print("VIOLATION: different seeds (1, 2) and unseeded instances give the same screen "
          "(all NaN) after %d rows; recursion radius %.3f, overflow at row %s" % (NROWS, rho, n1))
    sys.exit(1)
print("no violation")
sys.exit(0)
