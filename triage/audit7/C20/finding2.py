import os, sys; sys.path.insert(0, os.environ.get('AOTOOLS_ROOT', '/tmp/wt7_C20'))
# C20: "Functions that accept stacks or leading batch axes return, per item, what the single-item call returns."
#      quantifier: "all batch shapes".
# centre_of_gravity documents "([n, ]y, x) 2d or greater rank array of imgs to centroid".  With threshold != 0 and
# a rank-4 stack (a, b, y, x):
#   * a != b : the call raises (the per-frame threshold array (a, b) is combined with [min_threshold]*a);
#   * a == b : the call succeeds but frame (i, j) is thresholded with the threshold of frame (j, i)
#              ((img.T - thres).T pairs axes (b, a) of img.T with axes (a, b) of thres).
# To keep this apart from the already recorded single-frame-vs-stack difference (subtracting / not subtracting
# the threshold), the reference used here is the SAME stack code path: the same frames passed as a rank-3 stack.
import warnings
import numpy
from aotools.image_processing.centroiders import centre_of_gravity
warnings.simplefilter("ignore")

rng = numpy.random.default_rng(1)
violation = False

# (1) non-square batch shape: exception
img23 = rng.random((2, 3, 6, 6))
try:
    r = centre_of_gravity(img23, threshold=0.5)
    print("batch shape (2,3): returned shape", r.shape)
except Exception as e:
    print("batch shape (2,3): centre_of_gravity(img, threshold=0.5) raised %r" % (e,))
    print("   while threshold=0 on the same stack returns shape", centre_of_gravity(img23).shape,
          "and the rank-3 stack img.reshape(6,6,6) with threshold=0.5 returns shape",
          centre_of_gravity(img23.reshape(6, 6, 6), threshold=0.5).shape)
    violation = True

# (2) square batch shape: frames of different brightness, wrong (transposed) thresholds
scale = numpy.array([1., 5., 20., 100.]).reshape(2, 2, 1, 1)
img22 = rng.random((2, 2, 6, 6)) * scale
before = img22.copy()
r4 = centre_of_gravity(img22, threshold=0.5)                                    # (2, 2, 2)
r3 = centre_of_gravity(img22.reshape(4, 6, 6), threshold=0.5).reshape(2, 2, 2)  # same frames, rank-3 stack
print("argument unchanged:", numpy.array_equal(before, img22))
for i in range(2):
    for j in range(2):
        print("frame (%d,%d) max=%8.3f : rank-4 -> %s   same frame in rank-3 stack -> %s"
              % (i, j, img22[i, j].max(), r4[:, i, j], r3[:, i, j]))
bad = ~numpy.isclose(r4, r3, rtol=0, atol=1e-9, equal_nan=False)
print("items that differ (x/y, i, j):", [tuple(int(v) for v in ix) for ix in numpy.argwhere(bad)])
# show the mechanism: frame (0,1) is thresholded with the threshold of frame (1,0)
thr = 0.5 * img22.max(-1).max(-1)
f = img22[0, 1]
manual = numpy.where(f - thr[1, 0] < 0, 0, f)
yy, xx = numpy.indices(f.shape)
with numpy.errstate(all="ignore"):
    print("frame (0,1) thresholded at 0.5*max of frame (1,0) = %.3f gives x = %s (rank-4 result x = %s)"
          % (thr[1, 0], (xx * manual).sum() / manual.sum(), r4[0, 0, 1]))
if bad.any():
    violation = True

if violation:
    print("VIOLATION: centre_of_gravity(threshold != 0) on rank-4 stacks raises for batch shape (2,3) and "
          "mixes up the per-frame thresholds for batch shape (2,2)")
    sys.exit(1)
print("no violation")
sys.exit(0)
