import os, sys; sys.path.insert(0, os.environ.get('AOTOOLS_ROOT', '/tmp/wt7_C20'))
# C20: "Functions that accept stacks or leading batch axes return, per item, what the single-item call returns."
# aotools.turbulence.turb.phase_covariance(r, r0, L0) documents "r (float, ndarray): ... (can be ndarray)".
# It first casts r to single precision (r = numpy.float32(r)); NumPy's float32 scalar arithmetic and float32 array
# loops round differently, so an element of the array call is not what the call on that separation alone returns.
# The deviation is one float32 ulp of the intermediate (about 1e-7 relative, 1e-5 .. 4e-5 absolute on values ~500),
# three orders of magnitude above double-precision noise (1e-10), for float64 input.
import numpy
from aotools.turbulence.turb import phase_covariance

r0, L0 = 0.1, 20.
r = numpy.linspace(0., 5., 101)            # float64 separations [m]
before = r.copy()
batch = phase_covariance(r, r0, L0)
single = numpy.array([phase_covariance(float(x), r0, L0) for x in r])
again = phase_covariance(r, r0, L0)
len1 = numpy.array([phase_covariance(r[i:i + 1], r0, L0)[0] for i in range(len(r))])

print("input dtype", r.dtype, " batch result dtype", batch.dtype, " single result type", type(single[0]).__name__)
print("argument unchanged:", numpy.array_equal(before, r), "  repeated batch call equal:", numpy.array_equal(batch, again))
print("batch item == length-1-array call for all items:", numpy.array_equal(batch, len1))
diff = numpy.abs(batch - single)
rel = diff / numpy.abs(single)
idx = numpy.nonzero(diff)[0]
print("items where batch[i] != phase_covariance(float(r[i])): %d of %d" % (len(idx), len(r)))
for i in idx[:8]:
    print("  r = %.2f : batch item %.10f   single call %.10f   abs diff %.2e  rel %.2e" % (r[i], batch[i], single[i], diff[i], rel[i]))
print("max abs diff = %.3e   max rel diff = %.3e   (float32 eps = %.2e)" % (diff.max(), rel.max(), numpy.finfo('float32').eps))
if rel.max() > 1e-9:
    print("VIOLATION: phase_covariance(array)[i] != phase_covariance(array[i]) beyond 1e-9 relative (max rel %.2e, max abs %.2e)" % (rel.max(), diff.max()))
    sys.exit(1)
print("no violation")
sys.exit(0)
