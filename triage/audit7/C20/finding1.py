import os, sys; sys.path.insert(0, os.environ.get('AOTOOLS_ROOT', '/tmp/wt7_C20'))
# C20: "Functions that accept stacks or leading batch axes return, per item, what the single-item call returns."
# brightest_pixel documents "img (ndarray): 2d or greater rank array of imgs to centroid".
# For rank >= 4 (two or more leading batch axes) neither branch (len(shape)==2 / ==3) runs, so the
# brightest-pixel threshold is silently skipped and a plain centre of gravity is returned.
import numpy
from aotools.image_processing.centroiders import brightest_pixel

rng = numpy.random.default_rng(0)
stack4 = rng.random((2, 3, 6, 6))          # (n, m, y, x): 2 x 3 images of 6 x 6 pixels
threshold = 0.3
before = stack4.copy()

batch = brightest_pixel(stack4, threshold)  # shape (2, n, m)
print("batch result shape:", batch.shape)

worst = 0.0
for i in range(2):
    for j in range(3):
        single = brightest_pixel(stack4[i, j], threshold)       # (2,)
        in_stack3 = brightest_pixel(stack4[i], threshold)[:, j]  # same item inside a rank-3 stack
        d = float(numpy.abs(batch[:, i, j] - single).max())
        d3 = float(numpy.abs(in_stack3 - single).max())
        worst = max(worst, d)
        print("item (%d,%d): rank-4 batch -> %s   single -> %s   rank-3 stack -> %s   |batch-single| = %.4f  |stack3-single| = %.1e"
              % (i, j, batch[:, i, j], single, in_stack3, d, d3))

print("argument unchanged:", numpy.array_equal(before, stack4))
print("largest |rank-4 batch item - single-item call| =", worst, "pixels")
if worst > 1e-6:
    print("VIOLATION: brightest_pixel on a rank-4 stack does not return, per item, what the single-item call returns (max diff %.4f px)" % worst)
    sys.exit(1)
print("no violation")
sys.exit(0)
