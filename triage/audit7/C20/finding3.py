import os, sys; sys.path.insert(0, os.environ.get('AOTOOLS_ROOT', '/tmp/wt7_C20'))
# C20: "No public function ... keeps hidden state between calls: calling any function twice with equal arguments,
#       in any order relative to other calls, returns equal results."
# aotools.turbulence.profile_compression.optimal_grouping(R, L, h, p) draws its R random starting groupings from the
# process-wide legacy generator (numpy.random.choice in _random_grouping).  It has no seed argument.  Consequences:
#   (a) two calls with equal arguments return different compressed profiles;
#   (b) the call silently advances numpy's global random state, so it changes what later, unrelated code draws.
import numpy
from aotools.turbulence.profile_compression import optimal_grouping

h = numpy.array([ 1149.,  1433.,  2030.,  3176.,  3343.,  3811.,  5720.,  5952.,  5986.,  6822.,
                  7622.,  7987.,  8769.,  9909., 10598., 11263., 11552., 11714., 12460., 12752.,
                 12961., 13027., 13186., 14147., 14504., 15036., 15233., 16691., 18461., 19273.])
p = numpy.array([7.634e-14, 6.820e-15, 4.456e-14, 1.762e-14, 6.990e-15, 6.420e-15, 9.681e-14, 1.430e-15,
                 3.250e-15, 5.070e-15, 1.676e-14, 1.000e-15, 1.804e-14, 2.000e-15, 2.070e-15, 3.830e-15,
                 1.026e-14, 1.067e-14, 1.327e-14, 1.500e-15, 1.170e-15, 2.968e-14, 3.030e-15, 4.662e-14,
                 8.730e-15, 1.051e-14, 2.095e-14, 9.334e-14, 3.000e-15, 2.000e-15])
h0, p0 = h.copy(), p.copy()
L = 5
violation = False

def show(tag, res):
    print("  %-34s heights = %s  cn2 = %s" % (tag, res[0], numpy.array2string(res[1], precision=4)))

# (a) equal arguments, consecutive calls (global generator put in a known state first, only to make this program
#     deterministic; without the seed the same thing happens, just not reproducibly)
print("R = 1, L = 5: four consecutive calls with equal arguments")
numpy.random.seed(0)
results = [optimal_grouping(1, L, h, p) for _ in range(4)]
for k, r in enumerate(results):
    show("call %d" % (k + 1), r)
distinct = {(tuple(r[0]), tuple(r[1])) for r in results}
print("  distinct results:", len(distinct))
if len(distinct) > 1:
    violation = True

print("R = 10 (value recommended in the docstring): result as a function of the hidden global state")
res_by_state = {}
for s in (0, 29):
    numpy.random.seed(s)
    res_by_state[s] = optimal_grouping(10, L, h, p)
    show("global state numpy.random.seed(%d)" % s, res_by_state[s])
if not (numpy.array_equal(res_by_state[0][0], res_by_state[29][0]) and numpy.array_equal(res_by_state[0][1], res_by_state[29][1])):
    violation = True
    print("  -> equal arguments, different results")

# (b) the call advances the global generator: other code is affected by whether optimal_grouping ran before it
numpy.random.seed(5)
x_without = numpy.random.random()
numpy.random.seed(5)
optimal_grouping(1, L, h, p)
x_with = numpy.random.random()
print("numpy.random.random() after seed(5): %.6f ; after seed(5) + optimal_grouping(...): %.6f" % (x_without, x_with))
if x_without != x_with:
    violation = True

print("array arguments unchanged:", numpy.array_equal(h, h0) and numpy.array_equal(p, p0))
if violation:
    print("VIOLATION: optimal_grouping depends on and modifies hidden global state (numpy.random); "
          "%d distinct results from 4 equal calls" % len(distinct))
    sys.exit(1)
print("no violation")
sys.exit(0)
