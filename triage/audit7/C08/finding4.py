import os, sys; sys.path.insert(0, os.environ.get('AOTOOLS_ROOT', '/tmp/wt7_C08'))
# C08: "the copies used by the slope-covariance and Karhunen-Loeve code agree with each other ... The
# structure function is ... non-decreasing, saturates at twice the variance 0.0863 (L0/r0)^(5/3)" for all
# r >= 0 including r >> L0.  The KL copy stf_vonKarman_yao is a truncated series: it decreases beyond
# r ~ 0.5 L and is negative beyond r ~ 0.8 L.
import warnings; warnings.simplefilter("ignore")
import numpy
from aotools.functions.karhunenLoeve import stf_vonKarman_yao, stf_vonKarman
from aotools.turbulence.slopecovariance import structure_function_vk

r0, L0 = 1.0, 25.          # KL units: r and L in units of r0
sat = 2 * 0.0863 * (L0 / r0) ** (5. / 3)
print("saturation value 2*0.0863*(L0/r0)^(5/3) = %r" % sat)
print("%8s %24s %24s %24s" % ("r", "stf_vonKarman_yao", "stf_vonKarman", "structure_function_vk"))
fail = False
prev = 0.
for r in [0., 0.1, 1., 5., 10., 12.5, 15., 20., 25., 50., 250., 2500.]:
    y = float(stf_vonKarman_yao(r, L0)); v = float(stf_vonKarman(r, L0)); s = float(structure_function_vk(r, r0, L0))
    flag = ""
    if y < prev - 1e-9: flag += " decreasing"
    if y < 0: flag += " negative"
    if v > 0 and abs(y - v) / v > 0.05: flag += " disagrees with stf_vonKarman by %.3g%%" % (100 * abs(y - v) / v)
    if flag: fail = True
    prev = y
    print("%8g %24r %24r %24r  %s" % (r, y, v, s, flag))
if fail:
    print("VIOLATION: stf_vonKarman_yao is not non-decreasing, goes negative, does not saturate at %g and disagrees with the other copies" % sat)
    sys.exit(1)
print("no violation")
sys.exit(0)
