import os, sys; sys.path.insert(0, os.environ.get('AOTOOLS_ROOT', '/tmp/wt7_C08'))
# C08 (dtype of inputs): the value of the structure function at a separation must not depend on the
# dtype that carries the separation.  With float32 separations structure_function_vk / stf_vonKarman
# do the cancelling subtraction 1 - X in float32, so the result carries an absolute error of
# ~1e-7 * 0.17253 (L0/r0)^(5/3): wrong by 80% at r = 1e-4 m, not monotone, and it no longer equals
# 2 (B(0) - B(r)) nor scales as r0^(-5/3).
import warnings; warnings.simplefilter("ignore")
import numpy
from aotools.turbulence.slopecovariance import structure_function_vk
from aotools.functions.karhunenLoeve import stf_vonKarman

r0, L0 = 0.1, 25.
fail = False
print("%10s %26s %26s %10s" % ("r", "D_vk(float32 r)", "D_vk(float64 r)", "rel.dev"))
for r in [1e-4, 3e-4, 1e-3, 3e-3, 1e-2, 0.1]:
    r32 = numpy.float32(r)
    d32 = float(structure_function_vk(numpy.array([r32]), r0, L0)[0])
    d64 = float(structure_function_vk(numpy.array([float(r32)]), r0, L0)[0])   # the very same separation, as float64
    rel = abs(d32 - d64) / d64
    if rel > 1e-3: fail = True
    print("%10g %26r %26r %10.3g" % (r, d32, d64, rel))
r = numpy.linspace(0, 2e-3, 401)
d32 = structure_function_vk(r.astype(numpy.float32), r0, L0)
d64 = structure_function_vk(r, r0, L0)
print("r = linspace(0, 2e-3, 401): decreasing steps float32 input %d (min step %r), float64 input %d"
      % ((numpy.diff(d32) < 0).sum(), float(numpy.diff(d32).min()), (numpy.diff(d64) < 0).sum()))
if (numpy.diff(d32) < -1e-8).any(): fail = True
k32 = float(stf_vonKarman(numpy.float32(1e-3), L0 / r0)); k64 = float(stf_vonKarman(float(numpy.float32(1e-3)), L0 / r0))
print("KL stf_vonKarman(1e-3, 250): float32 r -> %r, float64 r -> %r" % (k32, k64))
if fail:
    print("VIOLATION: float32-typed separations give a structure function that differs from the float64 value by far more than float32 rounding and is not non-decreasing")
    sys.exit(1)
print("no violation")
sys.exit(0)
