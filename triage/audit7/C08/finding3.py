import os, sys; sys.path.insert(0, os.environ.get('AOTOOLS_ROOT', '/tmp/wt7_C08'))
# C08: the structure function must "tend to the Kolmogorov law 6.88 (r/r0)^(5/3) as L0 grows" and be
# "non-decreasing".  structure_function_vk (and the KL copy stf_vonKarman) evaluate
# 0.17253 (L0/r0)^(5/3) * (1 - X) with X -> 1: the rounding of X (1e-16) is multiplied by (L0/r0)^(5/3),
# so for large L0 the result is rounding noise: it moves AWAY from Kolmogorov and is not monotone in r.
import warnings; warnings.simplefilter("ignore")
import numpy
from aotools.turbulence.slopecovariance import structure_function_vk, structure_function_kolmogorov
from aotools.functions.karhunenLoeve import stf_vonKarman

r0 = 0.1
fail = False
print("%8s %8s %24s %24s %24s %10s" % ("L0", "r", "structure_function_vk", "KL stf_vonKarman", "Kolmogorov 6.88(r/r0)^5/3", "ratio"))
prev_dev = {}
for r in [1e-3, 1e-2, 0.1]:
    for L0 in [1e3, 1e4, 1e5, 1e6, 1e7, 1e8, 1e9]:
        d = float(structure_function_vk(r, r0, L0))
        k = float(stf_vonKarman(r / r0, L0 / r0))
        kol = float(structure_function_kolmogorov(r, r0))
        dev = abs(d / kol - 1)
        flag = ""
        if r in prev_dev and dev > prev_dev[r] and dev > 2e-2:
            flag = "  <-- further from Kolmogorov than at the smaller L0"
            fail = True
        prev_dev[r] = dev
        print("%8g %8g %24r %24r %24r %10.4f%s" % (L0, r, d, k, kol, d / kol, flag))

for L0 in [1e5, 1e6, 1e7]:
    r = numpy.linspace(0, 0.01, 2001)
    d = structure_function_vk(r, r0, L0)
    dd = numpy.diff(d)
    print("L0=%g, r = linspace(0, 0.01, 2001): number of decreasing steps %d, most negative step %r (D(0.01)=%r)"
          % (L0, (dd < 0).sum(), dd.min(), d[-1]))
    if dd.min() < -1e-8:
        fail = True
if fail:
    print("VIOLATION: for large L0 structure_function_vk / stf_vonKarman diverge from the Kolmogorov law and are not non-decreasing")
    sys.exit(1)
print("no violation")
sys.exit(0)
