import os, sys; sys.path.insert(0, os.environ.get('AOTOOLS_ROOT', '/tmp/wt7_C08'))
# C08: "The phase structure function equals twice the difference between the phase covariance at zero
# separation and at that separation" and "every matrix of phase covariances between arbitrary points is
# positive semi-definite".  phase_covariance casts r to float32 and so carries only ~7 digits of a
# number of size 0.0863 (L0/r0)^(5/3): small separations are lost entirely.
import warnings; warnings.simplefilter("ignore")
import numpy
from scipy.special import gamma, kv
from aotools.turbulence.turb import phase_covariance
from aotools.turbulence.slopecovariance import structure_function_vk

def cov64(r, r0, L0):
    # the same closed form (Assemat & Wilson eq. 5) evaluated in double precision
    r = numpy.asarray(r, dtype=float)
    x = 2 * numpy.pi * r / L0
    lim = gamma(5. / 6) * 2 ** (-1. / 6)          # limit of x^(5/6) K_5/6(x) at 0
    with numpy.errstate(all="ignore"):
        C = numpy.where(x == 0, lim, x ** (5. / 6) * kv(5. / 6, x))
    return (L0 / r0) ** (5. / 3) * (2 ** (-5. / 6)) * gamma(11. / 6) / (numpy.pi ** (8. / 3)) \
        * ((24. / 5) * gamma(6. / 5)) ** (5. / 6) * C

r0, L0 = 0.1, 25.
fail = False
b0 = float(phase_covariance(0., r0, L0))
print("r0=%g L0=%g  B(0)=%r  (double reference %r)" % (r0, L0, b0, float(cov64(0., r0, L0))))
print("%10s %24s %24s %24s" % ("r", "2*(B(0)-B(r)) library", "D_vk(r) library", "2*(B(0)-B(r)) double"))
for r in [1e-5, 1e-4, 3e-4, 1e-3, 1e-2]:
    lib = 2 * (b0 - float(phase_covariance(r, r0, L0)))
    d = float(structure_function_vk(r, r0, L0))
    ref = 2 * float(cov64(0., r0, L0) - cov64(r, r0, L0))
    rel = abs(lib - d) / d
    print("%10g %24r %24r %24r   rel.dev %.3g" % (r, lib, d, ref, rel))
    if rel > 1e-2:      # constants in the two formulas agree to 6e-4, so 1e-2 is generous
        fail = True

# positive semi-definiteness: 8 x 8 grid of points 1 mm apart
n, dx = 8, 1e-3
x = numpy.arange(n) * dx
X, Y = numpy.meshgrid(x, x)
p = numpy.c_[X.ravel(), Y.ravel()]
R = numpy.sqrt(((p[:, None] - p[None]) ** 2).sum(-1))
M = numpy.asarray(phase_covariance(R, r0, L0), dtype=float)
Mref = cov64(R, r0, L0)
e = numpy.linalg.eigvalsh(M)
eref = numpy.linalg.eigvalsh(Mref)
print("covariance matrix of %d points on a %g m grid: symmetric dev %g, min eigenvalue library %r, double reference %r, max eigenvalue %r"
      % (n * n, dx, abs(M - M.T).max(), e.min(), eref.min(), e.max()))
if e.min() < -1e-6:
    fail = True
if fail:
    print("VIOLATION: 2*(B(0)-B(r)) is 0 where D(r) > 0 (float32 resolution of B is %g), and the covariance matrix has min eigenvalue %g < 0"
          % (numpy.spacing(numpy.float32(b0)), e.min()))
    sys.exit(1)
print("no violation")
sys.exit(0)
