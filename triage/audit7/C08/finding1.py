import os, sys; sys.path.insert(0, os.environ.get('AOTOOLS_ROOT', '/tmp/wt7_C08'))
# C08: "the phase covariance at zero separation" must exist for all r0 > 0, L0 > 0
# ("... tend to the Kolmogorov law as L0 grows").  phase_covariance(0, r0, L0) is nan once L0 >~ 9e5.
import warnings; warnings.simplefilter("ignore")
import numpy
from aotools.turbulence.turb import phase_covariance
from aotools.turbulence.slopecovariance import structure_function_vk

r0 = 0.1
bad = []
for L0 in [25., 1e3, 1e5, 8e5, 9e5, 1e6, 1e7, 1e9]:
    b0 = phase_covariance(0., r0, L0)
    b0arr = phase_covariance(numpy.zeros(3), r0, L0)
    b1 = phase_covariance(1.0, r0, L0)
    d1 = structure_function_vk(1.0, r0, L0)
    expected_b0 = 0.0863 * (L0 / r0) ** (5. / 3)
    print("L0=%-8g B(0)=%-22r B([0,0,0])[0]=%-22r expected~%.6g   2*(B(0)-B(1))=%r  D_vk(1)=%r"
          % (L0, float(b0), float(b0arr[0]), expected_b0, 2 * (float(b0) - float(b1)), float(d1)))
    if not numpy.isfinite(b0) or not numpy.all(numpy.isfinite(b0arr)):
        bad.append(L0)
if bad:
    print("VIOLATION: phase_covariance at zero separation is nan for L0 in", bad)
    sys.exit(1)
print("no violation")
sys.exit(0)
