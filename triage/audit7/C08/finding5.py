import os, sys; sys.path.insert(0, os.environ.get('AOTOOLS_ROOT', '/tmp/wt7_C08'))
# C08: "The structure function is zero at zero separation, non-decreasing" for all separations r >= 0.
# The guard added at r == 0 tests `seperation == 0` only; for tiny positive r the closed form is still
# 0 * inf (nan, when 2 pi r / L0 underflows to 0) or -inf (when scipy.special.kv overflows, x < ~1e-305).
import warnings; warnings.simplefilter("ignore")
import numpy
from aotools.turbulence.slopecovariance import structure_function_vk
from aotools.functions.karhunenLoeve import stf_vonKarman

r0, L0 = 0.1, 25.
fail = False
rs = [0., 5e-324, 1e-320, 1e-310, 2.2250738585072014e-308, 1e-306, 1e-305, 1e-300, 1e-200]
print("%24s %24s %24s" % ("r", "structure_function_vk", "KL stf_vonKarman(r/r0, L0/r0)"))
for r in rs:
    d = float(structure_function_vk(r, r0, L0)); k = float(stf_vonKarman(r / r0, L0 / r0))
    bad = not (numpy.isfinite(d) and numpy.isfinite(k) and abs(d) < 1e-9 and abs(k) < 1e-9)
    fail |= bad
    print("%24r %24r %24r %s" % (r, d, k, "<-- not ~0" if bad else ""))
arr = structure_function_vk(numpy.array(rs), r0, L0)
print("array call:", arr)
if fail:
    print("VIOLATION: structure function is nan / -inf at tiny positive separations (expected 0 to rounding)")
    sys.exit(1)
print("no violation")
sys.exit(0)
