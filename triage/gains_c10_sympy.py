import sympy as sp
N,d1,d2,lam,z,f = sp.symbols('N d1 d2 lam z f', positive=True)
m = d2/d1
# angularSpectrum: amp 1/mag ; ft2 scale d1^2 (DFT power N^2) ; ift2 scale (N*df1)^2, ifft2 power 1/N^2
df1 = 1/(N*d1)
g = (1/m)**2 * (d1**2)**2 * N**2 * ((N*df1)**2)**2 / N**2
print("angularSpectrum: g*dout^2/din^2 =", sp.simplify(g*d2**2/d1**2))
# oneStep
g = (1/(lam*z))**2 * (d1**2)**2 * N**2
dout = lam*z/(N*d1)
print("oneStepFresnel:", sp.simplify(g*dout**2/d1**2))
# lensAgainst
g = (1/(lam*f))**2 * (d1**2)**2 * N**2
dout = lam*f/(N*d1)
print("lensAgainst:", sp.simplify(g*dout**2/d1**2))
# twoStep with signed z and m (not nec. positive 1-m)
zz, mm = sp.symbols('z m', real=True)
Dz1 = zz/(1-mm); Dz2 = zz - Dz1
d1a_sq = (lam**2*Dz1**2/(N*d1)**2)   # |Dz1|^2
g = (1/(lam*Dz1))**2*(d1**2)**2*N**2 * (1/(lam*Dz2))**2*(d1a_sq)**2*N**2
print("twoStepFresnel:", sp.simplify(g*(mm*d1)**2/d1**2))
print("Dz2 + m*Dz1 =", sp.simplify(Dz2+mm*Dz1))
