import sys; sys.path.insert(0,'/repo')
import warnings; warnings.filterwarnings('ignore')
import numpy as np, aotools
from aotools import fouriertransform as ftm
# C09 odd-N centred Gaussian
for N in (16,17):
    c = N//2  # centre sample for odd; for even index N/2 is the "origin" of arange(-N/2,N/2)
    x = (np.arange(N)-c)*0.3
    g = np.exp(-np.pi*x**2)
    G = ftm.ft(g, 0.3)
    f = (np.arange(N)-c)/(N*0.3)
    print(N, "max|imag|", abs(G.imag).max(), "err vs analytic", abs(G-np.exp(-np.pi*f**2)).max())
    G2 = np.fft.fftshift(np.fft.fft(np.fft.ifftshift(g)))*0.3
    print("   canonical: max|imag|", abs(G2.imag).max(), "err", abs(G2-np.exp(-np.pi*f**2)).max())
# C15
from aotools.image_processing import centroiders as ce
img = np.random.rand(6,6)
a = ce.centre_of_gravity(img.copy(), 0.3); b = ce.centre_of_gravity(img.copy()[None], 0.3)
print("COG thr 2D vs stack:", a, b[:,0])
q = np.random.rand(2,2); print("quadCell scale:", ce.quadCell(q), ce.quadCell(3*q))
# C18
from aotools.turbulence import profile_compression as pc
h = np.linspace(0,1,200); p = np.ones(200)
for L in (5,49,98):
    hl, cl = pc.equivalent_layers(h,p,L)
    print("EL L=%d total in %.1f out %.1f nan h: %d"%(L, p.sum(), np.nansum(cl), np.isnan(hl).sum()))
h = np.arange(0,25000,250.); p=np.ones(len(h))
for L in range(2,40):
    hl, cl = pc.equivalent_layers(h,p,L)
    if abs(cl.sum()-p.sum())>1e-9: print("EL drop: L", L, cl.sum(), p.sum())
# C16
from aotools import interpolation
try:
    interpolation.zoom(np.random.rand(5,5), 10)
except Exception as e: print("zoom:", type(e).__name__, str(e)[:80])
# C12
from aotools.functions import zernike
try: zernike.zernike_noll(4, 8)
except Exception as e: print("zernike:", type(e).__name__, e)
