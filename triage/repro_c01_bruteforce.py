import sys; sys.path.insert(0,'/repo')
import warnings; warnings.filterwarnings('ignore')
import numpy as np, aotools
from aotools.turbulence import slopecovariance as sc
def build(masks, gspos, gsalt, diam=None, wl=None, threads=1, layers=((0.,1.,25.),(8000.,1.,25.))):
    n=len(masks); nx=masks[0].shape[0]
    D=8.; 
    diam = diam or [D/nx]*n; wl = wl or [500e-9]*n
    alts=[l[0] for l in layers]; r0=[l[1] for l in layers]; L0=[l[2] for l in layers]
    cm = sc.CovarianceMatrix(n, masks, D, diam, gsalt, gspos, wl, len(layers), alts, r0, L0, threads)
    return cm, cm.make_covariance_matrix()
# symmetric mask on-axis
m = aotools.circle(3,6)
cm, C = build([m], [[0,0]], [0])
print("sym mask: symmetric?", np.allclose(C, C.T), "min eig", np.linalg.eigvalsh(C.astype('f8')).min())
# asymmetric mask
ma = m.copy(); ma[0,:]=0; ma[1,1]=0; ma[2,0]=1
cm, C = build([ma], [[0,0]], [0])
print("asym mask: symmetric?", np.allclose(C, C.T), "min eig", np.linalg.eigvalsh((C.astype('f8')+C.astype('f8').T)/2).min(), "max abs", abs(C).max(), "finite", np.isfinite(C).all())
# brute-force oracle for asym mask
def oracle(cm):
    # compute full cov from definition using structure function
    n = cm.total_subaps
    out = np.zeros((2*n,2*n))
    for l,(alt) in enumerate(cm.layer_altitudes):
        pos = np.concatenate(cm.subap_layer_positions[l]); 
        d = np.concatenate([[cm.subap_layer_diameters[l][w]]*cm.n_subaps[w] for w in range(cm.n_wfs)])
        wl = np.concatenate([[cm.wfs_wavelengths[w]]*cm.n_subaps[w] for w in range(cm.n_wfs)])
        wid = np.concatenate([[w]*cm.n_subaps[w] for w in range(cm.n_wfs)])
        D = lambda v: sc.structure_function_vk(np.sqrt((v**2).sum())+1e-20, cm.layer_r0s[l], cm.layer_L0s[l])
        def idx(k, ax):
            w = wid[k]; base = 2*cm.n_subaps[:w].sum(); loc = k - cm.n_subaps[:w].sum()
            return base + ax*cm.n_subaps[w] + loc
        for a in range(n):
            for b in range(n):
                for ax in (0,1):
                    for bx in (0,1):
                        ea = np.zeros(2); ea[ax]=d[a]/2; eb=np.zeros(2); eb[bx]=d[b]/2
                        pa, pb = pos[a]+ea, pos[b]+eb; ma_, mb = pos[a]-ea, pos[b]-eb
                        c = 0.5*(D(pa-mb)+D(ma_-pb)-D(pa-pb)-D(ma_-mb))/(d[a]*d[b])*wl[a]*wl[b]/(4*np.pi**2)
                        out[idx(a,ax), idx(b,bx)] += c
    return out
O = oracle(cm)
print("asym: max rel err vs oracle", abs(C-O).max()/abs(O).max())
cm, C = build([m], [[0,0]], [0]); O=oracle(cm); print("sym on-axis: rel err", abs(C-O).max()/abs(O).max())
cm, C = build([m,m], [[0,0],[30,10]], [0,0]); O=oracle(cm); print("sym masks, off-axis NGS: rel err", abs(C-O).max()/abs(O).max())
cm, C = build([m,m], [[0,0],[30,10]], [0,90000.]); O=oracle(cm); print("NGS+LGS mix: rel err", abs(C-O).max()/abs(O).max())
