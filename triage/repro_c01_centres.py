import sys; sys.path.insert(0,'/repo')
import warnings; warnings.filterwarnings('ignore')
import numpy as np, aotools
from aotools.turbulence import slopecovariance as sc
m = aotools.circle(2,4); D=8.; d=D/4
cm = sc.CovarianceMatrix(2,[m,m],D,[d,d],[0,90000.],[[0,0],[0,0]],[5e-7]*2,1,[10000.],[1.],[25.],1)
cm.make_covariance_matrix()
idx = np.array(np.where(m==1)).T
true_centres = (idx+0.5)*d - D/2
print("code positions (unprojected) - true centres:", np.unique(cm.subap_positions[0]-true_centres))
h=10000.; H=90000.
ngs = cm.subap_layer_positions[0][0]; lgs = cm.subap_layer_positions[0][1]
print("NGS-LGS separation error for the same sub-aperture (code vs true):",
      np.unique(np.round((lgs-ngs) - (true_centres*(1-h/H)-true_centres),6)), " expected 0; d*h/H =", d*h/H)
