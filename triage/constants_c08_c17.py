from math import gamma, pi
# ---- C08 constants as they appear in the code
B1 = (2 ** (-5. / 6)) * gamma(11. / 6) / (pi ** (8. / 3))
B2 = ((24. / 5) * gamma(6. / 5)) ** (5. / 6)
kC = B1*B2
kD = 0.17253
kK = 2*pi**(5./6.)/gamma(5./6.)
rel = lambda a,b: abs(a-b)/abs(b)
print("V1  kD*kK vs 2*kC*(2pi)^(5/6):", kD*kK, 2*kC*(2*pi)**(5/6), rel(kD*kK, 2*kC*(2*pi)**(5/6)))
print("V2  kK*(2pi)^(-5/6)*2^(-1/6)*Gamma(5/6) =", kK*(2*pi)**(-5/6)*2**(-1/6)*gamma(5/6))
print("V3  kD vs 2*kC*2^(-1/6)*Gamma(5/6):", kD, 2*kC*2**(-1/6)*gamma(5/6), rel(kD, 2*kC*2**(-1/6)*gamma(5/6)), " vs 2*0.0863:", rel(kD, 2*0.0863))
print("    C(0) coefficient:", kC*2**(-1/6)*gamma(5/6))
print("V4  2*B2 =", 2*B2, "vs 6.88:", rel(6.88, 2*B2), "vs 6.8839:", rel(6.8839, 2*B2))
psd = gamma(11/6)**2/(2*pi**(11/3))*B2
print("V5  PSD const:", psd, "vs 0.023:", rel(0.023, psd))
# ---- C17 I6
c = 0.314*0.423**(-3/5)*(2*pi)**(-6/5)
print("I6  0.314*0.423^(-3/5)*(2pi)^(-6/5) =", c, "vs 0.0581:", rel(0.0581, c))
print("I4  -0.4*5 =", -0.4*5, 10**(-0.4*5), " -1/2.5 =", -1/2.5)
