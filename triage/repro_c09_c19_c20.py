import sys; sys.path.insert(0,'/repo')
import warnings; warnings.filterwarnings('ignore')
import numpy as np, aotools, inspect
from aotools import fouriertransform as ftm
from aotools.turbulence import phasescreen
print("aotools.ift2 is", aotools.ift2.__module__, "| ft2:", aotools.ft2.__module__)
print("aotools exports numpy?", hasattr(aotools,'numpy'), hasattr(aotools,'fft'), hasattr(aotools, 'time'))
for N in (8,9):
    x = np.random.randn(N,N)+1j*np.random.randn(N,N)
    d=0.1
    X = aotools.ft2(x,d)
    print(N, "pkg ift2(ft2) err", abs(aotools.ift2(X,1/(N*d))-x).max(), " module err", abs(ftm.ift2(X,1/(N*d))-x).max())
for N in (8,9):
    x=np.random.randn(N); d=0.1
    X=ftm.rft(x,d); 
    try:
        y=ftm.irft(X,1/(N*d)); print("rft", N, y.shape, abs(y[:N]-x[:len(y)]).max() if len(y)==N else "len mismatch")
    except Exception as e: print("irft err", e)
x=np.random.randn(8,8)
X=ftm.rft2(x,0.1); print("rft2 shape", X.shape)
try:
    y=ftm.irft2(X,1/(8*0.1)); print("irft2 shape", y.shape)
except Exception as e: print("irft2 err", e)
from aotools.turbulence import turb
r = np.zeros(4, dtype=np.float32); r2=r.copy()
turb.phase_covariance(r, 0.1, 10.); print("phase_cov mutated float32 arg:", not np.array_equal(r.view('i4'), r2.view('i4')), r)
from aotools.turbulence import temporal_ps
s=np.random.randn(64,10)
a,_=temporal_ps.calc_slope_temporalps(s); b,_=temporal_ps.calc_slope_temporalps(2*s); print("tps ratio for 2x amplitude:", (b/a).mean())
from aotools.turbulence import slopecovariance as sc
ph = np.random.randn(32,32)
junk = np.full(8, 7.0); del junk
print("sf lag0 values over repeated calls:", [sc.calculate_structure_function(ph)[0] for _ in range(3)])
