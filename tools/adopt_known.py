#!/venv/bin/python
"""Dev aid (never run by a check): copy the findings of evidence/violations/<id>.json
into known_findings.json after they have been triaged by hand.
usage: adopt_known.py Cxx 'rule-prefix' 'repro' 'why_not_fixed'"""
import json, sys
prop, prefix, repro, why = sys.argv[1:5]
v = json.load(open('/verif/evidence/violations/%s.json' % prop))['violations']
k = json.load(open('/verif/known_findings.json'))
have = {(x['property'], x['rule'], x['key']) for x in k['known']}
n = 0
for f in v:
    if not f['rule'].startswith(prefix):
        continue
    if (f['property'], f['rule'], f['key']) in have:
        continue
    k['known'].append({'property': f['property'], 'rule': f['rule'], 'key': f['key'], 'what': f['message'],
                       'where': f['where'], 'repro': repro, 'why_not_fixed': why})
    n += 1
json.dump(k, open('/verif/known_findings.json', 'w'), indent=1)
print('adopted', n)
