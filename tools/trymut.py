#!/venv/bin/python
"""Dev aid: apply one textual edit to a scratch copy of /repo/aotools and run a check on it.
usage: trymut.py Cxx relpath 'old' 'new' [count]
"""
import os, shutil, subprocess, sys, tempfile
prop, rel, old, new = sys.argv[1:5]
d = tempfile.mkdtemp(prefix="aomut_")
try:
    shutil.copytree("/repo/aotools", os.path.join(d, "aotools"))
    p = os.path.join(d, rel)
    s = open(p).read()
    if old not in s:
        print("OLD TEXT NOT FOUND"); sys.exit(3)
    n = int(sys.argv[5]) if len(sys.argv) > 5 else 1
    s = s.replace(old, new, n)
    open(p, "w").write(s)
    compile(s, p, "exec")
    env = dict(os.environ, AOTOOLS_REPO=d, VERIF_EVIDENCE_DIR=os.path.join(d, "evidence"))
    r = subprocess.run(["/venv/bin/python", "/verif/run.py", prop], env=env, capture_output=True, text=True)
    print(r.stdout[-3000:], r.stderr[-2000:])
    print("exit", r.returncode)
finally:
    shutil.rmtree(d)
