#!/venv/bin/python
"""Dev aid: re-run checks against each kept behaviour-preserving change (/verif/benign/<id>/patch.diff) applied to a
scratch copy of /repo/aotools; every check must exit 0.  By default the property's own check and the checks that
alarmed at first contact are run; --all runs every claimed check.

usage: recheck_benign.py [ids...] [--all] [-v]
"""
import json
import os
import shutil
import subprocess
import sys
import tempfile
from multiprocessing.pool import ThreadPool

VERIF = "/verif"
PY = "/venv/bin/python"
ROOT = os.path.join(VERIF, "benign")


def run_check(prop, root):
    ed = tempfile.mkdtemp(prefix="evid_")
    env = dict(os.environ, AOTOOLS_REPO=root, VERIF_EVIDENCE_DIR=ed)
    r = subprocess.run([PY, os.path.join(VERIF, "run.py"), prop, "--tier", "quick"], env=env, capture_output=True, text=True)
    shutil.rmtree(ed, ignore_errors=True)
    lines = [l for l in r.stdout.splitlines() if l.startswith(("FINDING ", "ANALYSIS-ERROR"))]
    return r.returncode, lines


def one(name, allc, claimed):
    d = os.path.join(ROOT, name)
    meta = json.load(open(os.path.join(d, "meta.json")))
    if meta.get("retired"):
        return name, "retired"
    props = claimed if allc else sorted(set([meta["property"]] + list(meta.get("alarms_at_first_contact", {}))) & set(claimed))
    tmp = tempfile.mkdtemp(prefix="rbwt_")
    try:
        shutil.copytree("/repo/aotools", os.path.join(tmp, "aotools"), ignore=shutil.ignore_patterns("__pycache__"))
        ap = subprocess.run(["git", "apply", "--whitespace=nowarn", os.path.join(d, "patch.diff")], cwd=tmp, capture_output=True, text=True)
        if ap.returncode:
            return name, {"?": (3, ["patch does not apply: " + ap.stderr[:200]])}
        out = {}
        for p in props:
            code, lines = run_check(p, tmp)
            if code != 0:
                out[p] = (code, lines)
        return name, out
    finally:
        shutil.rmtree(tmp, ignore_errors=True)


def main():
    args = [a for a in sys.argv[1:] if not a.startswith("-")]
    allc = "--all" in sys.argv
    verbose = "-v" in sys.argv
    names = args or sorted(n for n in os.listdir(ROOT) if os.path.isdir(os.path.join(ROOT, n)))
    claimed = [c["property_id"] for c in json.load(open(os.path.join(VERIF, "MANIFEST.json")))["checks"]]
    with ThreadPool(8) as tp:
        res = tp.starmap(one, [(n, allc, claimed) for n in names])
    bad = 0
    retired = [n for n, out in res if out == "retired"]
    res = [(n, out) for n, out in res if out != "retired"]
    if retired:
        print("retired (patch written against an earlier repo commit, not replayed): %s" % " ".join(retired))
    for n, out in res:
        if out:
            bad += 1
            for p, (code, lines) in out.items():
                print("%s: ALARM %s exit=%s" % (n, p, code))
                if verbose:
                    for l in lines[:6]:
                        print("      " + l[:400])
    print("silent on %d/%d behaviour-preserving changes" % (len(res) - bad, len(res)))


if __name__ == "__main__":
    main()
