#!/venv/bin/python
"""Dev aid: re-run every claimed quick check against each kept seeded change and refresh
`detected_by` / `own_check` in /verif/seeded/<id>/meta.json.

Each change is applied to a scratch git worktree of /repo (outside /repo and /verif, removed afterwards);
the checks are pointed at it with AOTOOLS_REPO and write their evidence to a throw-away directory.

usage: recheck_seeded.py [ids...] [--own-only]
"""
import json
import os
import shutil
import subprocess
import sys
import tempfile
from multiprocessing.pool import ThreadPool

VERIF = "/verif"
PY = "/venv/bin/python"
SEEDED = os.path.join(VERIF, "seeded")


def sh(cmd, **kw):
    return subprocess.run(cmd, capture_output=True, text=True, **kw)


def run_check(prop, root):
    ed = tempfile.mkdtemp(prefix="evid_")
    env = dict(os.environ, AOTOOLS_REPO=root, VERIF_EVIDENCE_DIR=ed)
    r = sh([PY, os.path.join(VERIF, "run.py"), prop, "--tier", "quick"], env=env)
    shutil.rmtree(ed, ignore_errors=True)
    rules = sorted(set(l.split()[2] for l in r.stdout.splitlines() if l.startswith("FINDING ")))
    return r.returncode, rules


def one(name, own_only, claimed):
    d = os.path.join(SEEDED, name)
    meta = json.load(open(os.path.join(d, "meta.json")))
    prop = meta["property"]
    if meta.get("retired"):
        return name, "retired (%s)" % meta["retired"].get("by_repo_commit")
    wt = tempfile.mkdtemp(prefix="rswt_")
    os.rmdir(wt)
    r = sh(["git", "-C", "/repo", "worktree", "add", "-q", "--detach", wt, "HEAD"])
    if r.returncode:
        return name, "worktree failed: " + r.stderr
    try:
        ap = sh(["git", "-C", wt, "apply", "--whitespace=nowarn", os.path.join(d, "patch.diff")])
        if ap.returncode:
            return name, "patch does not apply: " + ap.stderr[:200]
        code, rules = run_check(prop, wt)
        meta["own_check"] = {"exit": code, "rules": rules}
        det = [prop] if code == 1 else []
        if not own_only:
            for p in claimed:
                if p == prop:
                    continue
                c, _ = run_check(p, wt)
                if c == 1:
                    det.append(p)
        else:
            det += [p for p in meta.get("detected_by", []) if p != prop]
        meta["detected_by"] = sorted(set(det))
        json.dump(meta, open(os.path.join(d, "meta.json"), "w"), indent=1)
        return name, "own exit=%s rules=%s detected_by=%s" % (code, rules, meta["detected_by"])
    finally:
        sh(["git", "-C", "/repo", "worktree", "remove", "--force", wt])
        shutil.rmtree(wt, ignore_errors=True)


def main():
    args = [a for a in sys.argv[1:] if not a.startswith("--")]
    own_only = "--own-only" in sys.argv
    names = args or sorted(os.listdir(SEEDED))
    claimed = [c["property_id"] for c in json.load(open(os.path.join(VERIF, "MANIFEST.json")))["checks"]]
    with ThreadPool(8) as tp:
        res = tp.starmap(one, [(n, own_only, claimed) for n in names])
    miss = 0
    retired = 0
    for n, msg in res:
        print(n, msg)
        if msg.startswith("retired"):
            retired += 1
        elif "own exit=1" not in msg:
            miss += 1
    print("own-check detection: %d/%d%s" % (len(res) - retired - miss, len(res) - retired, " (%d retired)" % retired if retired else ""))


if __name__ == "__main__":
    main()
