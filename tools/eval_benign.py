#!/venv/bin/python
"""Dev aid: confirm a sub-agent's behaviour-preserving change and see whether any check raises an alarm on it.

usage: eval_benign.py <dir with patchK.diff demoK.py refK.* metaK.json> <prop> <k> [--keep NAME]

In a scratch git worktree of /repo under /tmp (removed afterwards):
  1. demo (compares with the reference values recorded on the unchanged tree) passes on the unchanged tree
  2. the patch applies and the demo still passes
  3. the pinned suite on the patched tree still passes every BASELINE test
  4. every claimed check is run against the patched tree: each must exit 0 (anything else is a false alarm)
With --keep NAME the change is copied to /verif/benign/NAME/ with an extended meta.json.
"""
import glob
import json
import os
import shutil
import subprocess
import sys
import tempfile

sys.path.insert(0, os.path.dirname(os.path.abspath(__file__)))
from eval_seed import sh, run_check, suite, VERIF, PY


def main():
    src, prop, k = sys.argv[1], sys.argv[2], sys.argv[3]
    keep = sys.argv[sys.argv.index("--keep") + 1] if "--keep" in sys.argv else None
    patch = os.path.join(src, "patch%s.diff" % k)
    demo = os.path.join(src, "demo%s.py" % k)
    meta = os.path.join(src, "meta%s.json" % k)
    refs = [p for p in glob.glob(os.path.join(src, "ref%s.*" % k))]
    for p in (patch, demo):
        if not os.path.exists(p):
            print("missing", p)
            return 3
    wt = tempfile.mkdtemp(prefix="evwt_")
    os.rmdir(wt)
    r = sh(["git", "-C", "/repo", "worktree", "add", "-q", "--detach", wt, "HEAD"])
    if r.returncode:
        print(r.stderr)
        return 3
    out = {"property": prop, "k": k}
    try:
        os.makedirs(os.path.join(wt, "SEED"))
        for p in [demo] + refs:
            shutil.copy(p, os.path.join(wt, "SEED", os.path.basename(p)))
        env = dict(os.environ, AOTOOLS_ROOT=wt)
        env.pop("MAKE_REF", None)
        d0 = sh([PY, "SEED/" + os.path.basename(demo)], env=env, cwd=wt, timeout=900)
        out["demo_unchanged_exit"] = d0.returncode
        ap = sh(["git", "-C", wt, "apply", "--whitespace=nowarn", patch])
        out["patch_applies"] = ap.returncode == 0
        if ap.returncode:
            print("patch does not apply:", ap.stderr[:400])
            print(json.dumps(out))
            return 3
        d1 = sh([PY, "SEED/" + os.path.basename(demo)], env=env, cwd=wt, timeout=900)
        out["demo_patched_exit"] = d1.returncode
        out["demo_patched_tail"] = (d1.stdout + d1.stderr)[-300:]
        shutil.rmtree(os.path.join(wt, "SEED"))
        missing, npass = suite(wt)
        out["suite_missing_baseline_tests"] = missing
        out["suite_passed"] = npass
        man = json.load(open(os.path.join(VERIF, "MANIFEST.json")))
        alarms = {}
        for c in man["checks"]:
            p = c["property_id"]
            code, rules, first = run_check(p, wt)
            if code != 0:
                alarms[p] = {"exit": code, "rules": rules, "first": [f[:400] for f in first]}
        out["alarms"] = alarms
        print(json.dumps(out, indent=1))
        ok = out["demo_unchanged_exit"] == 0 and out["demo_patched_exit"] == 0 and not missing
        print("CONFIRMED-BENIGN" if ok else "NOT-CONFIRMED", "| checks:", "SILENT" if not alarms else "ALARM %s" % sorted(alarms))
        if keep and ok:
            dst = os.path.join(VERIF, "benign", keep)
            os.makedirs(dst, exist_ok=True)
            shutil.copy(patch, os.path.join(dst, "patch.diff"))
            shutil.copy(demo, os.path.join(dst, "demo.py"))
            for p in refs:
                if os.path.getsize(p) < 2_000_000:
                    shutil.copy(p, os.path.join(dst, os.path.basename(p)))
            m = json.load(open(meta)) if os.path.exists(meta) else {}
            m.update({"property": prop, "demo_name": os.path.basename(demo),
                      "confirmed": {"demo_unchanged_exit": out["demo_unchanged_exit"], "demo_patched_exit": out["demo_patched_exit"],
                                    "baseline_tests_missing_with_patch": missing, "suite_passed_with_patch": npass},
                      "what_was_run": ["demo (reference values recorded on the unchanged tree) on a scratch worktree of /repo HEAD, unchanged then patched",
                                       "pinned suite on the patched worktree vs BASELINE.json",
                                       "AOTOOLS_REPO=<patched worktree> /venv/bin/python run.py <every claimed property> --tier quick"],
                      "alarms_at_first_contact": alarms})
            json.dump(m, open(os.path.join(dst, "meta.json"), "w"), indent=1)
            print("kept as", dst)
        return 0
    finally:
        sh(["git", "-C", "/repo", "worktree", "remove", "--force", wt])


if __name__ == "__main__":
    sys.exit(main())
