#!/venv/bin/python
"""Dev aid: confirm a sub-agent's seeded change and see which checks catch it.

usage: eval_seed.py <dir with patchK.diff demoK.py metaK.json> <prop> <k> [--keep NAME] [--all]

Steps (all in a scratch git worktree of /repo under /tmp, removed afterwards):
  1. demo on the unchanged tree must PASS (exit 0)
  2. patch applies; demo on the patched tree must FAIL (exit != 0)
  3. the pinned suite on the patched tree still passes every BASELINE test
  4. run the property's quick check (and with --all every claimed check) against the patched tree
With --keep NAME the triple is copied to /verif/seeded/NAME/ with an extended meta.json.
"""
import json
import os
import shutil
import subprocess
import sys
import tempfile
import xml.etree.ElementTree as ET

VERIF = "/verif"
PY = "/venv/bin/python"


def sh(cmd, **kw):
    return subprocess.run(cmd, shell=isinstance(cmd, str), capture_output=True, text=True, **kw)


def run_check(prop, root):
    ed = tempfile.mkdtemp(prefix="evid_")
    env = dict(os.environ, AOTOOLS_REPO=root, VERIF_EVIDENCE_DIR=ed)
    r = sh([PY, os.path.join(VERIF, "run.py"), prop, "--tier", "quick"], env=env)
    shutil.rmtree(ed, ignore_errors=True)
    rules = sorted(set(l.split()[2] for l in r.stdout.splitlines() if l.startswith("FINDING ")))
    first = [l for l in r.stdout.splitlines() if l.startswith("FINDING ")][:3]
    return r.returncode, rules, first


def suite(root):
    b = json.load(open("/root/.vp/BASELINE.json"))
    fd, path = tempfile.mkstemp(suffix=".xml")
    os.close(fd)
    sh("cd %s && %s -m pytest -q -p no:cacheprovider --timeout=900 --continue-on-collection-errors --junitxml=%s >/dev/null 2>&1" % (root, PY, path))
    passed = set()
    try:
        for tc in ET.parse(path).getroot().iter("testcase"):
            if not any(ch.tag in ("failure", "error", "skipped") for ch in tc):
                passed.add("%s::%s" % (tc.get("classname"), tc.get("name")))
    finally:
        os.remove(path)
    return sorted(set(b["stable_pass"]) - passed), len(passed)


def main():
    src, prop, k = sys.argv[1], sys.argv[2], sys.argv[3]
    keep = sys.argv[sys.argv.index("--keep") + 1] if "--keep" in sys.argv else None
    patch = os.path.join(src, "patch%s.diff" % k)
    demo = os.path.join(src, "demo%s.py" % k)
    meta = os.path.join(src, "meta%s.json" % k)
    for p in (patch, demo):
        if not os.path.exists(p):
            print("missing", p)
            return 3
    wt = tempfile.mkdtemp(prefix="evwt_")
    os.rmdir(wt)
    r = sh(["git", "-C", "/repo", "worktree", "add", "-q", wt, "HEAD"])
    if r.returncode:
        print(r.stderr)
        return 3
    out = {"property": prop, "k": k}
    try:
        d0 = sh([PY, demo], env=dict(os.environ, AOTOOLS_ROOT=wt), cwd=wt, timeout=600)
        out["demo_unchanged_exit"] = d0.returncode
        ap = sh(["git", "-C", wt, "apply", "--whitespace=nowarn", patch])
        out["patch_applies"] = ap.returncode == 0
        if ap.returncode:
            print("patch does not apply:", ap.stderr[:400])
            print(json.dumps(out))
            return 3
        d1 = sh([PY, demo], env=dict(os.environ, AOTOOLS_ROOT=wt), cwd=wt, timeout=600)
        out["demo_patched_exit"] = d1.returncode
        out["demo_patched_tail"] = (d1.stdout + d1.stderr)[-300:]
        missing, npass = suite(wt)
        out["suite_missing_baseline_tests"] = missing
        out["suite_passed"] = npass
        props = [prop]
        if "--all" in sys.argv:
            man = json.load(open(os.path.join(VERIF, "MANIFEST.json")))
            props = [c["property_id"] for c in man["checks"]]
        det = {}
        for p in props:
            code, rules, first = run_check(p, wt)
            det[p] = {"exit": code, "rules": rules}
            if p == prop:
                out["own_check_exit"] = code
                out["own_check_rules"] = rules
                out["own_check_first"] = [f[:300] for f in first]
        out["detected_by"] = sorted(p for p, v in det.items() if v["exit"] == 1)
        out["checks"] = det
        print(json.dumps(out, indent=1))
        ok = out["demo_unchanged_exit"] == 0 and out["demo_patched_exit"] != 0 and not missing
        print("CONFIRMED" if ok else "NOT-CONFIRMED", "| own check:", "DETECTED" if out.get("own_check_exit") == 1 else "exit %s" % out.get("own_check_exit"))
        if keep and ok:
            dst = os.path.join(VERIF, "seeded", keep)
            os.makedirs(dst, exist_ok=True)
            shutil.copy(patch, os.path.join(dst, "patch.diff"))
            shutil.copy(demo, os.path.join(dst, "demo.py"))
            m = json.load(open(meta)) if os.path.exists(meta) else {}
            m.update({"property": prop, "confirmed": {"demo_unchanged_exit": out["demo_unchanged_exit"], "demo_patched_exit": out["demo_patched_exit"],
                                                       "baseline_tests_missing_with_patch": missing, "suite_passed_with_patch": npass},
                      "what_was_run": ["AOTOOLS_ROOT=<scratch worktree of /repo HEAD> /venv/bin/python demo.py (unchanged, then patched)",
                                       "pinned suite on the patched worktree vs BASELINE.json",
                                       "AOTOOLS_REPO=<patched worktree> /venv/bin/python run.py <prop> --tier quick"],
                      "detected_by": out["detected_by"], "own_check": {"exit": out.get("own_check_exit"), "rules": out.get("own_check_rules")}})
            json.dump(m, open(os.path.join(dst, "meta.json"), "w"), indent=1)
            print("kept as", dst)
        return 0
    finally:
        sh(["git", "-C", "/repo", "worktree", "remove", "--force", wt])


if __name__ == "__main__":
    sys.exit(main())
