#!/venv/bin/python
"""Dev aid: run the pinned suite and compare with BASELINE.json's stable_pass."""
import json, subprocess, sys, tempfile, os, xml.etree.ElementTree as ET
b = json.load(open("/root/.vp/BASELINE.json"))
fd, path = tempfile.mkstemp(suffix=".xml"); os.close(fd)
subprocess.run("cd /repo && /venv/bin/python -m pytest -ra -q -p no:cacheprovider --timeout=900 --continue-on-collection-errors --junitxml=%s >/dev/null 2>&1" % path, shell=True)
passed = set()
for tc in ET.parse(path).getroot().iter("testcase"):
    if not any(ch.tag in ("failure", "error", "skipped") for ch in tc):
        passed.add("%s::%s" % (tc.get("classname"), tc.get("name")))
os.remove(path)
missing = sorted(set(b["stable_pass"]) - passed)
print("passed %d, baseline %d, missing %s, newly passing %s" % (len(passed), len(b["stable_pass"]), missing, sorted(passed - set(b["stable_pass"]))))
sys.exit(1 if missing else 0)
