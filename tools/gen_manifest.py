#!/venv/bin/python
"""Regenerates /verif/MANIFEST.json from the table below (development aid)."""
import json
import os

HERE = os.path.dirname(os.path.dirname(os.path.abspath(__file__)))
PY = "/venv/bin/python"
BASELINE = ("cd /repo && /venv/bin/python -m pytest -ra -q -p no:cacheprovider --timeout=900 "
            "--continue-on-collection-errors")

CLAIMS = {
    "C17": dict(
        category="proof", design="DESIGN.md §3 C17",
        technique="static analysis: abstract interpretation of the converter bodies to power-law normal forms; identities decided by normal-form algebra",
        text=("Every converter in atmos_conversions.py and _astronomy.py is reduced, from its AST, to an exact power-law "
              "normal form; inverse pairs (both directions), composites, all stated exponents, the factor-100 rule, "
              "proportionality to area and time, the single-layer 0.314 relations, the axis argument and the band table "
              "are decided as identities between normal forms - for every positive argument, not sampled ones."),
        note=("Trusted: CPython ast; the PLF algebra in sa/plf.py; floating-point rounding of the library is excluded; "
              "published-constant relation (0.0581 vs 0.314) checked to 4e-3 as the property allows.")),
}

NOT_APPLICABLE = {
    "C13": ("every clause is about the output of eigh / eigenvalue sorting / bilinear resampling error computed at "
            "run time; no code-shape fact is a necessary condition that static analysis can decide (DESIGN §5)"),
}

PENDING_REASON = "clauses decidable in principle (DESIGN §3) but the checker is not built yet; not claimed through a weaker proxy"


def main():
    props = [json.loads(l) for l in open(os.path.join(HERE, "properties.jsonl"))]
    checks = []
    na = []
    for p in props:
        pid = p["id"]
        if pid in CLAIMS and os.path.exists(os.path.join(HERE, "sa", "props", pid.lower() + ".py")):
            c = CLAIMS[pid]
            checks.append({
                "property_id": pid,
                "quick_cmd": "%s run.py %s --tier quick" % (PY, pid),
                "thorough_cmd": "%s run.py %s --tier thorough" % (PY, pid),
                "evidence_file": "evidence/%s.json" % pid,
                "replay_cmd_template": "%s run.py %s --explain {path}" % (PY, pid),
                "engine": "sa",
                "level_claimed": {"category": c["category"], "text": c["text"], "design_ref": c["design"]},
                "level_note": c["note"],
                "technique": c["technique"],
            })
        else:
            na.append({"property_id": pid, "reason": NOT_APPLICABLE.get(pid, PENDING_REASON)})
    man = {
        "version": 1,
        "setup_cmd": "%s -m compileall -q sa run.py tools" % PY,
        "hooks": {"guard": "AOTOOLS_VERIF",
                  "enable": "none needed: the checks analyse /repo's source text only and never import aotools",
                  "baseline_off_cmd": BASELINE,
                  "source_commits": [],
                  "add_only": True},
        "engines": [{"name": "sa", "path": "sa/",
                     "serves_properties": [c["property_id"] for c in checks],
                     "kind_free_text": "purpose-built static analyser on CPython ast: name/export resolver and call graph (RES), "
                                       "alias/mutation/effect analysis (FX), power-law normal-form abstract interpreter (PLF), "
                                       "FFT-wrapper shift/scale algebra (SHIFT), index/loop-nest rules (IDX), RNG provenance (RNG)"}],
        "checks": checks,
        "not_applicable": na,
        "notes": "All checks are static: they parse /repo/aotools with ast under /venv/bin/python and never import or run aotools. "
                 "Exit 0 held / 1 VIOLATION / 2 ANALYSIS-ERROR (anchor vanished or idiom unrecognised; never a silent pass).",
    }
    with open(os.path.join(HERE, "MANIFEST.json"), "w") as fh:
        json.dump(man, fh, indent=1)
    print("claimed:", [c["property_id"] for c in checks])
    print("not applicable:", [n["property_id"] for n in na])


if __name__ == "__main__":
    main()
