#!/venv/bin/python
"""Regenerates /verif/MANIFEST.json from the table below (development aid)."""
import json
import os

HERE = os.path.dirname(os.path.dirname(os.path.abspath(__file__)))
PY = "/venv/bin/python"
BASELINE = ("cd /repo && /venv/bin/python -m pytest -ra -q -p no:cacheprovider --timeout=900 "
            "--continue-on-collection-errors")

CLAIMS = {
    "C17": dict(
        category="proof", design="DESIGN.md §3 C17",
        technique="static analysis: abstract interpretation of the converter bodies to power-law normal forms; identities decided by normal-form algebra",
        text=("Every converter in atmos_conversions.py and _astronomy.py is reduced, from its AST, to an exact power-law "
              "normal form; inverse pairs (both directions), composites, all stated exponents, the factor-100 rule, "
              "proportionality to area and time, the single-layer 0.314 relations, the axis argument and the band table "
              "are decided as identities between normal forms - for every positive argument, not sampled ones."),
        note=("Trusted: CPython ast; the PLF algebra in sa/plf.py; floating-point rounding of the library is excluded; "
              "published-constant relation (0.0581 vs 0.314) checked to 4e-3 as the property allows.")),
}

CLAIMS.update({
    "C20": dict(
        category="proof", design="DESIGN.md §3 C20, App. D",
        technique="static analysis: inter-procedural may-alias / may-mutate abstract interpretation (FX) over every public function and parameter, plus hidden-state rules",
        text=("For every public function/method and every parameter the FX analysis (per-branch states, loop fixpoints, view/alias "
              "tracking through numpy view operations, out= arguments, attribute stores, repo callees via summaries, constructor "
              "arguments kept on self) shows that no in-place sink can reach the argument object; module/class/function state, "
              "memoisation and mutated mutable defaults are excluded structurally. The 'stack = per item' clause is not decided here."),
        note=("Trusted: CPython ast; the explicit numpy view / in-place tables in sa/fx.py; library calls outside those tables do not "
              "modify their arguments; parameters documented as int/float/str/bool/tuple are immutable scalars. A positive control "
              "(embedded snippet) must fire on every run.")),
    "C09": dict(
        category="other", design="DESIGN.md §3 C09",
        technique="static analysis: abstract interpretation of the FFT wrappers to shift/transform/shift*scale normal forms; shift-group and scale algebra; star-import replay for exports",
        text=("Inverse-pair, Parseval-scale and centring clauses are decided on the normal forms of ft/ift/ft2/ift2 (and the real "
              "variants) for every length N and batch shape: inverse shifts, axes sets, product of scales equal to 1 at "
              "delta_f = 1/(N delta), canonical ifftshift/fftshift centring; what aotools.<name> binds to is decided by replaying "
              "the package's imports. Quadrature accuracy of the DFT is not decided. Known findings: the real-input variants."),
        note="Trusted: numpy.fft normalisation and shift definitions; 2-D wrappers are used on square trailing axes."),
    "C10": dict(
        category="proof", design="DESIGN.md §3 C10",
        technique="static analysis: abstract interpretation to rational/exponential normal forms with a linear-field sub-domain; power gain identity decided by rational-function algebra",
        text=("For all four propagators (every path, repo ft2/ift2 inlined from the current tree) the output is shown to be "
              "complex-linear in the input field, every array multiplier to have constant modulus, and gain*d_out^2/d_in^2 to be "
              "identically 1 as a rational function of wavelength, spacings and distances of either sign."),
        note="Trusted: Parseval for numpy's unnormalised DFT on an N x N grid; all scalar parameters real; z != 0."),
    "C11": dict(
        category="other", design="DESIGN.md §3 C11",
        technique="static analysis: normal forms of the propagators compared with analyser-side oracle definitions evaluated by the same abstract interpreter; one-parameter-group structure from the transfer function's normal form",
        text=("Decides: unit-magnification angular spectrum = F^-1 exp(z L) F with L input-independent and imaginary, with exactly "
              "inverse ft2/ift2 (group law, -z undoes +z, z = 0 returns the input); every propagator's normal form equals the textbook "
              "discretisation of the Fresnel integral (kernel sign, 1/(i lambda z), grids), and the two-step propagator equals two "
              "chained one-step propagations. Not decided: Gaussian-beam/Airy references, magnification round trip up to a phase."),
        note="Trusted: oracle text in sa/props/c11.py (Schmidt 2010); numpy ifft2 o fft2 = id; square grids."),
    "C07": dict(
        category="other", design="DESIGN.md §3 C07",
        technique="static analysis: abstract interpretation of the screen generators (loops summarised, not unrolled) to a normal form in draws/grids/parameters, compared with the spectral law of the property; degree queries",
        text=("Both FFT screen generators are reduced to normal forms and shown equal to the law in the property (PSD constants and "
              "exponents, frequency grid k/(N delta), zero-frequency bin, (n1 + i n2) sqrt(PSD) del_f coefficients, plain inverse "
              "DFT sum, real part; three sub-harmonic 3x3 grids, mean removal); linear in each draw and r0^(-5/6). Statistical "
              "convergence clauses are not decided."),
        note="Trusted: oracle text in sa/props/c07.py; even N (hypothesis of the property); numpy ifft2 normalisation."),
    "C08": dict(
        category="other", design="DESIGN.md §3 C08",
        technique="static analysis: power-law/Bessel normal forms of the closed-form statistics; constant, exponent and Bessel-parameter identities",
        text=("D = 2(C(0)-C(r)) term by term, D(0) = 0 exactly, saturation 2*0.0863, Kolmogorov limit and constants, PSD constant and "
              "exponents in both screen generators, r0^(-5/3) scaling, and exact agreement of the slope-covariance and KL copies are "
              "decided as identities between normal forms for all r, r0, L0. Monotonicity / PSD-ness / the Hankel integral are not."),
        note="Trusted: small-argument expansion of K_v; published constants compared with per-identity tolerances (1e-3, 2.5e-2)."),
})

NOT_APPLICABLE = {
    "C13": ("every clause is about the output of eigh / eigenvalue sorting / bilinear resampling error computed at "
            "run time; no code-shape fact is a necessary condition that static analysis can decide (DESIGN §5)"),
}

PENDING_REASON = "clauses decidable in principle (DESIGN §3) but the checker is not built yet; not claimed through a weaker proxy"


def main():
    props = [json.loads(l) for l in open(os.path.join(HERE, "properties.jsonl"))]
    checks = []
    na = []
    for p in props:
        pid = p["id"]
        if pid in CLAIMS and os.path.exists(os.path.join(HERE, "sa", "props", pid.lower() + ".py")):
            c = CLAIMS[pid]
            checks.append({
                "property_id": pid,
                "quick_cmd": "%s run.py %s --tier quick" % (PY, pid),
                "thorough_cmd": "%s run.py %s --tier thorough" % (PY, pid),
                "evidence_file": "evidence/%s.json" % pid,
                "replay_cmd_template": "%s run.py %s --explain {path}" % (PY, pid),
                "engine": "sa",
                "level_claimed": {"category": c["category"], "text": c["text"], "design_ref": c["design"]},
                "level_note": c["note"],
                "technique": c["technique"],
            })
        else:
            na.append({"property_id": pid, "reason": NOT_APPLICABLE.get(pid, PENDING_REASON)})
    man = {
        "version": 1,
        "setup_cmd": "%s -m compileall -q sa run.py tools" % PY,
        "hooks": {"guard": "AOTOOLS_VERIF",
                  "enable": "none needed: the checks analyse /repo's source text only and never import aotools",
                  "baseline_off_cmd": BASELINE,
                  "source_commits": [],
                  "add_only": True},
        "engines": [{"name": "sa", "path": "sa/",
                     "serves_properties": [c["property_id"] for c in checks],
                     "kind_free_text": "purpose-built static analyser on CPython ast: name/export resolver and call graph (RES), "
                                       "alias/mutation/effect analysis (FX), power-law normal-form abstract interpreter (PLF), "
                                       "FFT-wrapper shift/scale algebra (SHIFT), index/loop-nest rules (IDX), RNG provenance (RNG)"}],
        "checks": checks,
        "not_applicable": na,
        "notes": "All checks are static: they parse /repo/aotools with ast under /venv/bin/python and never import or run aotools. "
                 "Exit 0 held / 1 VIOLATION / 2 ANALYSIS-ERROR (anchor vanished or idiom unrecognised; never a silent pass).",
    }
    with open(os.path.join(HERE, "MANIFEST.json"), "w") as fh:
        json.dump(man, fh, indent=1)
    print("claimed:", [c["property_id"] for c in checks])
    print("not applicable:", [n["property_id"] for n in na])


if __name__ == "__main__":
    main()
