#!/venv/bin/python
"""Regenerates /verif/MANIFEST.json from the table below (development aid)."""
import json
import os

HERE = os.path.dirname(os.path.dirname(os.path.abspath(__file__)))
PY = "/venv/bin/python"
BASELINE = ("cd /repo && /venv/bin/python -m pytest -ra -q -p no:cacheprovider --timeout=900 "
            "--continue-on-collection-errors")

CLAIMS = {
    "C17": dict(
        category="proof", design="DESIGN.md §3 C17",
        technique="static analysis: abstract interpretation of the converter bodies to power-law normal forms; identities decided by normal-form algebra",
        text=("Every converter in atmos_conversions.py and _astronomy.py is reduced, from its AST, to an exact power-law "
              "normal form; inverse pairs (both directions), composites, all stated exponents, the factor-100 rule, "
              "proportionality to area and time, the single-layer 0.314 relations, the axis argument, the band table and the absence of integer "
              "powers of possibly-integer profiles (overflow) "
              "are decided as identities between normal forms - for every positive argument, not sampled ones."),
        note=("Trusted: CPython ast; the PLF algebra in sa/plf.py; floating-point rounding of the library is excluded; "
              "published-constant relation (0.0581 vs 0.314) checked to 4e-3 as the property allows.")),
}

CLAIMS.update({
    "C20": dict(
        category="proof", design="DESIGN.md §3 C20, App. D",
        technique="static analysis: inter-procedural may-alias / may-mutate abstract interpretation (FX) over every public function and parameter, hidden-state rules, and a taint + backward-slice axis-discipline rule for the batch clause",
        text=("For every public function/method and every parameter the FX analysis (per-branch states, loop fixpoints, view/alias "
              "tracking through numpy view operations, out= arguments, attribute stores, repo callees via summaries, constructor "
              "arguments kept on self) shows that no in-place sink can reach the argument object; module/class/function state, "
              "memoisation and mutated mutable defaults are excluded structurally, and no method modifies in place an attribute that only "
              "the constructor assigns (P2.instance-config). Batch clause: for the documented trailing-axes functions "
              "(Fourier wrappers, temporal power spectrum, profile integrals) nothing on the backward slice of the result reads a leading "
              "axis (shape index >= 0, len, size, non-negative or all-axes axis argument, subscripts not starting with an Ellipsis); the "
              "rank-dispatching image functions, and the helpers they hand the whole stack to, take no all-axes reduction or element move "
              "(fftshift / flip / roll without axes) on their stack path (per-item results); the centroid moments are decided by C15."),
        note=("Trusted: CPython ast; the explicit numpy view / in-place tables in sa/fx.py; library calls outside those tables do not "
              "modify their arguments; parameters documented as int/float/str/bool/tuple are immutable scalars. A positive control "
              "(embedded snippet) must fire on every run.")),
    "C09": dict(
        category="other", design="DESIGN.md §3 C09",
        technique="static analysis: abstract interpretation of the FFT wrappers to shift/transform/shift*scale normal forms; shift-group and scale algebra; star-import replay for exports",
        text=("Inverse-pair, Parseval-scale and centring clauses are decided on the normal forms of ft/ift/ft2/ift2 (and the real "
              "variants) for every length N and batch shape: inverse shifts, axes sets, product of scales equal to 1 at "
              "delta_f = 1/(N delta), canonical ifftshift/fftshift centring (also when written as numpy.roll: parity analysis of the roll "
              "amount); what aotools.<name> binds to is decided by replaying "
              "the package's imports; the grid-spacing factor is applied to the transform's output, along the transformed (trailing) axes. Quadrature accuracy of the DFT is not decided. Known findings: the real-input variants."),
        note="Trusted: numpy.fft normalisation and shift definitions; 2-D wrappers are used on square trailing axes."),
    "C10": dict(
        category="proof", design="DESIGN.md §3 C10",
        technique="static analysis: abstract interpretation to rational/exponential normal forms with a linear-field sub-domain; power gain identity decided by rational-function algebra",
        text=("For all four propagators (every path, repo ft2/ift2 inlined from the current tree) the output is shown to be "
              "complex-linear in the input field, every array multiplier to have constant modulus, and gain*d_out^2/d_in^2 to be "
              "identically 1 as a rational function of wavelength, spacings and distances of either sign."),
        note="Trusted: Parseval for numpy's unnormalised DFT on an N x N grid; all scalar parameters real; z != 0."),
    "C11": dict(
        category="other", design="DESIGN.md §3 C11",
        technique="static analysis: normal forms of the propagators compared with analyser-side oracle definitions evaluated by the same abstract interpreter; one-parameter-group structure from the transfer function's normal form",
        text=("Decides: unit-magnification angular spectrum = F^-1 exp(z L) F with L input-independent and imaginary, with exactly "
              "inverse ft2/ift2 (group law, -z undoes +z, z = 0 returns the input); every propagator's normal form equals the textbook "
              "discretisation of the Fresnel integral (kernel sign, 1/(i lambda z), grids), and the two-step propagator equals two "
              "chained one-step evaluations (forward or mirrored kernel) whose final true sample spacing is +d2 on every feasible sign of the "
              "step distances (orientation; the same for the one-step routine); no special case is dispatched through ZeroDivisionError, "
              "no constant is added to a squared radius inside a chirp; a special-cased unit-magnification path is admitted only under outputSpacing == inputSpacing. Not decided: Gaussian-beam/Airy references, magnification round trip up to a phase."),
        note="Trusted: oracle text in sa/props/c11.py (Schmidt 2010); numpy ifft2 o fft2 = id; square grids."),
    "C07": dict(
        category="other", design="DESIGN.md §3 C07",
        technique="static analysis: abstract interpretation of the screen generators (loops summarised, not unrolled) to a normal form in draws/grids/parameters, compared with the spectral law of the property; degree queries",
        text=("Both FFT screen generators are reduced to normal forms and shown equal to the law in the property (PSD constants and "
              "exponents, frequency grid k/(N delta), zero-frequency bin, (n1 + i n2) sqrt(PSD) del_f coefficients, plain inverse "
              "DFT sum, real part; three sub-harmonic 3x3 grids, mean removal); all draws of one screen from one generator stream (no two "
              "generators started from the same seed); linear in each draw and r0^(-5/6). Statistical "
              "convergence clauses are not decided."),
        note="Trusted: oracle text in sa/props/c07.py; even N (hypothesis of the property); numpy ifft2 normalisation."),
    "C08": dict(
        category="other", design="DESIGN.md §3 C08",
        technique="static analysis: power-law/Bessel normal forms of the closed-form statistics; constant, exponent and Bessel-parameter identities",
        text=("D = 2(C(0)-C(r)) term by term, D(0) = 0 exactly (as the limit of the closed form AND as the value the code computes at exactly r = 0: "
              "supplied explicitly or the argument kept off 0), saturation 2*0.0863, Kolmogorov limit and constants, PSD constant and "
              "exponents in both screen generators, r0^(-5/3) scaling, and exact agreement of the slope-covariance and KL copies are "
              "decided as identities between normal forms for all r, r0, L0; no result array takes the dtype of an integer argument and no closed form is narrowed below double precision. Monotonicity / PSD-ness / the Hankel integral are not."),
        note="Trusted: small-argument expansion of K_v; published constants compared with per-identity tolerances (1e-3, 2.5e-2)."),
})

CLAIMS.update({
    "C19": dict(
        category="other", design="DESIGN.md §3 C19",
        technique="static analysis: loop body analysed once with the lag symbolic; stored value/index compared with the definition as normal forms; affine index-coverage of allocations; degree queries",
        text=("Structure-function estimator: stored value == mean((phase[:-i]-phase[i:])**2) at index i/step, written-index set vs "
              "allocation (an element of a numpy.empty result never written is a violation; lag 0 must be 0), number of lags bounded by the "
              "extent of the shifted axis, degree 2 in the data; temporal power spectrum and its frequency axis equal their definitions "
              "as normal forms (every bin strictly below Nyquist, ceil(n/2) of them), same truncation. Agreement "
              "with analytic structure functions on generated screens is not decided."),
        note="Trusted: numpy.fft.fftfreq contract; numpy.empty returns uninitialised memory; step is a positive integer."),
    "C18": dict(
        category="other", design="DESIGN.md §3 C18",
        technique="static analysis: label bookkeeping (edges produced vs labels consumed), affine index coverage, normal-form slab identities, interval tiling with a trip-count case split, oracle comparison of the GCTM problem set-up, exponent range analysis of optimiser callbacks",
        text=("equivalent_layers: number of slab edges equals L by construction (a float-step arange is a violation), first edge = "
              "h.min(), digitize labels = labels consumed, outputs of length L fully written, slab-wise strength and 5/3-moment "
              "identities; optimal grouping: the split->group conversion tiles [0, N) into len(splits)+1 contiguous groups for every "
              "number of splits including 0; GCTM: moments, least-squares objective, target, starting point, bounds and the mapping of the "
              "optimiser's answer back to heights/strengths equal their definitions as normal forms, and every callback handed to the "
              "optimiser is finite on the feasible box (exponent lower-bound analysis); heights and strengths are returned in one order; the random-restart "
              "loop replaces (cost, grouping) together or not at all; allocation dtypes; no hidden state. Optimality of "
              "the grouping and what the optimiser converges to are not decided."),
        note="Trusted: numpy.digitize / numpy.arange length contracts; scipy.optimize.minimize honours fun/x0/args/bounds; L positive integer."),
    "C15": dict(
        category="other", design="DESIGN.md §3 C15",
        technique="static analysis: per-path normal forms of the centroiders; homogeneity-degree queries; branch-sibling agreement; comparison with oracle definitions",
        text=("Scale invariance of every centroider on every rank path (degree 0 in the image), agreement of the 2-D and N-D threshold "
              "transforms and per-frame reductions (stack = frames; no reduction over a whole stack where the contract is per frame), moment formulas and (x, y) order, rank-threshold of "
              "brightest_pixel, cross-correlation formula and padding offset (n p)//2 - n//2 (both components), no array carried from one frame to the next "
              "through a second name, quad-cell numerator. Exact shift equivariance and "
              "correlation peak position are not decided. Known findings: quadCell not normalised; centre_of_gravity 2-D vs N-D."),
        note="Trusted: homogeneity table of numpy reductions in sa/plf.py; min_threshold = 0; images non-negative."),
    "C14": dict(
        category="other", design="DESIGN.md §3 C14",
        technique="static analysis: circle reduced to a normal form and compared with the indicator definition; selection/fill-factor normal forms; loop-nest and counter rules for the scatter",
        text=("circle == indicator of the closed disc on half-integer pixel centres for both origins (so nesting/symmetry/shift "
              "covariance follow); selection keeps a cell iff mean >= threshold and reports that mean; cell bounds agree between "
              "selection and fill-factor function; scatter is row-major (logical, never memory order) with a counter advancing once per active cell. The area "
              "limit is not decided."),
        note="Trusted: oracle text in sa/props/c14.py; numpy boolean-mask order is row-major; size integer."),
    "C16": dict(
        category="other", design="DESIGN.md §3 C16",
        technique="static analysis: normal forms of binning (summarised loops), zoom paths and radial reductions decomposed; library constructors resolved in the installed SciPy and inspected for an unconditional raise",
        text=("Binning = strided accumulation over the last two axes with one n (both rank branches); both zoom entry points use a "
              "callable spline constructor on pixel-index nodes, evaluate on linspace(0, n-1, new) rows first (the result has the requested "
              "shape) and accept an integer size, split complex data as "
              "f(real)+1j f(imag) with the same arguments (also through a shared recursive helper); azimuthal average is a convex combination over nested ring masks with full allocation coverage; "
              "encircled energy starts at (0,0), is normalised once by the total, uses growing nested apertures, and the grid the curve is resampled on "
              "must reach the last abscissa of the curve (today it stops half way: known finding B5.grid-covers-curve). Spline exactness and "
              "monotone interpolation are not decided."),
        note="Trusted: installed SciPy sources; C14.M1; RectBivariateSpline(s=0) interpolates."),
    "C12": dict(
        category="other", design="DESIGN.md §3 C12",
        technique="static analysis: function-by-function comparison with Noll's definitions as normal forms (callees opaque), index/coverage rules for the dispatch, library attribute resolution, exhaustive abstract execution of the gamma-matrix rule chains over a finite predicate abstraction",
        text=("Library attributes used by zernike.py/pupil.py exist; zernike_nm equals Noll's mode definition on all three branches "
              "(normalisation, cos/sin, clipping, pupil); zernIndex equals Noll's formula with + for even and - for odd j; radial "
              "polynomial equals the factorial sum; list/count dispatch, storage indices, allocation coverage and per-mode "
              "normalisation of zernikeArray; phaseFromZernikes is the linear combination; makegammas: the two if-chains are executed "
              "abstractly over the finite abstraction (m_i, m_j, parities of the Noll indices) and every entry coefficient equals Noll's "
              "derivative rules (a)-(d). Bijectivity and orthonormality on a sampled grid are not decided."),
        note="Trusted: oracle text in sa/props/c12.py (Noll 1976); installed NumPy/SciPy for attribute existence."),
})

CLAIMS.update({
    "C01": dict(
        category="other", design="DESIGN.md §3 C01",
        technique="static analysis: abstract interpretation of both assembly copies with loop variables and attributes symbolic (affine block bounds, tiling, block sources, no index permutation, scale normal form); per-pair functions compared with the finite-difference definition as normal forms; projection formulas compared with their geometric definition",
        text=("Decides: the four block updates tile the (i, j) block (all x then all y per sensor); each quadrant receives the slope-kind "
              "covariance it stands for, with no flip/transpose between per-pair result and block; compute_covariance_xx/yy/xy equal "
              "the finite-difference expansion in the structure function, which is one element-wise von Karman law; separations s[i,j] = p2[j]-p1[i]; scale lambda_i lambda_j/"
              "(8 pi^2 d_i d_j) with projected diameters; r0^(-5/3); zero-initialised += accumulation over all layers; sub-aperture "
              "centres and cone/offset projection formulas on copies; lower block triangle + mirror tril(C) + tril(C, -1).T (never through bit patterns). Positive semi-definiteness "
              "and rounding are not decided. Known findings: unequal projected diameters (xx/yy term, yx block)."),
        note="Trusted: finite-difference covariance identity for stationary fields (oracle text); numpy.where order; gs_altitudes are altitudes."),
    "C02": dict(
        category="other", design="DESIGN.md §3 C02",
        technique="static analysis: reconstructor body reduced to a normal form (affine slice bounds, dot, pinv with its conditioning, transpose algebra) and compared with the minimum-variance formula; wrapper arguments from its normal form",
        text=("The returned matrix is C[:2n, 2n:] . pinv(C[2n:, 2n:], rcond) and the wrapper passes its own matrix, the first "
              "sensor's count and its conditioning argument; with the pseudo-inverse lemma this is the normal-equation solution on "
              "the retained subspace for every PSD input; every path of the wrapper recomputes from the current matrix (no stale cache). "
              "Duplicate-sensor clause: only its structural part (the builder carries nothing from one sensor's iteration to the next and "
              "places the four slope-kind blocks of every sensor pair at that pair's offsets, helper methods included; every sensor's sub-apertures "
              "are projected onto a layer by the same geometric rule from its own current direction and altitude); "
              "the covariance values themselves are C01's subject."),
        note="Trusted: B M^+ solves R M = B on range(M) and minimises the residual (pinv contract)."),
    "C03": dict(
        category="proof", design="DESIGN.md §3 C03",
        technique="static analysis: structural proof from eight facts (ordered collective, producer/consumer loop-nest agreement and counter discipline, FX purity of the worker, argument-tuple agreement, identical operation trees of the two copies, fresh accumulator, attribute read/write discipline across builds, dispatch-only use of the thread count)",
        text=("For every worker count, completion order and rebuild history the multi-process result is bit-identical to the "
              "single-process one: results come back in submission order (Pool.map contract) and are consumed positionally in the "
              "same loop order, the worker is pure, both copies perform the same floating-point operations in the same order on the "
              "same arguments, and no attribute carries state from one build to the next."),
        note="Trusted: multiprocessing.Pool.map/starmap ordering contract; FX tables; pickling preserves argument values."),
    "C04": dict(
        category="other", design="DESIGN.md §3 C04",
        technique="static analysis: per-method normal forms of every construction step and of the row synthesis (attributes symbolic), compared with their specifications; constructor step order against read/write sets",
        text=("A = Cov_xz inv(Cov_zz), B = U diag(sqrt w) from svd(Cov_xx - A Cov_zx), block cuts matching the (stencil, new row) "
              "concatenation order, Euclidean separations x pixel_scale in both kernels, gather coordinates = covariance "
              "coordinates, new row at row -1, row = A Z + B b with one N(0,1) draw (Fried: A (Z - rho) + B b + rho), "
              "phase_covariance(separations, r0, L0) evaluated in double precision, von Karman stencil rows, and a constructor order in which every step's inputs "
              "exist; floating dtype of the separation matrix; the initial screen is drawn from the instance generator itself (innovation "
              "independent of the screen); no state shared between instances. Conditioning, stationarity as a statistical fact and "
              "Fried's stencil geometry are not decided."),
        note="Trusted: cho_solve(cho_factor(M), I) = inv(M); svd of symmetric PSD; algebra lemma of Assemat & Wilson."),
    "C05": dict(
        category="other", design="DESIGN.md §3 C05",
        technique="static analysis: normal form of the step function (row prepend + crop) and of the exposed view; effect summaries (who writes which attribute, read-only accessors); draw count per path; size relations incl. loop-exit condition of find_allowed_size",
        text=("After any history: add_row rebinding is concat([new_row, screen])[:stencil_length, :nx_size] with a (1, nx_size) row, the "
              "exposed view crops to the requested size on both axes, readers (scrn, __repr__) write nothing and draw nothing, only "
              "make_initial_screen/add_row write the screen, exactly one draw of nx_size per row, every new row is A.Z + B.b "
              "(Fried: A.(Z - rho) + B.b + rho) of the current screen's stencil values, requested <= nx_size <= "
              "stencil_length. Finiteness and spectral stability of the recursion are not decided."),
        note="Trusted: numpy.append/concatenate semantics; FX tables."),
    "C06": dict(
        category="proof", design="DESIGN.md §3 C06",
        technique="static analysis: random-source provenance over the resolved call graph (classification of every RNG/clock call site, data-dependence of generator constructor arguments on the seed, receivers of draws from normal forms, seed forwarding, generator scope, hidden state)",
        text=("In the screen modules and everything reachable from them: no global-state RNG or clock, every generator is "
              "default_rng(seed / self.random_seed), every draw is made on such a generator held in a local or instance attribute, "
              "seeds are forwarded to seeded callees, draw counts depend on size parameters and literal bounds only, no memoisation "
              "or module state; the screen buffer is never overwritten in place (screens handed out are values of the run); hence same seed "
              "+ parameters => identical screens and rows under any interleaving."),
        note="Trusted: numpy Generator determinism and isolation from the global RandomState; default_rng(Generator) returns it."),
})

NOT_APPLICABLE = {
}

CLAIMS.update({
    "C13": dict(
        category="other", design="DESIGN.md §5, §12.4",
        technique="static analysis: normal forms of the geometric and bookkeeping functions of karhunenLoeve.py compared with oracle definitions; algebraic inverse relation between the polar synthesis grid and the Cartesian look-up indices; driver wiring read from the interpreter's call and store logs",
        text=("Structural clauses only. Decides: the returned pupil and the mask applied to the Cartesian rendering are the annulus indicator "
              "ri^2 <= x^2 + y^2 <= 1 on the pixel-centre grid of the same geometry object (so the masked rendering is zero outside the annulus); "
              "the Cartesian look-up indices are the exact inverse maps of the polar synthesis grid (radial and azimuthal), clipped inside the "
              "table, with bilinear 'nearest'-edge interpolation; make_kl renders mode i as pol2car(geometry, gkl_sfi(base, i), mask) for all "
              "nmax modes and returns base['evals']; gkl_sfi is radial column x azimuthal row of the same index; azimuthal rows are 1, cos, sin "
              "of the paired orders; piston_orth is Cannon's eq. 19 matrix; equal-area radial grid; selection by argsort(-eigenvalues); quadrature "
              "weight and eigenvector scalings sqrt(nr), sqrt(2 nr); the kernel is the azimuthal DFT (all nth samples, weight 2 pi/nth) of the structure "
              "function of the chord length (the squared chord clamped at zero before its square root, A15), stored symmetrically; rebin replicates with exactly the requested number of indices per axis (integer "
              "arithmetic). NOT decided (most of the property): orthonormality to grid accuracy, zero "
              "mean, the diagonalised covariance, positivity and tip = tilt of the variances, the resampling error - all of which are values "
              "produced by eigh / map_coordinates at run time."),
        note=("Trusted: scipy.ndimage.map_coordinates order=1 is bilinear interpolation at fractional indices; eigh returns "
              "orthonormal eigenvectors; oracle text in sa/props/c13.py (Cannon 1996). Necessary conditions, not the behaviour.")),
})

PENDING_REASON = "clauses decidable in principle (DESIGN §3) but the checker is not built yet; not claimed through a weaker proxy"


def main():
    props = [json.loads(l) for l in open(os.path.join(HERE, "properties.jsonl"))]
    checks = []
    na = []
    for p in props:
        pid = p["id"]
        if pid in CLAIMS and os.path.exists(os.path.join(HERE, "sa", "props", pid.lower() + ".py")):
            c = CLAIMS[pid]
            checks.append({
                "property_id": pid,
                "quick_cmd": "%s run.py %s --tier quick" % (PY, pid),
                "thorough_cmd": "%s run.py %s --tier thorough" % (PY, pid),
                "evidence_file": "evidence/%s.json" % pid,
                "replay_cmd_template": "%s run.py %s --explain {path}" % (PY, pid),
                "engine": "sa",
                "level_claimed": {"category": c["category"], "text": c["text"], "design_ref": c["design"]},
                "level_note": c["note"],
                "technique": c["technique"],
            })
        else:
            na.append({"property_id": pid, "reason": NOT_APPLICABLE.get(pid, PENDING_REASON)})
    man = {
        "version": 1,
        "setup_cmd": "%s -m compileall -q sa run.py tools" % PY,
        "hooks": {"guard": "AOTOOLS_VERIF",
                  "enable": "none needed: the checks analyse /repo's source text only and never import aotools",
                  "baseline_off_cmd": BASELINE,
                  "source_commits": [],
                  "add_only": True},
        "engines": [{"name": "sa", "path": "sa/",
                     "serves_properties": [c["property_id"] for c in checks],
                     "kind_free_text": "purpose-built static analyser on CPython ast: name/export resolver and call graph (RES), "
                                       "alias/mutation/effect analysis (FX), power-law normal-form abstract interpreter (PLF), "
                                       "FFT-wrapper shift/scale algebra (SHIFT), index/loop-nest rules (IDX), RNG provenance (RNG)"}],
        "checks": checks,
        "not_applicable": na,
        "notes": "All checks are static: they parse /repo/aotools with ast under /venv/bin/python and never import or run aotools. "
                 "Exit 0 held / 1 VIOLATION / 2 ANALYSIS-ERROR (anchor vanished or idiom unrecognised; never a silent pass).",
    }
    with open(os.path.join(HERE, "MANIFEST.json"), "w") as fh:
        json.dump(man, fh, indent=1)
    print("claimed:", [c["property_id"] for c in checks])
    print("not applicable:", [n["property_id"] for n in na])


if __name__ == "__main__":
    main()
