"""C18 - profile compression (clauses decidable from code shape).

E1  equivalent_layers (also the starting guess of GCTM): the slab-edge array has
    exactly L elements *by construction* (integer-count constructor), its first
    edge is min(h), the digitize labels {1..len(edges)} are exactly the labels
    consumed {i+1 : i in range(L)}, outputs are allocated with L elements and every
    element is written: no input layer can fall outside the L slabs.
    (numpy.arange(lo, hi, float_step) has ceil((hi-lo)/step) elements under
    rounding - L or L+1 - so the top layer can be lost.)
E1m the stored strength is the slab sum of p, and strength * height^(5/3)
    (resp. wind^(5/3)) equals the slab sum of p*h^(5/3): moments are conserved slab
    by slab as an algebraic identity.
E2  optimal grouping: the split -> groups conversion (both copies) yields
    len(splits)+1 contiguous index ranges tiling [0, N) for every number of
    splits >= 0, so that exactly L layers come back and no layer is dropped.
E4  GCTM (c18_gctm.py): the optimiser is asked the right question (moments, objective, target, start, bounds),
    its answer is mapped back with the same split and scales, and every callback is finite on the feasible box.
Not decided: optimality of the grouping, what the optimiser converges to (GCTM moment accuracy).
"""
import ast
from fractions import Fraction as Fr

from ..common import get_index, nf, same_value, purity_obligations
from ..interp import Interp, has_unknown, RangeVal
from ..plf import Rat, Sym, Fn, find_atoms, rpow
from ..report import AnalysisError
from ..index import norm_text
from .c19 import coverage

LEVEL = "other"
MOD = "aotools.turbulence.profile_compression"


def is_int_valued(v):
    """integer by construction: int literal or symbols flagged int, combined by + - *"""
    if not isinstance(v, Rat) or not v.den_is_one():
        return False
    for m, c in v.num.items():
        c = complex(c)
        if c.imag != 0 or abs(c.real - round(c.real)) > 0:
            return False
        for a, e in m:
            if e.denominator != 1 or e < 0:
                return False
            if not (isinstance(a, Sym) and "int" in a.flags):
                return False
    return True


def edge_count(edges):
    """(count Rat | None, how) for an edge-array normal form"""
    if not isinstance(edges, Rat):
        return None, "edges are not an array expression"
    ars = find_atoms(edges, lambda a: isinstance(a, Fn) and a.name in ("arange", "linspace"))
    if len(ars) != 1:
        return None, "expected one arange/linspace constructor, found %d" % len(ars)
    a = ars[0]
    from .c19 import affine_in
    ab = affine_in(edges, a)
    if ab is None or ab[0].is_zero():
        return None, "edges are not affine in the constructor"
    if a.name == "linspace":
        lo, hi, num, endpoint = a.args[:4]
        return num, "linspace(num=%s, endpoint=%s)" % (nf(num), endpoint)
    lo, hi, st = a.args
    if all(is_int_valued(x) for x in (lo, hi, st)):
        return (hi - lo) / st, "integer arange(%s, %s, %s)" % (nf(lo), nf(hi), nf(st))
    return "float", "arange(%s, %s, %s) with a non-integer step: its length is ceil((hi-lo)/step) under rounding" % (
        nf(lo, 40), nf(hi, 40), nf(st, 60))


def first_edge(edges):
    ars = find_atoms(edges, lambda a: isinstance(a, Fn) and a.name in ("arange", "linspace"))
    if len(ars) != 1:
        return None
    a = ars[0]
    return edges.subst(lambda x: a.args[0] if x == a else None)


def run(rep, tier, root=None):
    ix = get_index(root)
    rep.trusted_base += ["numpy.digitize(x, bins) labels x in [bins[i-1], bins[i]) with i, values >= bins[-1] with len(bins)",
                         "numpy.arange(lo, hi, step) has ceil((hi-lo)/step) elements (floating rounding applies for float steps)"]
    rep.assumptions += ["L is a positive integer; all heights are >= h.min() (trivially true)",
                        "empty slabs (0/0), optimiser accuracy and optimality of the grouping are not decided"]
    rep.explanation = ("The slab assignment of equivalent_layers is analysed as label bookkeeping: number of edges produced vs labels "
                       "consumed, first edge, allocation extents and written indices, and the slab-wise moment identities as normal-"
                       "form algebra; the split->group conversion is analysed as interval tiling with a case split on the loop trip "
                       "count (0, 1, >=2).")
    rep.rule_text = "E1 (edge count, first edge, labels, allocations), E1m (slab identities), E2 (tiling), one obligation each per site"
    m = ix.module(MOD)
    rep.files_analysed.add(m.relpath)

    f = ix.func(MOD, "equivalent_layers")
    rep.functions_analysed.add(f.fq)
    I = Interp(ix)
    h, p, L, w = Rat.sym("h", ("array",)), Rat.sym("p", ("array",)), Rat.sym("L", ("int",)), Rat.sym("w", ("array",))
    rets = I.returns(f, [h, p, L, w])
    stores = {s[1]: s for s in I.store_log if s[0] == f.fq}
    loops = [l for l in I.loop_log if l[0] == f.fq]
    comp_form = False
    if len(rets) == 1 and not loops and not stores and isinstance(rets[0][1], (tuple, list)) and len(rets[0][1]) >= 2 and \
            all(isinstance(v_, Rat) and isinstance(v_.single_atom(), Fn) and v_.single_atom().name == "listcomp" and
                isinstance(v_.single_atom().args[0], Rat) and isinstance(v_.single_atom().args[2], tuple) and len(v_.single_atom().args[2]) == 3
                and all(isinstance(x_, Rat) for x_ in v_.single_atom().args[2]) for v_ in rets[0][1]) and \
            len(set((v_.single_atom().args[1], tuple(x_.key() for x_ in v_.single_atom().args[2])) for v_ in rets[0][1])) == 1:
        # the slab loop written as one comprehension per output: out = array([g(i) for i in range(L)]) is the loop
        # `for i in range(L): out[i] = g(i)` over a freshly allocated array of exactly that many items
        comp_form = True
        lc0 = rets[0][1][0].single_atom()
        cvar = Rat.atom(Sym(lc0.args[1], ("int", "loopvar")))
        loops = [(f.fq, f.node.lineno, cvar, RangeVal(*lc0.args[2]))]
        stores = {"output %d" % k_: (f.fq, "output %d" % k_, cvar, v_.single_atom().args[0], f.node.lineno, "=", "comprehension")
                  for k_, v_ in enumerate(rets[0][1])}
    if len(rets) != 1 or len(loops) != 1 or len(stores) < 2:
        # not the loop-over-slabs form.  One vectorised form can be decided: running sums cut at slab starts
        # (numpy.add.reduceat) are not slab sums - an empty slab returns the element at its start index instead of 0, so that
        # layer is counted twice; every profile with a gap between layers (irregular heights) is affected
        red = [a for c_, v_ in rets for a in (find_atoms(v_, lambda t: isinstance(t, Fn) and t.name.endswith("reduceat")) if v_ is not None else [])]
        if red:
            rep.violation("E1m.moment-conserved", f.fq + ": slab strengths by numpy.add.reduceat",
                          "the slab sums are taken with numpy.add.reduceat(%s): for an empty slab (two equal start indices) reduceat returns "
                          "the single element at that index rather than 0, so a layer is counted in two slabs and the total Cn2 and both "
                          "5/3 moments are no longer conserved for profiles with a gap" % nf(red[0].args[0], 60), f.where())
            return
        rep.unknown("E1.structure", f.fq, "expected one path, one slab loop, >= 2 stores", f.where())
        return
    loopvar, rng = loops[0][2], loops[0][3]
    lv = loopvar.single_atom()
    # strength store: sum(p[mask])
    cn2_store = None
    for name, s in stores.items():
        v = s[3]
        a = v.single_atom() if isinstance(v, Rat) else None
        if isinstance(a, Fn) and a.name == "sum":
            g = a.args[0].single_atom() if isinstance(a.args[0], Rat) else None
            if isinstance(g, Fn) and g.name == "getitem" and same_value(g.args[0], p):
                cn2_store = (name, s, g.args[1])
    if cn2_store is None:
        rep.violation("E1m.slab-sum", f.fq + ": strength of slab i == p[slab].sum()",
                      "no output is the plain sum of p over the slab", f.where())
        return
    rep.ok("E1m.slab-sum", f.fq + ": %s[i] == p[slab].sum()" % cn2_store[0])
    mask = cn2_store[2]
    ma = mask.single_atom() if isinstance(mask, Rat) else None
    if not (isinstance(ma, Fn) and ma.name == "cmp" and ma.args[0] == "=="):
        rep.unknown("E1.labels", f.fq, "slab mask is not `labels == k`: %s" % nf(mask, 120), f.where())
        return
    lab, k = ma.args[1], ma.args[2]
    da = lab.single_atom() if isinstance(lab, Rat) else None
    if not (isinstance(da, Fn) and da.name == "digitize"):
        lab, k = k, lab
        da = lab.single_atom() if isinstance(lab, Rat) else None
    if not (isinstance(da, Fn) and da.name == "digitize"):
        rep.unknown("E1.labels", f.fq, "labels do not come from numpy.digitize", f.where())
        return
    x, edges = da.args[0], da.args[1]
    if len(da.args) > 2:
        rep.unknown("E1.labels", f.fq, "digitize called with extra arguments", f.where())
        return
    rep.check(same_value(x, h), "E1.labels", f.fq + ": digitize(h, edges)", "labels are computed from %s, not from the heights" % nf(x), f.where())
    cnt, how = edge_count(edges)
    key = f.fq + ": number of slab edges == L by construction"
    if cnt is None:
        rep.unknown("E1.edge-count", key, how, f.where())
    elif cnt == "float":
        rep.violation("E1.edge-count", key,
                      "slab edges are %s; when it yields L+1 edges the layers at or above the last edge get label L+1, which no "
                      "slab consumes: their Cn2 is dropped" % how, f.where())
    else:
        rep.check(same_value(cnt, L), "E1.edge-count", key, "%s gives %s edges, %s slabs are consumed" % (how, nf(cnt), nf(L)), f.where(), note=how)
    fe = first_edge(edges)
    rep.check(fe is not None and same_value(fe, Rat.atom(Fn("min", (h, None)))), "E1.first-edge", f.fq + ": edges[0] == h.min()",
              "first slab edge is %s: layers below it get label 0, which no slab consumes" % nf(fe), f.where())
    # consumed labels: k = i + 1 over range(0, L, 1)
    ok_lab = isinstance(rng, RangeVal) and same_value(rng.lo, Rat.const(0)) and same_value(rng.hi, L) and \
        same_value(rng.step, Rat.const(1)) and same_value(k, loopvar + 1)
    rep.check(ok_lab, "E1.labels", f.fq + ": slab i consumes label i+1 for i in range(L)",
              "slabs consume label %s for %s in %r; digitize produces 1..L" % (nf(k), nf(loopvar), rng), f.where())
    # allocations and written indices
    allocs = [c for c in I.call_log if c[0] == f.fq and c[1].split(".")[-1] in ("zeros", "empty", "ones")]
    if comp_form:
        rep.check(same_value((rng.lo, rng.hi, rng.step), (Rat.const(0), L, Rat.const(1))), "E1.allocation",
                  f.fq + ": outputs allocated with L elements", "the output comprehensions run over %r" % (rng,), f.where())
    else:
        rep.check(len(allocs) >= 2 and all(c[2] and same_value(c[2][0], L) for c in allocs), "E1.allocation",
                  f.fq + ": outputs allocated with L elements", "allocations: %s" % [(c[1], nf(c[2][0]) if c[2] else None) for c in allocs], f.where())
    from .c14 import _is_float_dtype
    typed = [a for a in I.alloc_log if a[0] == f.fq and "dtype" in a[3] and not _is_float_dtype(a[3]["dtype"])]
    typed += [(c[0], c[1], c[2], c[3]) for c in I.call_log if c[0] == f.fq and c[1].split(".")[-1] in ("array", "asarray", "fromiter")
              and "dtype" in c[3] and not _is_float_dtype(c[3]["dtype"])]
    rep.check(not typed, "E1.allocation-dtype", f.fq + ": outputs are floating-point arrays",
              "output arrays are allocated with dtype %s: effective heights / winds (fractional powers of weighted means) and strengths "
              "are truncated on assignment when the input profile is given as integers" % [repr(a[3]["dtype"])[:40] for a in typed], f.where())
    for name, s in sorted(stores.items()):
        ok, why = coverage(s[2], lv, rng, L)
        if ok is None:
            rep.unknown("E1.written-indices", "%s: %s[...]" % (f.fq, name), why, f.where())
        else:
            rep.check(ok, "E1.written-indices", "%s: every element of %s written" % (f.fq, name), why, f.where(), note=why)
    # slab-wise moment identities
    cn2v = cn2_store[1][3]
    for name, s in sorted(stores.items()):
        if name == cn2_store[0]:
            continue
        v = s[3]
        lhs = cn2v * rpow(v, Fr(5, 3))
        a = None
        sums = [t for t in find_atoms(lhs, lambda q: isinstance(q, Fn) and q.name == "sum")]
        st = lhs.single_atom() if isinstance(lhs, Rat) else None
        good = False
        if isinstance(st, Fn) and st.name == "sum":
            inner = st.args[0]
            # p[m] * q[m]^(5/3)
            pm = Rat.atom(Fn("getitem", (p, mask)))
            ratio = inner / pm
            qa = None
            r53 = rpow(ratio, Fr(3, 5))
            qa = r53.single_atom() if isinstance(r53, Rat) else None
            good = isinstance(qa, Fn) and qa.name == "getitem" and same_value(qa.args[1], mask) and \
                isinstance(qa.args[0], Rat) and isinstance(qa.args[0].single_atom(), Sym)
        rep.check(good, "E1m.moment-conserved", "%s: %s[i]*%s[i]^(5/3) == (p*q^(5/3))[slab].sum()" % (f.fq, cn2_store[0], name),
                  "slab %s does not conserve the 5/3 moment: strength*value^(5/3) = %s" % (name, nf(lhs, 200)), f.where())
    # a slab may be empty (irregular heights) or hold only zero strengths: the effective height / wind divides by the slab's
    # strength, and 0 / 0 is nan - the output moments are then nan although the strengths (sum of nothing = 0) are right
    for name, s in sorted(stores.items()):
        if name == cn2_store[0] or not isinstance(s[3], Rat):
            continue
        negs = [a for m_, c_ in list(s[3].num.items()) + list(s[3].den.items()) for a, e_ in m_
                if e_ < 0 and isinstance(a, Fn) and a.name == "sum" and same_value(Rat.atom(a), cn2v)]
        den_has = any(same_value(Rat.atom(a), cn2v) for m_ in s[3].den for a, e_ in m_ if isinstance(a, Fn))
        guarded = any(isinstance(a, Fn) and a.name in ("where3", "maximum", "clip", "nan_to_num") for a in s[3].atoms())
        role = "effective height" if s[3].depends_on(Sym("h")) else "effective wind speed" if s[3].depends_on(Sym("w")) else name
        rep.check(not ((negs or den_has) and not guarded), "E1m.empty-slab", "%s: %s of a slab without turbulence is defined" % (f.fq, role),
                  "%s[i] divides by the slab strength p[slab].sum(): for a slab that contains no layer (irregular heights, e.g. "
                  "h = [0, 100, 200, 10000], L = 3) or only zero strengths it is 0/0 = nan, so the 5/3 moment of the output is nan "
                  "(GCTM, which starts from this guess, returns nan heights as well)" % name, f.where())
    rep.sample({"function": f.fq, "edges": nf(edges, 200), "edge_count": how, "mask": nf(mask, 200)})

    # GCTM starts from equivalent_layers with the same (h, p, L)
    g = ix.func(MOD, "GCTM")
    rep.functions_analysed.add(g.fq)
    Iq = Interp(ix, opaque={f.fq})
    Iq.returns(g, Iq.symbolic_args(g))
    calls = [c for c in Iq.call_log if c[0] == g.fq and c[1].split(".")[-1] == "equivalent_layers"]
    bound = []
    if len(calls) == 1:
        # arguments by parameter name, whether passed by position or by keyword
        bound = list(calls[0][2]) + [calls[0][3].get(p_) for p_ in f.params[len(calls[0][2]):]]
    rep.check(len(calls) == 1 and len(bound) >= 3 and all(same_value(b_, Rat.sym(p_)) for b_, p_ in zip(bound[:3], g.params[:3])), "E1.gctm-guess",
              g.fq + ": first guess = equivalent_layers(h, p, L)", "GCTM's starting guess is not equivalent_layers(h, p, L)", g.where())

    # ---------------------------------------------------------------- E2 tiling
    for name in ("_convert_splits_to_groups", "_Gjit"):
        fn = ix.func(MOD, name)
        rep.functions_analysed.add(fn.fq)
        tiling(rep, ix, fn)
    og = ix.func(MOD, "optimal_grouping")
    rep.functions_analysed.add(og.fq)
    # the strengths returned are p[group].sum() over the converted groups of the best splits (normal form of the result)
    opq = {MOD + ":" + n_ for n_ in ("_convert_splits_to_groups", "_G", "_optGroupingMinimization", "_random_grouping")}
    Ig = Interp(ix, opaque=opq)
    pp = Rat.sym("p", ("array",))
    rets_g = [v for c_, v in Ig.returns(og, [Rat.sym("R", ("int",)), Rat.sym("L", ("int",)), Rat.sym("h", ("array",)), pp])
              if isinstance(v, tuple) and len(v) == 2]
    body_ok, why = False, "no returning path with (heights, strengths)"
    conv = "call:" + MOD + ":_convert_splits_to_groups"
    for v in rets_g:
        st = v[1]
        # strip the container: array(...) of a one-element symbolic list / a list comprehension
        for _ in range(3):
            a_ = st.single_atom() if isinstance(st, Rat) else None
            if isinstance(a_, Fn) and a_.name == "array" and isinstance(a_.args[0], tuple) and len(a_.args[0]) == 1:
                st = a_.args[0][0]
            elif isinstance(a_, Fn) and a_.name == "listcomp":
                st = a_.args[0]
            elif isinstance(st, (list, tuple)) and len(st) == 1:
                st = st[0]
            else:
                break
        a_ = st.single_atom() if isinstance(st, Rat) else None
        why = "strengths are %s" % nf(v[1], 160)
        if isinstance(a_, Fn) and a_.name == "sum" and a_.args[1] is None and isinstance(a_.args[0], Rat):
            gi = a_.args[0].single_atom()
            if isinstance(gi, Fn) and gi.name == "getitem" and same_value(gi.args[0], pp) and isinstance(gi.args[1], Rat):
                grp = gi.args[1].single_atom()
                src = grp.args[0].single_atom() if isinstance(grp, Fn) and grp.name == "getitem" and isinstance(grp.args[0], Rat) else None
                if isinstance(src, Fn) and src.name == conv:
                    # the heights must come from the same converted groups
                    hs = find_atoms(v[0], lambda t: isinstance(t, Fn) and t.name == conv)
                    body_ok = all(same_value(Rat.atom(x), Rat.atom(src)) for x in hs)
                    if not body_ok:
                        why = "heights and strengths are computed from different groupings"
    # ---- E5 the restart loop keeps the best grouping seen: (cost, grouping) are replaced together, and only by a better pair
    lps = [l for l in Ig.loop_log if l[0] == og.fq and isinstance(l[3], RangeVal) and same_value(l[3].hi, Rat.sym("R", ("int",)))]
    if not lps:
        rep.unknown("E5.best-of-restarts", og.fq, "cannot find the restart loop `for ... in range(R)`", og.where())
    else:
        okp, why5 = True, ""
        seen_t = set()
        loop_ln = lps[0][1]

        def entry_val(name):
            vals = [e_[3] for e_ in Ig.assign_log if e_[0] == og.fq and e_[1] == name and e_[2] < loop_ln]
            return vals[-1] if vals else None
        e_gb, e_gam = entry_val("G_best"), entry_val("gamma_best")

        def is_new(v, entry):
            """the value comes from this restart: not the carried one, not the one the loop was entered with"""
            if not isinstance(v, Rat):
                return False
            if any(isinstance(x_, Fn) and x_.name == "?carried" for x_ in v.atoms(True)):
                return False
            if entry is not None and same_value(v, entry):
                return False
            return bool(find_atoms(v, lambda t: isinstance(t, Fn) and t.name.endswith(":_optGroupingMinimization")))
        for (_fq, ln, tv_, it_, env_, conds_, cnf_) in lps:
            gb, gam = env_.get("G_best"), env_.get("gamma_best")
            tests = [(v_, t_) for v_, t_ in cnf_ if isinstance(v_, Rat) and isinstance(v_.single_atom(), Fn) and v_.single_atom().name == "cmp"]
            calls_ = find_atoms(gb, lambda t: isinstance(t, Fn) and t.name.endswith(":_optGroupingMinimization")) if isinstance(gb, Rat) else []
            carried_g = isinstance(gb, Rat) and any(isinstance(a_, Fn) and a_.name == "?carried" for a_ in gb.atoms(True))
            if len(tests) != 1:
                okp, why5 = False, "the update of the best pair is not guarded by one comparison of the new cost with the best cost (path %s)" % list(conds_)
                break
            cmp_, truth = tests[0]
            a_ = cmp_.single_atom()
            # normalise to  new < best
            op, l_, r_ = a_.args
            new_is_left = bool(find_atoms(l_, lambda t: isinstance(t, Fn) and t.name.endswith(":_optGroupingMinimization")))
            better = (op in ("<", "<=") and new_is_left) or (op in (">", ">=") and not new_is_left)
            took_new = truth if better else not truth
            seen_t.add(took_new)
            gam_new = is_new(gam, e_gam)
            gb_new = is_new(gb, e_gb)
            if took_new and not (gb_new and gam_new):
                okp, why5 = False, "when the new cost is better, (G_best, gamma_best) become (%s, %s)" % (nf(gb, 60), nf(gam, 60))
                break
            if not took_new and (gb_new or gam_new):
                okp, why5 = False, "when the new cost is NOT better, (G_best, gamma_best) still become (%s, %s): the best grouping so far is lost" % (nf(gb, 60), nf(gam, 60))
                break
        if okp and seen_t != {True, False}:
            okp, why5 = False, "the restart loop does not distinguish a better from a worse restart (paths: %s)" % sorted(seen_t)
        rep.check(okp, "E5.best-of-restarts", og.fq + ": a restart replaces (cost, grouping) together and only when its cost is lower",
                  why5, og.where())
    rep.check(body_ok, "E2.group-sums", og.fq + ": strength of group == p[group].sum() over the groups of the returned heights",
              "optimal_grouping does not return the plain sum of p over each group: " + why, og.where())
    # ---- E3 no state survives a call (random restarts may use NumPy's global generator, which the property allows)
    purity_obligations(rep, ix, list(m.funcs.values()), "E3.no-hidden-state",
                       "a later compression optimises against values cached from an earlier profile")
    from . import c18_gctm
    c18_gctm.check(rep, ix)
    rep.floor("C18 obligations", len(rep.obligations), 42)


ZERO_LEN_TESTS = ("len(%s)==0", "notlen(%s)", "%s.size==0", "len(%s)<1", "%s.size<1", "not%s.size")


def _edges_form(rep, ix, fn):
    """the conversion written with an edge array:  E = concatenate(([0], S + 1, [N]));  return [arange(lo, hi) for lo, hi in
    zip(E[:-1], E[1:])]  - consecutive edges tile [0, N) by construction for every number of splits (0 included).  An early
    return of the single group is right only under a test that means `no splits`.  Returns False if the function is not of
    this form."""
    I = Interp(ix)
    params = fn.params
    if len(params) < 2:
        return False
    S = Rat.sym(params[0], ("array", "int"))
    Nn = Rat.sym(params[1], ("int",))
    paths = I.paths(fn, [S, Nn])
    general = [(c, cnf, v) for c, cnf, v in paths if isinstance(v, Rat) and isinstance(v.single_atom(), Fn) and v.single_atom().name == "listcomp"]
    if len(general) != 1:
        return False
    lc = general[0][2].single_atom()
    body, tag, key = lc.args
    ba = body.single_atom() if isinstance(body, Rat) else None
    if not (isinstance(ba, Fn) and ba.name == "arange" and same_value(ba.args[2], Rat.const(1)) and isinstance(key, tuple) and key and key[0] == "zip"
            and len(key[1]) == 2):
        return False
    lo_seq, hi_seq = key[1]
    pos = Rat.sym(tag + "#", ("int", "loopvar"))
    el = lambda q: Rat.atom(Fn("getitem", (q, pos)))
    la, ha = lo_seq.single_atom(), hi_seq.single_atom()
    ok_pairs = isinstance(la, Fn) and isinstance(ha, Fn) and la.name == "getitem" and ha.name == "getitem" and same_value(la.args[0], ha.args[0]) and \
        same_value((la.args[1],), ((("slice", Rat.const(0), Rat.const(-1), None)),)) and same_value((ha.args[1],), ((("slice", Rat.const(1), None, None)),)) and \
        same_value(ba.args[0], el(lo_seq)) and same_value(ba.args[1], el(hi_seq))
    rep.check(bool(ok_pairs), "E2.tiling", fn.fq + ": group k is [E[k], E[k+1]) for consecutive entries of one edge array",
              "groups are built from %s and %s" % (nf(lo_seq, 80), nf(hi_seq, 80)), fn.where())
    if not ok_pairs:
        return True
    E = la.args[0]
    ea = E.single_atom() if isinstance(E, Rat) else None
    parts = ea.args[0] if isinstance(ea, Fn) and ea.name == "concat" else None
    ok_edges = parts is not None and len(parts) == 3 and same_value(parts[0], Rat.const(0)) and same_value(parts[2], Nn) and same_value(parts[1], S + 1)
    rep.check(bool(ok_edges), "E2.tiling", fn.fq + ": edges are [0, splits + 1 ..., N]", "edge array is %s" % nf(E, 160), fn.where())
    # early returns
    zero_ok = True
    for st in fn.node.body:
        if isinstance(st, ast.If) and any(isinstance(x, ast.Return) for x in ast.walk(st)):
            t = norm_text(st.test).replace(" ", "")
            names = [params[0]] + [norm_text(a.targets[0]) for a in ast.walk(fn.node) if isinstance(a, ast.Assign) and len(a.targets) == 1
                                   and isinstance(a.targets[0], ast.Name)]
            if not any(t == pat % nm for pat in ZERO_LEN_TESTS for nm in names):
                zero_ok = False
                rep.violation("E2.no-splits", "%s: early return under `%s`" % (fn.fq, norm_text(st.test)),
                              "the single group [0, N) is returned whenever `%s` holds, which is not the same as `there are no splits`: a "
                              "split array whose entries are all 0 (the first layer in a group of its own) also satisfies it, so L = 2 "
                              "returns one layer" % norm_text(st.test), fn.where(st))
    if zero_ok and fn.name == "_convert_splits_to_groups":
        rep.ok("E2.no-splits", "%s: zero splits (L = 1) give the single group [0, N)" % fn.fq, "edges [0, N] give one group")
    return True


def tiling(rep, ix, fn):
    """case analysis of  for i in range(len(S)): [if i == 0: append(A)] [if i == len(S)-1: append(Z); break] append(M)"""
    loops = [n for n in ast.walk(fn.node) if isinstance(n, ast.For) and isinstance(n.iter, ast.Call)
             and norm_text(n.iter).replace(" ", "").startswith("range(len(")]
    loops = [l for l in loops if any(isinstance(x, ast.Call) and norm_text(x.func).endswith(".append") for x in ast.walk(l))]
    if len(loops) != 1 and _edges_form(rep, ix, fn):
        return
    if len(loops) != 1:
        rep.unknown("E2.tiling", fn.fq, "expected one `for i in range(len(splits))` loop that appends groups, found %d" % len(loops), fn.where())
        return
    lp = loops[0]
    iv = norm_text(lp.target)
    sname = norm_text(lp.iter.args[0].args[0])
    first = last = mid = None
    I = Interp(ix)
    S = Rat.sym(sname, ("array", "int"))
    Nn = Rat.sym("N", ("int",))
    i = Rat.sym(iv, ("int",))

    def interval(call):
        # numpy.arange(a, b)
        from ..interp import Ctx, State
        ctx = Ctx(fn, None, 0)
        ctx.locals = {sname, iv, "N", "out", "grouping"}
        v = I.ev(call, {sname: S, iv: i, "N": Nn}, ctx)
        a = v.single_atom() if isinstance(v, Rat) else None
        if isinstance(a, Fn) and a.name == "arange" and same_value(a.args[2], Rat.const(1)):
            return a.args[0], a.args[1]
        return None

    def appended(stmts):
        out = []
        for st in stmts:
            if isinstance(st, ast.Expr) and isinstance(st.value, ast.Call) and norm_text(st.value.func).endswith(".append"):
                out.append(interval(st.value.args[0]))
        return out
    for st in lp.body:
        if isinstance(st, ast.If) and not st.orelse:
            t = norm_text(st.test).replace(" ", "")
            if t == "%s==0" % iv:
                first = appended(st.body)
            elif t in ("%s==len(%s)-1" % (iv, sname),):
                last = appended(st.body)
                if not any(isinstance(x, ast.Break) for x in st.body):
                    rep.unknown("E2.tiling", fn.fq, "last-iteration branch does not break", fn.where(st))
                    return
            else:
                rep.unknown("E2.tiling", fn.fq, "unrecognised guard %s" % t, fn.where(st))
                return
        elif isinstance(st, ast.Expr):
            mid = appended([st])
        else:
            rep.unknown("E2.tiling", fn.fq, "unrecognised statement in the conversion loop", fn.where(st))
            return
    if not (first and last and mid) or any(x is None for x in first + last + mid) or \
            len(first) != 1 or len(last) != 1 or len(mid) != 1:
        rep.unknown("E2.tiling", fn.fq, "conversion loop does not append one arange per case", fn.where(lp))
        return
    (fa, fb), (la, lb), (ma_, mb) = first[0], last[0], mid[0]
    el = lambda k: Rat.atom(Fn("getitem", (S, k)))
    conds = [
        ("first group starts at 0", same_value(fa, Rat.const(0))),
        ("first group ends where the next starts (n >= 2: middle group of i = 0)", same_value(fb, ma_)),
        ("first group ends where the last starts (n == 1)", same_value(fb, la)),
        ("middle group i ends where middle group i+1 starts",
         same_value(mb, ma_.subst(lambda a: (i + 1) if a == Sym(iv) else None))),
        ("middle group n-2 ends where the last group (i = n-1) starts",
         same_value(mb.subst(lambda a: (i - 1) if a == Sym(iv) else None), la)),
        ("last group ends at N", same_value(lb, Nn)),
    ]
    for label, okc in conds:
        rep.check(okc, "E2.tiling", "%s: %s" % (fn.fq, label),
                  "groups are not contiguous: first [%s, %s), middle [%s, %s), last [%s, %s)"
                  % (nf(fa), nf(fb), nf(ma_), nf(mb), nf(la), nf(lb)), fn.where(lp))
    # n == 0: is a single group [0, N) produced outside the loop?
    zero_ok = False
    for st in fn.node.body:
        if isinstance(st, ast.If):
            t = norm_text(st.test).replace(" ", "")
            if t in ("len(%s)==0" % sname, "notlen(%s)" % sname, "%s.size==0" % sname, "len(%s)<1" % sname):
                for x in ast.walk(st):
                    if isinstance(x, ast.Call) and norm_text(x.func).endswith("arange"):
                        iv0 = interval(x)
                        if iv0 and same_value(iv0[0], Rat.const(0)) and same_value(iv0[1], Nn):
                            zero_ok = True
    if fn.name != "_convert_splits_to_groups":
        return      # the cost-function copy is never asked for the groups that are returned
    rep.check(zero_ok, "E2.no-splits", "%s: zero splits (L = 1) give the single group [0, N)" % fn.fq,
              "with no splits the loop body never runs and no group is produced: compressing to L = 1 layer returns 0 layers "
              "and drops every input layer", fn.where(lp))
