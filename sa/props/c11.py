"""C11 - propagators form a group / evaluate the same Fresnel integral
(clauses decidable from the code's shape).

G1  at outputSpacing == inputSpacing the angular-spectrum propagator reduces to
    ift2( H * ft2(U) ): the quadratic factors Q1, Q3 and the 1/mag amplitude vanish
G2  H = exp(-i*pi*lambda*z*f^2): its logarithm is of degree 1 in z, purely
    imaginary and independent of the input  =>  H(z1) H(z2) = H(z1+z2), H(-z) = 1/H(z)
G3  the ft2/ift2 called here are exact inverses at delta_f = 1/(N*delta):
    inverse shifts on every length, product of scales 1
G4  the z == 0 branch returns the input (consistent with H(0) = 1)
G5  every propagator's normal form equals the textbook discretisation of the
    Fresnel integral written as an analyser-side oracle (same kernel sign,
    prefactor 1/(i lambda z), grids and spacings); the two-step propagator equals
    two chained one-step propagators.
Not decided: Gaussian-beam / Airy references, magnification round trip, orientation.
"""
from ..common import get_index, nf, check_equal, same_value, purity_obligations
from ..field import split_terms, NotLinear
from ..fftalg import INVERSE_SHIFT
from ..interp import Interp, has_unknown, unknown_atoms
from ..plf import Rat, Sym, Fn, find_atoms, vkey as vk
from ..report import AnalysisError
from ..index import norm_text as norm_text_
from .c10 import propagator_forms, MOD, NPARAMS

LEVEL = "other"

ORACLE = '''
import numpy
from . import fouriertransform


def grid(N, d):
    return numpy.meshgrid(numpy.arange(-N / 2., N / 2.) * d, numpy.arange(-N / 2., N / 2.) * d)


def fresnel_one_step(U, wvl, d1, z):
    # U2(r2) = exp(i pi r2^2/(lambda z)) / (i lambda z) * FT[ U1(r1) exp(i pi r1^2/(lambda z)) ](r2/(lambda z))
    N = U.shape[0]
    x1, y1 = grid(N, d1)
    d2 = wvl * z / (N * d1)
    x2, y2 = grid(N, d2)
    return (numpy.exp(1j * numpy.pi / (wvl * z) * (x2 ** 2 + y2 ** 2)) / (1j * wvl * z)
            * fouriertransform.ft2(U * numpy.exp(1j * numpy.pi / (wvl * z) * (x1 ** 2 + y1 ** 2)), d1))


def lens_focal_plane(U, wvl, d1, f):
    # object against the lens: the lens cancels the inner quadratic phase
    N = U.shape[0]
    d2 = wvl * f / (N * d1)
    x2, y2 = grid(N, d2)
    return numpy.exp(1j * numpy.pi / (wvl * f) * (x2 ** 2 + y2 ** 2)) / (1j * wvl * f) * fouriertransform.ft2(U, d1)


def angular_spectrum(U, wvl, d1, d2, z):
    # Schmidt (2010) eq. 6.67 with magnification m = d2/d1
    N = U.shape[0]
    m = d2 / d1
    x1, y1 = grid(N, d1)
    x2, y2 = grid(N, d2)
    df = 1. / (N * d1)
    fx, fy = grid(N, df)
    Q1 = numpy.exp(1j * numpy.pi / wvl * (1 - m) / z * (x1 ** 2 + y1 ** 2))
    Q2 = numpy.exp(-1j * numpy.pi * wvl * z / m * (fx ** 2 + fy ** 2))
    Q3 = numpy.exp(1j * numpy.pi / wvl * (m - 1) / (m * z) * (x2 ** 2 + y2 ** 2))
    return Q3 * fouriertransform.ift2(Q2 * fouriertransform.ft2(Q1 * U / m, d1), df)


def unit_transfer(U, wvl, d, z):
    N = U.shape[0]
    df = 1. / (N * d)
    fx, fy = grid(N, df)
    return fouriertransform.ift2(numpy.exp(-1j * numpy.pi * wvl * z * (fx ** 2 + fy ** 2)) * fouriertransform.ft2(U, d), df)
'''


def run(rep, tier, root=None):
    ix = get_index(root)
    om = ix.virtual("_oracle_c11", ORACLE)
    rep.trusted_base += ["analyser-side oracle: textbook discretisation of the Fresnel integral (Schmidt 2010), sa/props/c11.py",
                         "numpy: ifft2 o fft2 = id; shift algebra (see C09)"]
    rep.assumptions += ["square N x N grids; scalar parameters real; additive literals <= 1e-9 are epsilon guards"]
    rep.explanation = ("The propagators' normal forms (repo ft2/ift2 inlined) are compared, as rational/exponential normal "
                       "forms, with oracle definitions evaluated by the same abstract interpreter; the unit-magnification "
                       "angular spectrum is shown to be F^-1 exp(z*L) F with L input-independent, which is a one-parameter "
                       "group; none of this samples inputs.")
    rep.rule_text = "G1..G5, one obligation per (rule, propagator/path)"
    rep.files_analysed.update([ix.module(MOD).relpath, ix.module("aotools.fouriertransform").relpath])

    I = Interp(ix, square=True)

    def oracle(name, args):
        f = ix.func(om.name, name)
        vals = [v for _, v in I.returns(f, args)]
        if len(vals) != 1:
            raise AnalysisError("oracle %s is not straight-line" % name)
        return vals[0]

    forms = {}
    for name in NPARAMS:
        forms[name] = propagator_forms(ix, name)
        rep.functions_analysed.add(forms[name][0].fq)

    # ------------------------------------------------ angular spectrum
    f, field, N, rets = forms["angularSpectrum"]
    p = f.params
    U = Rat.sym(p[0], ("array", "field", "complex"))
    wvl, d1, d2, z = [Rat.sym(x) for x in p[1:5]]
    from .c10 import is_zero_distance_path
    id_paths = [(c, v) for c, v in rets if is_zero_distance_path(c, p[4])]
    prop_paths = [(c, v) for c, v in rets if not is_zero_distance_path(c, p[4])]
    # G4
    if id_paths:
        for c, v in id_paths:
            rep.check(isinstance(v, Rat) and v.single_atom() == field, "G4.zero-distance", f.fq + ": z == 0 branch returns the input",
                      "propagation over distance 0 returns %s instead of the input field" % nf(v, 80), f.where(),
                      note="z == 0 -> input (H(0) = 1)")
    else:
        rep.ok("G4.zero-distance", f.fq + ": no short-circuit", "z = 0 is handled by the general path")
    for c, v in prop_paths:
        if isinstance(v, Rat) and v.single_atom() == field:
            rep.violation("G4.zero-distance", f.fq + ": identity returned for z != 0",
                          "a path returns the input unchanged under condition %s" % list(c), f.where())
    prop_paths = [(c, v) for c, v in prop_paths if not (isinstance(v, Rat) and v.single_atom() == field)]
    # branch decisions of every path (a special-cased unit-magnification path is legitimate only under outputSpacing == inputSpacing)
    from ..interp import Interp as _I
    I_as = _I(ix, square=True)
    cnf_of = {tuple(c_): n_ for c_, n_, v_ in I_as.paths(f, I_as.symbolic_args(f, {p[0]: ("array", "field", "complex")}))}
    d1s, d2s = Sym(p[2]), Sym(p[3])

    def spacing_guards(c):
        out = []
        for val, truth in cnf_of.get(tuple(c), ()):
            if isinstance(val, Rat) and any(a in (d1s, d2s) for a in val.atoms()):
                a = val.single_atom()
                is_eq = isinstance(a, Fn) and a.name == "cmp" and a.args[0] in ("==", "!=") and \
                    {vk(a.args[1]), vk(a.args[2])} == {vk(d1), vk(d2)}
                out.append((val, truth, is_eq and ((a.args[0] == "==") == truth)))
        return out
    unit_path = None
    if not prop_paths:
        rep.unknown("G1.unit-magnification", f.fq, "no propagating path", f.where())
    for c, v in prop_paths:
        guards = spacing_guards(c)
        tagp = f.fq + ("[%s]" % "; ".join(c) if len(prop_paths) > 1 else "")
        if has_unknown(v):
            rep.unknown("G5.fresnel-integral", tagp, "unrecognised constructs %s" % [repr(a)[:50] for a in unknown_atoms(v)][:3], f.where())
            continue
        want_full = oracle("angular_spectrum", [U, wvl, d1, d2, z])
        if any(eqt for val, truth, eqt in guards):
            # taken only when the two spacings are equal: compared with the formula at outputSpacing = inputSpacing
            sub = lambda x: x.subst(lambda a: d1 if a == d2s else None)
            check_equal(rep, "G5.fresnel-integral", tagp + " == Schmidt angular-spectrum formula at outputSpacing == inputSpacing", sub(v), sub(want_full),
                        f.where(), what="angularSpectrum")
            unit_path = v
        else:
            pos = [nf(val, 60) for val, truth, eqt in guards if truth]
            check_equal(rep, "G5.fresnel-integral", tagp + " == Schmidt angular-spectrum formula" +
                        (" (taken whenever %s, which does not imply equal spacings)" % " and ".join(pos) if pos else ""), v, want_full,
                        f.where(), what="angularSpectrum")
            if unit_path is None and (pos or len(prop_paths) == 1):
                unit_path = v
    if unit_path is not None:
        v = unit_path
        if True:
            # G1/G2: substitute outputSpacing := inputSpacing
            vu = v.subst(lambda a: d1 if a == d2s else None)
            want = oracle("unit_transfer", [U, wvl, d1, z])
            check_equal(rep, "G1.unit-magnification", f.fq + "[outputSpacing := inputSpacing] == ift2(H * ft2(U))", vu, want,
                        f.where(), what="unit-magnification propagator")
            _group_structure(rep, f, vu, field, Sym(p[4]), N)

    # G3 on the very ft2 / ift2 the propagator calls
    from .c09 import analyse as ft_analyse
    I2 = Interp(ix, square=False)
    ws = {}
    for nm in ("ft2", "ift2"):
        ff, data, sp, res = ft_analyse(ix, I2, nm)
        if isinstance(res, str):
            rep.unknown("G3.transform-pair", ff.fq, res, ff.where())
        else:
            ws[nm] = (ff, res[0])
    if len(ws) == 2:
        wf, wi = ws["ft2"][1], ws["ift2"][1]
        a = (wi.s_in[0] if wi.s_in else None) == INVERSE_SHIFT[wf.s_out[0] if wf.s_out else None]
        b = (wi.s_out[0] if wi.s_out else None) == INVERSE_SHIFT[wf.s_in[0] if wf.s_in else None]
        rep.check(a and b, "G3.transform-pair", "ift2 o ft2 = id on every length (shifts)",
                  "the shifts of ift2 do not undo those of ft2: composition of two propagation steps is not a single step",
                  ws["ift2"][0].where())
        ns = [x for x in wi.scale.atoms() if isinstance(x, Sym) and x.name.startswith("shape(")]
        if len(ns) == 1:
            Nn = Rat.atom(ns[0])
            dl, dfs = Sym(ws["ft2"][0].params[1]), Sym(ws["ift2"][0].params[1])
            prod = (wf.scale * wi.scale).subst(lambda x: (1 / (Nn * Rat.atom(dl))) if x == dfs else None)
            rep.check(prod.equals(Rat.const(1)), "G3.transform-pair", "scale(ft2)*scale(ift2) == 1 at df = 1/(N d)",
                      "product of scales is %s" % nf(prod), ws["ift2"][0].where())
        else:
            rep.unknown("G3.transform-pair", "ift2 scale", "no unique array length in %s" % nf(wi.scale), ws["ift2"][0].where())

    # ------------------------------------------------ one-step / lens / two-step against the Fresnel integral
    f1, field1, N1, rets1 = forms["oneStepFresnel"]
    _one_step_rule(rep, ix, f1, lambda a: oracle("fresnel_one_step", a))
    f3, field3, N3, rets3 = forms["lensAgainst"]
    _one(rep, f3, rets3, lambda a: oracle("lens_focal_plane", a), "lens_focal_plane")

    # two-step == two chained one-step evaluations of the Fresnel integral (sibling agreement), on every path.  Each step uses
    # either the forward kernel exp(-2i pi x.f) (what oneStepFresnel does) or the mirrored one exp(+2i pi x.f), written
    # conj(oneStep(conj(U), -Dz)); which of the four combinations a path is, is found by matching.
    f2 = ix.func(MOD, "twoStepFresnel")
    p2 = f2.params
    U2 = Rat.sym(p2[0], ("array", "field", "complex"))
    w2, a1, a2, zz = [Rat.sym(x) for x in p2[1:5]]
    N2 = forms["twoStepFresnel"][2]
    I2s = Interp(ix, square=True)
    paths2 = I2s.paths(f2, I2s.symbolic_args(f2, {p2[0]: ("array", "field", "complex")}), split="deep")
    n_two = 0

    def one_step(U_, d_in, Dz, tau):
        # the textbook one-step evaluation (oracle text), forward or mirrored kernel
        if tau > 0:
            return oracle("fresnel_one_step", [U_, w2, d_in, Dz])
        r_ = oracle("fresnel_one_step", [U_.conj(), w2, d_in, -Dz])
        return r_.conj() if isinstance(r_, Rat) else None
    for conds, cnf, v in paths2:
        n_two += 1
        tag = "%s[%s]" % (f2.fq, "; ".join(conds) or "main path")
        if not isinstance(v, Rat) or has_unknown(v):
            rep.unknown("G5.two-step", tag, "unrecognised constructs", f2.where())
            continue
        m = a2 / a1
        unit = any("ZeroDivisionError" in c for c in conds) or any(
            isinstance(val_, Rat) and isinstance(val_.single_atom(), Fn) and val_.single_atom().name == "cmp" and val_.single_atom().args[0] == "=="
            and tr_ and {vk(val_.single_atom().args[1]), vk(val_.single_atom().args[2])} == {vk(m), vk(Rat.const(1))} for val_, tr_ in cnf)
        Dz1 = zz / (1 + m) if unit else zz / (1 - m)
        Dz2 = zz - Dz1
        matched = None
        for t1 in (1, -1):
            for t2 in (1, -1):
                # the intermediate grid is labelled with a positive spacing |lambda Dz1 / (N d1)|: in the chain its sign is the
                # orientation of step 1
                d1a = w2 * Dz1 / (N2 * a1) * t1
                s1 = one_step(U2, a1, Dz1, t1)
                s2 = one_step(s1, d1a, Dz2, t2) if s1 is not None else None
                if s2 is None:
                    continue
                want = s2.subst(lambda a: N2 if (isinstance(a, Fn) and a.name == "shape") else None)
                if same_value(_drop_abs(v), _drop_abs(want)):
                    matched = (t1, t2)
                    break
            if matched:
                break
        if matched is None:
            s1 = one_step(U2, a1, Dz1, 1)
            want = one_step(s1, w2 * Dz1 / (N2 * a1), Dz2, 1)
            want = want.subst(lambda a: N2 if (isinstance(a, Fn) and a.name == "shape") else None)
            check_equal(rep, "G5.two-step", tag + " == oneStep(oneStep(U, d1, Dz1), d1a, Dz2)", v, want, f2.where(), what="twoStepFresnel")
            continue
        rep.ok("G5.two-step", tag + " == step(step(U, d1, Dz1), d1a, Dz2)", "kernels: %s, %s" % tuple("forward" if t > 0 else "mirrored" for t in matched))
        # G7 orientation: sample l of a step's output sits at the true coordinate l * tau * lambda Dz / (N s_in), s_in the
        # true (signed) spacing of its input samples.  After both steps the true spacing must be the +d2 the output is
        # returned on, for every sign of the distances the path can be taken with.
        t1, t2 = matched
        pos_syms = {Sym(p2[1]), Sym(p2[2]), Sym(p2[3])} | set(x for x in N2.atoms())
        feas = _feasible_signs(cnf, Dz1, pos_syms)
        if feas is None:
            rep.unknown("G7.orientation", tag, "cannot decide the signs of the step distances on this path", f2.where())
            continue
        if not feas:
            rep.ok("G7.orientation", tag, "path cannot be taken (its conditions on the step distances contradict Dz2/Dz1 = -d2/d1)", False)
            continue
        s_1 = w2 * Dz1 / (N2 * a1) * t1
        s_2 = w2 * Dz2 / (N2 * s_1) * t2
        ratio = s_2 / a2
        if unit:
            ratio = ratio.subst(lambda a: a1 if a == Sym(p2[3]) else None)
        from ..plf import simplify_ratio
        ratio = simplify_ratio(ratio)
        rc = ratio.real_const() if isinstance(ratio, Rat) else None
        rep.check(rc is not None and abs(rc - 1) < 1e-12, "G7.orientation", tag + ": output samples sit at +d2 * index (same orientation as the input and as angularSpectrum)",
                  "the two chained Fresnel steps (%s, %s kernel) put output sample l at the coordinate %s * d2 * l: the field is returned "
                  "rotated by 180 degrees on its grid (one of the two step distances is always negative - their ratio is -d2/d1 - and "
                  "the forward transform is used for both), so twoStepFresnel and angularSpectrum disagree in orientation on the same grid"
                  % ("forward" if t1 > 0 else "mirrored", "forward" if t2 > 0 else "mirrored", nf(ratio, 40)), f2.where())
    purity_obligations(rep, ix, [ix.func(MOD, n) for n in NPARAMS] + [ix.func("aotools.fouriertransform", n) for n in ("ft2", "ift2")],
                       "G6.pure", "composing or comparing propagators on the same input field gives different results depending on "
                       "which one ran first")
    # G10: a special case must not be detected through ZeroDivisionError - float division by a NumPy scalar zero returns
    # inf with a warning instead of raising, so the handler is never reached for such arguments
    import ast as _ast
    n_g10 = 0
    for name_ in NPARAMS:
        fn_ = ix.func(MOD, name_)
        for t_ in _ast.walk(fn_.node):
            if isinstance(t_, _ast.Try):
                for h_ in t_.handlers:
                    names_ = [norm_text_(x_) for x_ in ([h_.type] if h_.type is not None and not isinstance(h_.type, _ast.Tuple) else (h_.type.elts if h_.type is not None else []))]
                    if any(n_.split(".")[-1] in ("ZeroDivisionError", "ArithmeticError") for n_ in names_) and \
                            any(isinstance(x_, _ast.BinOp) and isinstance(x_.op, _ast.Div) for b_ in t_.body for x_ in _ast.walk(b_)):
                        n_g10 += 1
                        rep.violation("G10.special-case-by-exception", "%s: except %s" % (fn_.fq, "/".join(names_)),
                                      "a division is guarded by `except %s`: with a NumPy scalar operand (an element of an array of "
                                      "distances or spacings) the division returns inf and a warning instead of raising, the special case is "
                                      "not taken and the result is nan everywhere" % "/".join(names_), fn_.where(h_))
    if not n_g10:
        rep.ok("G10.special-case-by-exception", "propagators: no special case is dispatched through ZeroDivisionError")
    # G8: the coordinate axes share the transforms' origin.  ft2 / ift2 take sample N//2 as the origin (ifftshift before,
    # fftshift after); an axis arange(-N/2, N/2) * d has its zero at index N/2, which is a sample only for even N - for odd N
    # every coordinate is half a sample off, the chirps are evaluated on a displaced grid and the beam moves sideways by
    # lambda z / (2 N d)
    for name_ in NPARAMS:
        fn_ = ix.func(MOD, name_)
        Ig = Interp(ix, square=True)
        vals_ = [v_ for c_, n__, v_ in Ig.paths(fn_, Ig.symbolic_args(fn_, {fn_.params[0]: ("array", "field", "complex")}), split="deep") if isinstance(v_, Rat)]
        Nn_ = Rat.sym("N[%s]" % fn_.params[0], ("int", "size"))
        half_ = set()
        whole_ = set()
        for v_ in vals_:
            for a_ in v_.atoms(True):
                if isinstance(a_, Fn) and a_.name == "arange" and len(a_.args) == 3 and isinstance(a_.args[0], Rat) and a_.args[0].depends_on(Nn_.single_atom()):
                    lo_ = a_.args[0]
                    if same_value(lo_, -Nn_ / 2):
                        half_.add(nf(lo_, 40))
                    else:
                        whole_.add(nf(lo_, 40))
        if half_:
            rep.violation("G8.grid-origin", "%s: coordinate axes start at %s" % (fn_.fq, sorted(half_)[0]),
                          "the coordinate axes are arange(-N/2, N/2) * spacing: their zero is at index N/2, which for odd N lies between two "
                          "samples, while ft2 / ift2 take sample N//2 as the origin - every chirp and transfer function is evaluated half a "
                          "sample off, an on-axis beam is displaced by lambda z / (2 N d), and the propagators disagree with each other and "
                          "with the analytic solutions (N = 129: 0.06 - 0.27 in relative norm; exact for even N)", fn_.where())
        elif vals_:
            rep.ok("G8.grid-origin", fn_.fq + ": coordinate axes have their zero at sample N//2 for every N")
    # G9: a constant added to a squared radius inside a chirp is a constant phase exp(i k (1 - m) / (2 z) eps), not a harmless
    # guard: k / z is large
    I_eps = Interp(ix, square=True)
    fa_ = ix.func(MOD, "angularSpectrum")
    I_eps.paths(fa_, I_eps.symbolic_args(fa_, {fa_.params[0]: ("array", "field", "complex")}))
    rep.check(not I_eps.eps_guards, "G9.no-offset-in-chirp", fa_.fq + ": the quadratic phase factors are those of the squared radii themselves",
              "a constant %s is added to a squared radius that is multiplied by k (1 - m) / (2 z) in a chirp: every output sample is "
              "multiplied by exp(i k (1 - m) / (2 z) * %s) (0.3 rad for wvl = 1e-6, z = 1e-3, m = 1.5), so the result differs from the other "
              "propagators and from the analytic Gaussian beam by a constant phase whenever the magnification is not 1"
              % (I_eps.eps_guards[:1], I_eps.eps_guards[:1]), fa_.where())
    rep.floor("two-step paths", n_two, 1)


def _one_step_rule(rep, ix, f, orc):
    """oneStepFresnel: on every path the value is the textbook one-step evaluation with the forward kernel, or the same with
    the mirrored kernel conj(ft2(conj(.))) (written conj(oracle(conj(U), -z))); G7: output sample l sits at
    tau * lambda z / (N d1) * l, which must be a positive multiple of l for every sign of z the path can be taken with."""
    p = f.params
    U = Rat.sym(p[0], ("array", "field", "complex"))
    w, d1, z = [Rat.sym(x) for x in p[1:4]]
    I = Interp(ix, square=True)
    paths = I.paths(f, I.symbolic_args(f, {p[0]: ("array", "field", "complex")}), split="deep")
    N = Rat.sym("N[%s]" % p[0], ("int", "size"))
    if not paths:
        rep.unknown("G5.fresnel-integral", f.fq, "no returning path", f.where())
    for conds, cnf, v in paths:
        tag = f.fq + ("[%s]" % "; ".join(conds) if len(paths) > 1 else "")
        if not isinstance(v, Rat) or has_unknown(v):
            rep.unknown("G5.fresnel-integral", tag, "unrecognised constructs %s" % [repr(a)[:50] for a in unknown_atoms(v)][:3], f.where())
            continue
        fwd = orc([U, w, d1, z])
        mir = orc([U.conj(), w, d1, -z]).conj()
        tau = 1 if same_value(_drop_abs(v), _drop_abs(fwd)) else -1 if same_value(_drop_abs(v), _drop_abs(mir)) else None
        if tau is None:
            check_equal(rep, "G5.fresnel-integral", "%s == fresnel_one_step (oracle)" % tag, v, fwd, f.where(), what=f.name)
            continue
        rep.ok("G5.fresnel-integral", "%s == fresnel_one_step (oracle), %s kernel" % (tag, "forward" if tau > 0 else "mirrored"))
        feas = _feasible_signs(cnf, z, {Sym(p[1]), Sym(p[2])} | set(N.atoms()))
        if feas is None:
            rep.unknown("G7.orientation", tag, "cannot decide the sign of the distance on this path", f.where())
            continue
        bad = [sg for sg in feas if sg * tau < 0]
        rep.check(not bad, "G7.orientation", tag + ": output samples sit at +|lambda z / (N d1)| * index for either sign of z",
                  "for z %s 0 the %s transform puts output sample l at a negative multiple of l: the field is returned rotated by 180 "
                  "degrees relative to the other propagators on the same grid (a round trip +z, -z returns the mirrored input)"
                  % ("<" if -1 in bad else ">", "forward" if tau > 0 else "mirrored"), f.where())
    rep.sample({"function": f.fq, "paths": len(paths)})


def _drop_abs(v):
    """|x| -> x: the two-step normal forms contain the intermediate spacing only squared, or as the scale d1a^2 of ft2"""
    if not isinstance(v, Rat):
        return v
    return v.subst(lambda a: a.args[0] if isinstance(a, Fn) and a.name == "abs" and len(a.args) == 1 and isinstance(a.args[0], Rat) else None)


def _feasible_signs(cnf, ref, pos_syms):
    """the signs (+1 / -1) the reference distance `ref` can have on a path whose conditions compare quantities X with 0,
    every such X being a sign-definite multiple of `ref` (X / ref = c * product of positive symbols).  None if some
    condition about a distance cannot be related to `ref`."""
    from ..plf import simplify_ratio
    out = []
    for sg in (1, -1):
        ok = True
        for val, truth in cnf:
            a = val.single_atom() if isinstance(val, Rat) else None
            if not (isinstance(a, Fn) and a.name == "cmp" and a.args[0] in ("<", ">", "<=", ">=")):
                continue
            op, l, r_ = a.args
            if isinstance(l, Rat) and l.is_zero():
                l, r_ = r_, l
                op = {"<": ">", ">": "<", "<=": ">=", ">=": "<="}[op]
            if not (isinstance(r_, Rat) and r_.is_zero() and isinstance(l, Rat)):
                continue
            q = simplify_ratio(l / ref)
            st = q.single_term() if isinstance(q, Rat) and q.den_is_one() else None
            if st is None or abs(complex(st[0]).imag) > 0 or not all(at in pos_syms for at, e in st[1]):
                return None
            sx = sg * (1 if complex(st[0]).real > 0 else -1)
            holds = {"<": sx < 0, ">": sx > 0, "<=": sx <= 0, ">=": sx >= 0}[op]
            if holds != truth:
                ok = False
        if ok:
            out.append(sg)
    return out


def _one(rep, f, rets, orc, oname):
    p = f.params
    U = Rat.sym(p[0], ("array", "field", "complex"))
    args = [U] + [Rat.sym(x) for x in p[1:]]
    if len(rets) != 1:
        rep.unknown("G5.fresnel-integral", f.fq, "expected one path, found %d" % len(rets), f.where())
        return
    v = rets[0][1]
    if has_unknown(v):
        rep.unknown("G5.fresnel-integral", f.fq, "unrecognised constructs %s" % [repr(a)[:50] for a in unknown_atoms(v)][:3], f.where())
        return
    check_equal(rep, "G5.fresnel-integral", "%s == %s (oracle)" % (f.fq, oname), v, orc(args), f.where(), what=f.name)
    rep.sample({"function": f.fq, "normal_form": nf(v, 300)})


def _group_structure(rep, f, vu, field, zsym, N):
    """vu = s * S(ifft2(S(H * S(fft2(S(U))))));  log H must be z * L, L imaginary, input independent."""
    try:
        g = split_terms(vu, field)
    except NotLinear as e:
        rep.violation("G2.transfer-function", f.fq, "unit-magnification form is not linear: %s" % e, f.where())
        return
    if len(g) != 1:
        rep.violation("G2.transfer-function", f.fq, "unit-magnification form is a sum of %d operators" % len(g), f.where())
        return
    # collect every exp() multiplier anywhere in the form
    exps = find_atoms(vu, lambda a: isinstance(a, Fn) and a.name == "exp")
    exps = [a for a in exps if field not in a.args[0].atoms()]
    if len(exps) != 1:
        rep.violation("G2.transfer-function", f.fq + ": one transfer function",
                      "expected exactly one exponential multiplier at unit magnification, found %d (Q1/Q3 must reduce to 1)" % len(exps),
                      f.where())
        return
    L = exps[0].args[0]
    deg = L.degree(zsym)
    imag = (L + L.conj()).is_zero()
    rep.check(deg == 1, "G2.transfer-function", f.fq + ": log H is of degree 1 in z",
              "log H = %s has degree %s in z: H(z1)H(z2) != H(z1+z2)" % (nf(L, 120), deg), f.where())
    rep.check(imag, "G2.transfer-function", f.fq + ": |H| = 1",
              "log H = %s is not purely imaginary: -z does not undo +z stably" % nf(L, 120), f.where())
    rep.sample({"unit_magnification_logH": nf(L, 200)})
