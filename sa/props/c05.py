"""C05 - infinite screen evolves by exactly one row per step, for any history.

S1  add_row rebinding: _scrn = concat([new_row, _scrn], axis 0)[:stencil_length, :nx_size]
    with new_row of leading extent 1 - the old rows move down by one, the new row
    sits at index 0, the working size is kept (accepted spellings: numpy.append,
    vstack, concatenate)
S2  exposed view: scrn = _scrn[:requested_nx_size, :requested_nx_size] (requested
    size on both axes, also when the working size is larger)
S3  scrn, __repr__ and every method other than the writers are effect free: no
    attribute store, no in-place sink on self state, no call on the generator
S4  who-writes: _scrn is assigned only in make_initial_screen and add_row, the
    generator only in make_initial_screen, A/B only in their makers
S5  exactly one generator draw, of size nx_size, on every path of get_new_row (base
    and Fried override); add_row calls get_new_row exactly once
S6  sizes: requested <= nx_size <= stencil_length (find_allowed_size returns the
    expression whose loop-exit condition bounds it from below)
Not decided: finiteness of values; spectral stability / uniqueness of the
stationary covariance (runtime linear algebra).
"""
import ast

from ..common import get_index, nf, check_equal, same_value, purity_obligations
from ..fx import FX
from ..index import norm_text
from ..interp import Interp, Obj, has_unknown
from ..plf import Rat, Sym, Fn, find_atoms
from ..report import AnalysisError
from .c04 import A, run_method, MOD

LEVEL = "other"
WRITERS = {"_scrn": {"make_initial_screen", "add_row"}, "_R": {"make_initial_screen"},
           "A_mat": {"makeAMatrix"}, "B_mat": {"makeBMatrix"}}
STEP_METHODS = {"add_row", "get_new_row", "scrn", "__repr__"}


def run(rep, tier, root=None):
    ix = get_index(root)
    fx = FX(ix)
    rep.trusted_base += ["numpy.append(a, b, axis=0) == concatenate((a, b), axis=0)", "FX effect summaries (sa/fx.py)"]
    rep.assumptions += ["stencil_length_factor >= 1; construction has succeeded"]
    rep.explanation = ("The step function of the screen is reduced to a normal form of the new internal state in terms of the old one "
                       "and the new row (exact row shift + crop); the exposed view, the writers of every piece of state, the number "
                       "of draws per step and the size relations are read from normal forms, effect summaries and the loop exit "
                       "condition of find_allowed_size - facts that hold after any sequence of add_row / read operations.")
    rep.rule_text = "S1..S6, one obligation per (rule, concrete class or method)"
    mod = ix.module(MOD)
    rep.files_analysed.add(mod.relpath)
    nx, sl, rq = A("nx_size", "int"), A("stencil_length", "int"), A("requested_nx_size", "int")

    for cname in ("PhaseScreenVonKarman", "PhaseScreenKolmogorov"):
        cls = ix.cls(MOD, cname)
        tag = cls.fq
        methods = cls.all_methods()
        for m in methods.values():
            rep.functions_analysed.add(m.fq)
        # ---- S1
        gnr = cls.find_method("get_new_row")
        m, I, o, paths = run_method(ix, cls, "add_row", opaque={gnr.fq})
        new = o.attrs.get("_scrn")
        row = Rat.atom(Fn("call:" + gnr.fq, ()))
        want = Rat.atom(Fn("getitem", (Rat.atom(Fn("concat", ((row, A("_scrn")), 0))),
                                        (("slice", Rat.const(0), sl, None), ("slice", Rat.const(0), nx, None)))))
        if new is None:
            rep.violation("S1.one-row-step", tag + ".add_row", "add_row does not rebind the internal screen", m.where())
        else:
            check_equal(rep, "S1.one-row-step", tag + ".add_row: _scrn = concat([new_row, _scrn], axis=0)[:stencil_length, :nx_size]",
                        _crop_after_prepend(new, row), want,
                        m.where(), what="internal screen after a step")
        ncalls = [c for c in I.call_log if c[0] == m.fq and c[1] == "self.get_new_row"]
        rep.check(len(ncalls) == 1, "S5.one-row-per-step", tag + ".add_row: get_new_row called exactly once",
                  "get_new_row is called %d times per step" % len(ncalls), m.where())
        rep.check(len(paths) == 1 and paths[0][2] is not None and same_value(paths[0][2], _view(new if new is not None else A("_scrn"), rq)),
                  "S2.exposed-view", tag + ".add_row returns the exposed view of the new state",
                  "add_row returns %s" % (nf(paths[0][2], 160) if paths else None), m.where())
        # new row has leading extent 1 and nx_size columns
        m2, I2, o2, p2 = run_method(ix, cls, "get_new_row", presets={"_R": Rat.sym("self._R", ("attr", "rng"))})
        shp = [s for s in I2.store_log if s[0] == m2.fq and s[5] == "attr" and s[2] == ("attr", "shape")]
        ok_shape = len(shp) >= 1 and all(same_value(s[3], (Rat.const(1), nx)) for s in shp)
        if not shp:
            # reshape spelling
            from .c04 import _strip_row_shape
            ok_shape = bool(p2) and isinstance(p2[0][2], Rat) and (any(
                isinstance(a, Fn) and a.name == "reshape" for a in p2[0][2].atoms()) or
                _strip_row_shape(p2[0][2], nx) is not p2[0][2])        # x[numpy.newaxis, :] of the row vector
        rep.check(ok_shape, "S1.row-shape", tag + ".get_new_row: row has shape (1, nx_size)",
                  "new row is shaped %s" % [nf(s[3]) for s in shp], m2.where())
        draws = [a for pth in p2 for a in find_atoms(pth[2], lambda a: isinstance(a, Fn) and a.name == "draw")] if p2 else []
        per_path = [len(find_atoms(pth[2], lambda a: isinstance(a, Fn) and a.name == "draw")) for pth in p2]
        rep.check(bool(p2) and all(k == 1 for k in per_path) and all(same_value(d.args[4], nx) for d in draws), "S5.one-draw-per-row",
                  tag + ".get_new_row: exactly one draw of size nx_size on every path",
                  "draws per path: %s, sizes %s" % (per_path, [nf(d.args[4]) if isinstance(d.args[4], Rat) else d.args[4] for d in draws]), m2.where())
        # ---- S2
        m3, I3, o3, p3 = run_method(ix, cls, "scrn")
        rep.check(len(p3) == 1 and same_value(p3[0][2], _view(A("_scrn"), rq)), "S2.exposed-view",
                  tag + ".scrn == _scrn[:requested_nx_size, :requested_nx_size]",
                  "exposed screen is %s" % (nf(p3[0][2], 160) if p3 else None), m3.where())
        # ---- S3 effect-free readers, S4 who-writes
        # a non-public helper that is only ever called from get_new_row is part of get_new_row (whose effects, helper
        # included, are checked below and by S5); it is not a reader of its own
        callers = {}
        for cname_, cm in methods.items():
            for node_, b_ in fx.summary(cm).calls:
                if b_ is not None and b_.kind == "func" and b_.target.cls is not None:
                    callers.setdefault(b_.target.name.split(".")[-1], set()).add(cname_)
        row_helpers = set(n_ for n_ in methods if n_.startswith("_") and not n_.startswith("__") and
                          callers.get(n_) and callers[n_] <= {"get_new_row"})
        # likewise a non-public helper that is only ever called from construction-phase methods is part of construction
        is_setup = lambda n_: n_ in _all_writers() or n_ == "__init__" or n_.startswith("set_") or n_.startswith("make") or \
            n_ == "calc_seperations"
        setup_helpers = set()
        while True:
            more = set(n_ for n_ in methods if n_.startswith("_") and not n_.startswith("__") and n_ not in setup_helpers and
                       n_ not in row_helpers and callers.get(n_) and all(is_setup(c_) or c_ in setup_helpers for c_ in callers[n_]))
            if not more:
                break
            setup_helpers |= more
        for name, meth in sorted(methods.items()):
            if name in row_helpers:
                continue
            s = fx.summary(meth)
            if name in ("scrn", "__repr__") or (not is_setup(name) and name not in setup_helpers
                                                 and name not in ("add_row", "get_new_row")):
                bad = []
                if s.attr_writes:
                    bad.append("assigns self.%s" % sorted(s.attr_writes))
                if any(ev.kind == "data" for evs in s.attr_mut.values() for ev in evs):
                    bad.append("modifies self.%s in place" % sorted(s.attr_mut))
                if _draws_in(ix, fx, cls, meth):
                    bad.append("draws from the generator")
                rep.check(not bad, "S3.read-only", "%s.%s has no effect on the screen or the random stream" % (tag, name),
                          "; ".join(bad), meth.where())
            for attr, allowed in WRITERS.items():
                direct = _direct_writes(meth, attr)
                if direct and name not in allowed:
                    rep.violation("S4.who-writes", "%s.%s writes self.%s" % (tag, name, attr),
                                  "self.%s is written by %s; only %s may write it" % (attr, name, sorted(allowed)), meth.where(direct[0]))
                # in-place modification of the stored screen by anybody
                for ev in s.attr_mut.get(attr, []):
                    if ev.kind == "data" and ev.func is meth and attr in ("_scrn", "A_mat", "B_mat"):
                        rep.violation("S4.who-writes", "%s.%s modifies self.%s in place: %s" % (tag, name, attr, ev.stmt_text()[:60]),
                                      "self.%s is modified in place (%s): rows other than the new one can change" % (attr, ev.how), ev.where())
        rep.ok("S4.who-writes", tag + ": state attributes have the expected writers only", "_scrn, _R, A_mat, B_mat")
        # get_new_row must not write state
        sg = fx.summary(gnr)
        rep.check(not sg.attr_writes and not any(ev.kind == "data" for evs in sg.attr_mut.values() for ev in evs), "S3.read-only",
                  tag + ".get_new_row only reads the screen", "get_new_row writes %s / modifies %s" % (sorted(sg.attr_writes), sorted(sg.attr_mut)),
                  gnr.where())
        # ---- S6 sizes
        init = cls.find_method("__init__")
        Ii = Interp(ix, opaque={MOD + ":find_allowed_size"})
        oi = Obj(cls)
        stop = {m_.fq for n_, m_ in methods.items() if n_ not in ("__init__",)}
        Ii.opaque |= stop
        n_req = Rat.sym("nx_size", ("int",))
        Ii.paths(init, [n_req] + [Rat.sym(p) for p in init.params[2:]], self_obj=oi)
        rqv, nxv, slv = oi.attrs.get("requested_nx_size"), oi.attrs.get("nx_size"), oi.attrs.get("stencil_length")
        rep.check(rqv is not None and same_value(rqv, n_req), "S6.sizes", tag + ": requested_nx_size = the constructor argument",
                  "requested_nx_size = %s" % nf(rqv), init.where())
        fas = Rat.atom(Fn("call:" + MOD + ":find_allowed_size", (n_req,)))
        if cname == "PhaseScreenVonKarman":
            rep.check(nxv is not None and same_value(nxv, n_req) and slv is not None and same_value(slv, n_req), "S6.sizes",
                      tag + ": nx_size = stencil_length = requested size", "nx_size = %s, stencil_length = %s" % (nf(nxv), nf(slv)), init.where())
        else:
            f_ = Rat.sym(init.params[-1])
            rep.check(nxv is not None and same_value(nxv, fas), "S6.sizes", tag + ": nx_size = find_allowed_size(requested)",
                      "nx_size = %s" % nf(nxv), init.where())
            rep.check(slv is not None and nxv is not None and same_value(slv, f_ * nxv), "S6.sizes", tag + ": stencil_length = factor * nx_size",
                      "stencil_length = %s" % nf(slv), init.where())
    # ---- S7 the recursion matrices are the exact ones on every construction path (necessary for the von Karman covariance to
    #         be the stationary covariance of the row recursion); S8 no state shared between instances
    from .c04 import row_synthesis_rules
    for cname in ("PhaseScreenVonKarman", "PhaseScreenKolmogorov"):
        cls = ix.cls(MOD, cname)
        # every step of the recursion reads the rows the previous step produced (a cached view of an earlier screen would keep the
        # one-row shift, the shape and the finiteness, and lose the stationary covariance from the second step on)
        row_synthesis_rules(rep, ix, cls, cname, cls.fq, A("nx_size", "int"))
        m, I, o, paths = run_method(ix, cls, "makeAMatrix")
        a_ = o.attrs.get("A_mat")
        want = Rat.atom(Fn("dot", (A("cov_mat_xz"), Rat.atom(Fn("inv", (A("cov_mat_zz"),))))))
        rep.check(a_ is not None and same_value(a_, want), "S7.exact-recursion", "%s.makeAMatrix: A = Cov_xz . inv(Cov_zz), or construction fails" % cls.fq,
                  "A = %s: with an approximate inverse the recursion x -> A x + B b no longer has the von Karman covariance as its "
                  "stationary covariance and can be unstable (screen values grow without bound)" % nf(a_, 200), m.where())
        m, I, o, paths = run_method(ix, cls, "makeBMatrix")
        b_ = o.attrs.get("B_mat")
        bbt = A("cov_mat_xx") - Rat.atom(Fn("dot", (A("A_mat"), A("cov_mat_zx"))))
        wantb = Rat.atom(Fn("dot", (Rat.atom(Fn("svd_u", (bbt,))), Rat.atom(Fn("diagmat", (Rat.atom(Fn("svd_w", (bbt,))) ** 0.5,))))))
        from ..common import canon_matrix_forms
        b_ = canon_matrix_forms(b_) if b_ is not None else None
        rep.check(b_ is not None and same_value(b_, wantb), "S7.exact-recursion", "%s.makeBMatrix: B B^T = Cov_xx - A Cov_zx" % cls.fq,
                  "B = %s" % nf(b_, 200), m.where())
    purity_obligations(rep, ix, [f for f in mod.all_functions()], "S8.no-shared-state",
                       "the rows added to one screen depend on other screens created in the same process",
                       internal_out_params={(MOD + ":calc_seperations_fast", "seperations")})
    # find_allowed_size: loop exit condition bounds the result from below
    fa = ix.func(MOD, "find_allowed_size")
    rep.functions_analysed.add(fa.fq)
    wl = [n for n in fa.node.body if isinstance(n, ast.While)]
    rets = [n for n in ast.walk(fa.node) if isinstance(n, ast.Return)]
    ok = False
    if len(wl) == 1 and len(rets) == 1 and isinstance(wl[0].test, ast.Compare) and len(wl[0].test.ops) == 1 and \
            isinstance(wl[0].test.ops[0], (ast.Lt, ast.LtE)):
        lhs = norm_text(wl[0].test.left).replace("(", "").replace(")", "")
        rhs = norm_text(wl[0].test.comparators[0])
        rv = rets[0].value
        rtxt = norm_text(rv)
        defs = {norm_text(s.targets[0]): norm_text(s.value) for s in fa.node.body if isinstance(s, ast.Assign)}
        # the returned name must be bound to the loop's left-hand expression after the loop
        ret_expr = defs.get(rtxt, rtxt).replace("(", "").replace(")", "")
        ok = rhs == fa.params[0] and ret_expr == lhs
    if not ok:
        # the same argument on normal forms, through helper functions: some loop (in the function or a helper it calls) is left
        # with `not (L < request)` and the returned value is that L
        Iw = Interp(ix)
        req = Rat.sym(fa.params[0], ("int",))
        try:
            rvals = [v for c_, v in Iw.returns(fa, [req]) if isinstance(v, Rat)]
        except AnalysisError:
            rvals = []
        exits, other_loops = [], []
        for fq_, ln_, t_ in getattr(Iw, "while_exit_log", []):
            ta = t_.single_atom() if isinstance(t_, Rat) else None
            if isinstance(ta, Fn) and ta.name == "cmp" and ta.args[0] in ("<", "<=") and isinstance(ta.args[1], Rat) and \
                    isinstance(ta.args[2], Rat) and same_value(ta.args[2], req):
                exits.append(ta.args[1])
            else:
                other_loops.append(t_)
        ok = len(rvals) == 1 and any(same_value(rvals[0], l_) for l_ in exits)
        if not ok and not exits and other_loops:
            # a search loop whose exit does not say `candidate >= request`: the bound cannot be established from it
            exits = [None]
        if not ok and not exits and len(rvals) == 1:
            # a closed form: 2 ** E + 1 >= request  iff  E >= log2(request - 1); of the roundings of log2(request - 1) only ceil is
            # never below it
            la = find_atoms(rvals[0], lambda a: isinstance(a, Fn) and a.name in ("log2", "log"))
            rnd = find_atoms(rvals[0], lambda a: isinstance(a, Fn) and a.name in ("round", "rint", "floor", "int", "trunc", "fix", "floordiv", "ceil")
                             and any(isinstance(x, Rat) and x.has_atom(lambda b: isinstance(b, Fn) and b.name in ("log2", "log")) for x in a.args))
            if la and rnd:
                outer = max(rnd, key=lambda a: len(repr(a)))
                names = set(a.name for a in rnd)
                if names <= {"ceil", "int"} and "ceil" in names:
                    arg_ok = any(same_value(a.args[0], req - 1) or
                                 (isinstance(a.args[0].single_atom(), Fn) and a.args[0].single_atom().name == "maximum" and
                                  any(same_value(q, req - 1) for q in a.args[0].single_atom().args if isinstance(q, Rat))) for a in la)
                    want = Rat.atom(Fn("pow", (Rat.const(2), Rat.atom(outer)))) + 1
                    ok = arg_ok and same_value(rvals[0], want)
                    exits = [None]
                else:
                    rep.violation("S6.allowed-size", fa.fq + ": returns the first 2^n + 1 that is not smaller than the request",
                                  "the exponent is log2(request - 1) rounded by %s: it can be rounded down, and 2^n + 1 is then smaller than "
                                  "the requested size (e.g. a request just above 2^n + 1)" % "/".join(sorted(names - {"int"}) or ["int"]), fa.where())
                    ok = None
                    exits = [None]
        if not ok and not exits:
            rep.unknown("S6.allowed-size", fa.fq + ": returns the first 2^n + 1 that is not smaller than the request",
                        "no loop of the form `while <candidate> < request` found in %s or its helpers: the search is written in a way "
                        "the rule cannot read" % fa.name, fa.where())
            ok = None
    if ok is not None:
        rep.check(ok, "S6.allowed-size", fa.fq + ": returns the first 2^n + 1 that is not smaller than the request",
                  "cannot establish result >= requested size from `while %s` / `return %s`" % (norm_text(wl[0].test) if wl else "?",
                                                                                               norm_text(rets[0].value) if rets else "?"), fa.where())
    # the recursion stays bounded only if A and B are those of the theoretical covariance: a covariance evaluated in single
    # precision gives, for pixel_scale << L0, an A with spectral radius > 1 although the Cholesky test on Cov_zz passes
    from ..common import narrowing_casts
    fpc = ix.func("aotools.turbulence.turb", "phase_covariance")
    rep.functions_analysed.add(fpc.fq)
    nc_ = narrowing_casts(fpc)
    for node_, text_ in nc_:
        rep.violation("S6.covariance-precision", "%s: %s" % (fpc.fq, text_),
                      "%s: the covariance the A and B matrices are solved from has single precision; for finely sampled screens "
                      "(pixel_scale/L0 below about 1e-4) the row recursion then has spectral radius above 1 and the exposed screen "
                      "overflows to inf / nan after some hundred add_row() steps" % text_, fpc.where(node_))
    if not nc_:
        rep.ok("S6.covariance-precision", fpc.fq + ": the covariance is evaluated in double precision")
    rep.floor("C05 obligations", len(rep.obligations), 22)


def _all_writers():
    out = set()
    for v in WRITERS.values():
        out |= v
    return out


def _crop_after_prepend(v, row):
    """prepending the one new row and keeping the first n rows == keeping the first n - 1 old rows and prepending the row
    (the row has leading extent 1: S1.row-shape; n = stencil_length >= 1):
    concat((row, S[:m]), 0)[:, cols]  ->  concat((row, S), 0)[:m + 1, cols]"""
    from ..interp import _is_slice, _is_full_slice
    a = v.single_atom() if isinstance(v, Rat) else None
    if not (isinstance(a, Fn) and a.name == "getitem" and isinstance(a.args[0], Rat) and isinstance(a.args[1], tuple) and len(a.args[1]) == 2
            and _is_full_slice(a.args[1][0])):
        return v
    c = a.args[0].single_atom()
    if not (isinstance(c, Fn) and c.name == "concat" and len(c.args) == 2 and isinstance(c.args[0], tuple) and len(c.args[0]) == 2
            and isinstance(c.args[1], int) and c.args[1] == 0 and same_value(c.args[0][0], row) and isinstance(c.args[0][1], Rat)):
        return v
    k = c.args[0][1].single_atom()
    if not (isinstance(k, Fn) and k.name == "getitem" and isinstance(k.args[0], Rat)):
        return v
    i = k.args[1]
    i0 = i[0] if isinstance(i, tuple) and not _is_slice(i) and i else i
    rest_full = (not isinstance(i, tuple)) or _is_slice(i) or all(_is_full_slice(x) for x in i[1:])
    if _is_slice(i0) and rest_full and i0[3] is None and isinstance(i0[1], Rat) and i0[1].is_zero() and isinstance(i0[2], Rat):
        full = Rat.atom(Fn("concat", ((row, k.args[0]), 0)))
        return Rat.atom(Fn("getitem", (full, (("slice", Rat.const(0), i0[2] + 1, None), a.args[1][1]))))
    return v


def _view(scr, rq):
    return Rat.atom(Fn("getitem", (scr, (("slice", Rat.const(0), rq, None), ("slice", Rat.const(0), rq, None)))))


def _direct_writes(meth, attr):
    out = []
    for n in ast.walk(meth.node):
        if isinstance(n, (ast.Assign, ast.AugAssign, ast.AnnAssign)):
            tg = n.targets if isinstance(n, ast.Assign) else [n.target]
            for t in tg:
                for x in ast.walk(t):
                    if isinstance(x, ast.Attribute) and isinstance(x.value, ast.Name) and x.value.id == "self" and x.attr == attr \
                            and isinstance(x.ctx, ast.Store):
                        out.append(n)
    return out


def _draws_in(ix, fx, cls, meth, seen=None):
    """does the method (or a self-method / property it uses) call a draw on the instance generator?"""
    seen = seen or set()
    if meth.fq in seen:
        return False
    seen.add(meth.fq)
    s = fx.summary(meth)
    for c, recv in s.rng_draws:
        if any(o[0] in ("A", "VA") for o in recv) or isinstance(c.func.value, ast.Attribute):
            return True
    if s.rng_global:
        return True
    for n in ast.walk(meth.node):
        if isinstance(n, ast.Attribute) and isinstance(n.value, ast.Name) and n.value.id == "self":
            m = cls.find_method(n.attr)
            if m is not None and m is not meth and _draws_in(ix, fx, cls, m, seen):
                return True
    return False
