"""C07 - FFT phase screens have the discretised (modified) von Karman statistics.

The body of ft_phase_screen / ft_sh_phase_screen (with the module's ift2 wrapper
inlined) is reduced to a normal form and compared with an analyser-side oracle
that writes the law stated in the property: coefficients
(n1 + i n2) * sqrt(PSD(f)) * del_f on the grid f = k/(N delta), k = -N/2..N/2-1,
PSD = 0.023 r0^(-5/3) exp(-(f/fm)^2) (f^2 + 1/L0^2)^(-11/6), fm = 5.92/(2 pi l0),
zero frequency removed, screen = Re(plain inverse DFT sum); sub-harmonics:
three 3x3 grids with spacing 1/(3^p N delta), mean removed, added to the FFT screen.
Clause rules P1..P6 then decompose the same normal form for diagnosable reports.
Even N is the property's hypothesis (int(N/2) = N/2; fftshift = ifftshift).
"""
from fractions import Fraction as Fr

from ..common import get_index, nf, check_equal, same_value, check_degree
from ..interp import Interp, has_unknown, unknown_atoms
from ..plf import Rat, Sym, Fn, PowA, find_atoms, rpow
from ..report import AnalysisError

LEVEL = "other"
MOD = "aotools.turbulence.phasescreen"

ORACLE = '''
import numpy


def psd(f2, r0, L0, l0):
    fm = 5.92 / (2 * numpy.pi * l0)
    return 0.023 * r0 ** (-5. / 3) * numpy.exp(-f2 / fm ** 2) * (f2 + 1. / L0 ** 2) ** (-11. / 6)


def fft_screen(r0, N, delta, L0, l0, seed):
    R = numpy.random.default_rng(seed)
    del_f = 1. / (N * delta)
    k = numpy.arange(-N / 2., N / 2.)
    fx, fy = numpy.meshgrid(k * del_f, k * del_f)
    P = psd(fx ** 2 + fy ** 2, r0, L0, l0)
    P[N / 2, N / 2] = 0
    cn = (R.normal(size=(N, N)) + 1j * R.normal(size=(N, N))) * numpy.sqrt(P) * del_f
    # plain (un-normalised) inverse DFT sum with centred ordering
    return (numpy.fft.ifftshift(numpy.fft.ifft2(numpy.fft.fftshift(cn))) * N ** 2).real


def subharmonic_screen(r0, N, delta, L0, l0, seed):
    # ONE stream: the FFT screen and the sub-harmonic coefficients are independent draws of the same generator
    R = numpy.random.default_rng(seed)
    hi = fft_screen(r0, N, delta, L0, l0, R)
    c = numpy.arange(-N / 2., N / 2.) * delta
    x, y = numpy.meshgrid(c, c)
    lo = numpy.zeros((N, N))
    for p in range(1, 4):
        del_f = 1. / (3 ** p * N * delta)
        k = numpy.arange(-1, 2)
        fx, fy = numpy.meshgrid(k * del_f, k * del_f)
        P = psd(fx ** 2 + fy ** 2, r0, L0, l0)
        P[1, 1] = 0
        cn = (R.normal(size=(3, 3)) + 1j * R.normal(size=(3, 3))) * numpy.sqrt(P) * del_f
        SH = numpy.zeros((N, N))
        for i in range(0, 3):
            for j in range(0, 3):
                SH += cn[i, j] * numpy.exp(1j * 2 * numpy.pi * (fx[i, j] * x + fy[i, j] * y))
        lo = lo + SH
    lo = lo.real - lo.real.mean()
    return lo + hi


def subharmonic_screen_flat(r0, N, delta, L0, l0, seed):
    # the same sum with the nine frequencies of each grid enumerated in one flat (row-major) loop over the 3 x 3 arrays
    R = numpy.random.default_rng(seed)
    hi = fft_screen(r0, N, delta, L0, l0, R)
    c = numpy.arange(-N / 2., N / 2.) * delta
    x, y = numpy.meshgrid(c, c)
    lo = numpy.zeros((N, N))
    for p in range(1, 4):
        del_f = 1. / (3 ** p * N * delta)
        k = numpy.arange(-1, 2)
        fx, fy = numpy.meshgrid(k * del_f, k * del_f)
        P = psd(fx ** 2 + fy ** 2, r0, L0, l0)
        P[1, 1] = 0
        cn = (R.normal(size=(3, 3)) + 1j * R.normal(size=(3, 3))) * numpy.sqrt(P) * del_f
        SH = numpy.zeros((N, N))
        for a, fa, fb in zip(cn.ravel(), fx.ravel(), fy.ravel()):
            SH += a * numpy.exp(1j * 2 * numpy.pi * (fa * x + fb * y))
        lo = lo + SH
    lo = lo.real - lo.real.mean()
    return lo + hi


def subharmonic_screen_indexed(r0, N, delta, L0, l0, seed):
    # the same sum again, the nine frequencies of each grid numbered 0..8 in row-major order
    R = numpy.random.default_rng(seed)
    hi = fft_screen(r0, N, delta, L0, l0, R)
    c = numpy.arange(-N / 2., N / 2.) * delta
    x, y = numpy.meshgrid(c, c)
    lo = numpy.zeros((N, N))
    for p in range(1, 4):
        del_f = 1. / (3 ** p * N * delta)
        k = numpy.arange(-1, 2)
        fx, fy = numpy.meshgrid(k * del_f, k * del_f)
        P = psd(fx ** 2 + fy ** 2, r0, L0, l0)
        P[1, 1] = 0
        cn = (R.normal(size=(3, 3)) + 1j * R.normal(size=(3, 3))) * numpy.sqrt(P) * del_f
        SH = numpy.zeros((N, N))
        for q in range(9):
            SH += cn.ravel()[q] * numpy.exp(1j * 2 * numpy.pi * (fx.ravel()[q] * x + fy.ravel()[q] * y))
        lo = lo + SH
    lo = lo.real - lo.real.mean()
    return lo + hi
'''


def canon(v):
    """even-N canonicalisation: ifftshift == fftshift; generator instance numbers
    renamed by the (masked) set of draws made on them."""
    if not isinstance(v, Rat):
        return v
    rngs = find_atoms(v, lambda a: isinstance(a, Fn) and a.name == "rng")
    draws = find_atoms(v, lambda a: isinstance(a, Fn) and a.name == "draw")

    def sig(r):
        out = []
        for d in draws:
            g = d.args[0].single_atom() if isinstance(d.args[0], Rat) else None
            if g == r:
                out.append(repr((d.args[1], nf(d.args[2]), nf(d.args[3]), repr(d.args[4]), d.args[5], d.args[6])))
        return (repr(r.args[0]), tuple(sorted(out)))
    order = sorted(rngs, key=sig)
    ren = {r: Rat.atom(Fn("rng", (r.args[0], "g%d" % i))) for i, r in enumerate(order)}

    def f(a):
        if a in ren:
            return ren[a]
        if isinstance(a, Fn) and a.name == "ifftshift":
            args = tuple(x.subst(f) if isinstance(x, Rat) else x for x in a.args)
            return Rat.atom(Fn("fftshift", args))
        return None
    return v.subst(f)


def run(rep, tier, root=None):
    ix = get_index(root)
    om = ix.virtual("_oracle_c07", ORACLE)
    rep.trusted_base += ["oracle = the spectral law written in the property (sa/props/c07.py), evaluated by the same interpreter",
                         "numpy ifft2 carries 1/N^2; for even N fftshift == ifftshift"]
    rep.assumptions += ["N even (hypothesis of the property): int(N/2) == N/2",
                        "convergence of the structure function with grid refinement and the 'sub-harmonics only add power' "
                        "clause are statistical/numerical and not decided"]
    rep.explanation = ("Abstract interpretation of both screen generators to a normal form in the draws, grids and parameters "
                       "(loops summarised as nested loop-sums, never unrolled), compared to the normal form of the law in the "
                       "property; then degree/shape queries on the same normal form (linear in the draws, r0^(-5/6), DC bin at "
                       "the zero of the frequency grid, plain inverse DFT gain).")
    rep.rule_text = "P0 whole-normal-form identity with the oracle; P1..P6 clause decomposition; one obligation per (rule, function)"
    m = ix.module(MOD)
    rep.files_analysed.add(m.relpath)

    I = Interp(ix, int_transparent=True)
    IO = Interp(ix, int_transparent=True)
    r0, N, delta, L0, l0 = [Rat.sym(x, ("scalar",)) for x in ("r0", "N", "delta", "L0", "l0")]      # scalars by the signature the property states
    seed = Rat.sym("seed")

    results = {}
    for name, oname in (("ft_phase_screen", "fft_screen"), ("ft_sh_phase_screen", "subharmonic_screen")):
        f = ix.func(MOD, name)
        rep.functions_analysed.add(f.fq)
        want_params = ["r0", "N", "delta", "L0", "l0"]
        if f.params[:5] != want_params or "seed" not in f.params:
            raise AnalysisError("%s: signature changed: %s" % (f.fq, f.params))
        fixed = {p: None for p in f.params[5:]}
        fixed["seed"] = seed
        args = I.symbolic_args(f, flags={p: ("scalar",) for p in want_params}, fixed=fixed)
        rets = I.returns(f, args)
        if len(rets) != 1:
            rep.unknown("P0.law", f.fq, "expected a single path with FFT=None, found %d" % len(rets), f.where())
            continue
        v = rets[0][1]
        if not isinstance(v, Rat) or has_unknown(v):
            rep.unknown("P0.law", f.fq, "unrecognised constructs: %s" %
                        sorted(set(repr(a)[:70] for a in unknown_atoms(v)))[:4], f.where())
            continue
        fo = ix.func(om.name, oname)
        wo = IO.returns(fo, [r0, N, delta, L0, l0, seed])[0][1]
        cv, cw = canon(v), canon(wo)
        results[name] = (f, v, cv)
        alt_ok = False
        for alt in ("_flat", "_indexed"):
            if not alt_ok and not same_value(cv, cw) and oname + alt in ix.module(om.name).funcs:
                # the sum over the nine frequencies of a 3 x 3 grid may equally be written as one flat row-major loop
                wo2 = IO.returns(ix.func(om.name, oname + alt), [r0, N, delta, L0, l0, seed])[0][1]
                alt_ok = same_value(cv, canon(wo2))
        if same_value(cv, cw) or alt_ok:
            rep.ok("P0.law", f.fq + " == oracle " + oname, "normal forms identical (%d chars)" % len(nf(cv, 10 ** 6)))
        else:
            only_code, only_orc = atom_diff(cv, cw)
            rep.violation("P0.law", f.fq + " == oracle " + oname,
                          "the generator does not compute the law stated in the property; sub-terms only in the code: %s ; "
                          "only in the law: %s" % (only_code[:3], only_orc[:3]), f.where(),
                          {"code": nf(cv, 1500), "law": nf(cw, 1500)})
        rep.sample({"function": f.fq, "normal_form": nf(cv, 700)})

    # ---- clause decomposition on ft_phase_screen
    if "ft_phase_screen" in results:
        f, v, cv = results["ft_phase_screen"]
        clauses_fft(rep, f, v, r0, N, delta, L0, l0)
    if "ft_sh_phase_screen" in results:
        f, v, cv = results["ft_sh_phase_screen"]
        draws = find_atoms(v, lambda a: isinstance(a, Fn) and a.name == "draw")
        # the parts of the screen are independent only if no two generators are started from the same seed: default_rng(seed)
        # twice gives the same stream twice (the sub-harmonic coefficients would be the first draws of the FFT screen)
        gens = {}
        for g_ in find_atoms(v, lambda a: isinstance(a, Fn) and a.name == "rng"):
            gens.setdefault(repr(g_.args[0]), set()).add(g_)
        dup = {k_: g_ for k_, g_ in gens.items() if len(g_) > 1}
        rep.check(not dup, "P4.independent-streams", f.fq + ": all draws of one screen come from one generator stream",
                  "%d generators are constructed from the same seed (%s): they produce the same numbers, so the sub-harmonic coefficients "
                  "are the first draws of the high-frequency screen again - the two parts are correlated and the structure function of "
                  "their sum can be smaller than that of the FFT screen alone" % (max(len(g_) for g_ in dup.values()) if dup else 0,
                                                                                 ", ".join(sorted(dup))), f.where())
        rep.check(len(draws) == 4, "P4.draws", f.fq + ": 2 full-grid + 2 sub-harmonic draws per grid",
                  "expected 4 distinct draw sites (2 of (N,N), 2 of (3,3) per sub-harmonic grid), found %d" % len(draws), f.where())
        check_degree(rep, "P4.r0-scaling", f.fq + " ~ r0^(-5/6)", v, "r0", Fr(-5, 6), f.where(), "sub-harmonic screen")
        for d in draws:
            check_degree(rep, "P4.linear-in-draws", "%s: degree in %s" % (f.fq, _dname(d)), _only_draw(v, d, draws), d, Fr(1),
                         f.where(), "screen restricted to one draw")
    # the module's ift2 wrapper: gain 1 when called with delta_f = 1 (P5)
    w = ix.func(MOD, "ift2")
    G = Rat.sym("G", ("array", "field"))
    wv = Interp(ix).returns(w, [G, Rat.const(1), None])
    rep.functions_analysed.add(w.fq)
    if len(wv) == 1 and isinstance(wv[0][1], Rat):
        from ..field import linear_gain, NotLinear, NotConstantModulus
        try:
            Nn = Rat.sym("shape(G)[0]", ("int", "size"))
            g = linear_gain(wv[0][1], Sym("G"), Nn)
            # sum|g|^2 = gain*sum|G|^2 ; plain inverse DFT sum has gain N^2 (N^4 * N^-2)
            rep.check(g.equals(Nn * Nn), "P5.plain-inverse-dft", w.fq + "(G, 1): un-normalised inverse DFT",
                      "ift2(G, 1) has power gain %s, the plain inverse DFT sum has N^2" % nf(g), w.where(),
                      note="gain = %s" % nf(g))
        except (NotLinear, NotConstantModulus) as e:
            rep.violation("P5.plain-inverse-dft", w.fq, "wrapper is not a scaled DFT: %s" % e, w.where())
    else:
        rep.unknown("P5.plain-inverse-dft", w.fq, "wrapper has several paths with FFT=None", w.where())
    from ..common import purity_obligations
    purity_obligations(rep, ix, [ix.func(MOD, n) for n in ("ft_phase_screen", "ft_sh_phase_screen", "ift2")], "P7.no-hidden-state",
                       "the law of a screen would depend on the screens generated before it in the same process")
    rep.floor("C07 generators analysed", len(results), 2)


def _dname(d):
    return "draw#%s(size=%s)" % (d.args[5], repr(d.args[4]))


def _only_draw(v, d, draws):
    """v with all other draws set to zero (linearity is per draw)."""
    others = set(x for x in draws if x != d)
    return v.subst(lambda a: Rat.const(0) if a in others else None)


def atom_diff(a, b):
    sa = set(x for x in a.atoms() if not isinstance(x, Sym))
    sb = set(x for x in b.atoms() if not isinstance(x, Sym))
    oa = sorted((repr(x) for x in sa - sb), key=len)
    ob = sorted((repr(x) for x in sb - sa), key=len)
    return [x[:160] for x in oa], [x[:160] for x in ob]


def clauses_fft(rep, f, v, r0, N, delta, L0, l0):
    fq = f.fq
    # P6: real part of shift(ifft2(shift(X))) * s
    a = v.single_atom()
    if not (isinstance(a, Fn) and a.name == "real"):
        rep.violation("P6.real-part", fq, "the screen is not the real part of the transformed coefficients: %s" % nf(v, 120), f.where())
        return
    rep.ok("P6.real-part", fq)
    inner = a.args[0]
    st = inner.single_term()
    if st is None:
        rep.unknown("P5.transform", fq, "transform output is not a single product", f.where())
        return
    coef, mono = st
    tr = [x for x, e in mono if isinstance(x, Fn) and x.name in ("ifftshift", "fftshift")]
    if len(tr) != 1:
        rep.unknown("P5.transform", fq, "no shifted inverse transform found", f.where())
        return
    scale = Rat({tuple((x, e) for x, e in mono if x != tr[0]): coef})
    t2 = tr[0].args[0].single_atom()
    if not (isinstance(t2, Fn) and t2.name == "ifft2"):
        rep.violation("P5.transform", fq, "coefficients are not passed through an inverse 2-D DFT (%s)" %
                      (t2.name if isinstance(t2, Fn) else t2), f.where())
        return
    # numpy's ifft2 carries N^-2: plain sum needs scale == N^2
    rep.check(scale.equals(N * N), "P5.transform", fq + ": scale * (1/N^2) == 1",
              "the inverse transform is scaled by %s; the inverse DFT *sum* of the coefficients needs N^2 (gain 1)" % nf(scale),
              f.where())
    x = t2.args[0]
    s_in = x.single_atom()
    if isinstance(s_in, Fn) and s_in.name in ("fftshift", "ifftshift"):
        x = s_in.args[0]
    else:
        rep.violation("P5.transform", fq + ": centred coefficients are shifted to DFT order",
                      "the centred spectrum is transformed without a shift: frequencies are mis-assigned", f.where())
    draws = find_atoms(x, lambda d: isinstance(d, Fn) and d.name == "draw")
    rep.check(len(draws) == 2, "P4.draws", fq + ": two independent full-grid draws",
              "expected exactly two draws (real and imaginary part), found %d" % len(draws), f.where())
    if len(draws) != 2:
        return
    ok_size = all(isinstance(d.args[4], tuple) and len(d.args[4]) == 2 and all(same_value(s, N) for s in d.args[4]) for d in draws)
    ok_std = all(same_value(d.args[2], Rat.const(0)) and same_value(d.args[3], Rat.const(1)) and d.args[1] == "normal" for d in draws)
    same_gen = draws[0].args[0] == draws[1].args[0]
    rep.check(ok_size and ok_std and same_gen, "P4.draws", fq + ": unit normal draws of shape (N, N) from one generator",
              "draws are %s" % [repr(d)[:80] for d in draws], f.where())
    # coefficients: c1*d1*Q + c2*d2*Q with {c1, c2} = {1, 1j}
    terms = x.terms()
    if terms is None or len(terms) != 2:
        rep.violation("P4.coefficients", fq, "coefficient array is not (n1 + 1j*n2) * amplitude: %s" % nf(x, 160), f.where())
        return
    amps = []
    for c, mono2 in terms:
        ds = [d for d, e in mono2 if d in draws and e == 1]
        if len(ds) != 1:
            rep.violation("P4.coefficients", fq, "term %s is not of first degree in one draw" % nf(Rat({mono2: c}), 100), f.where())
            return
        amps.append((ds[0], Rat({tuple((y, e) for y, e in mono2 if y != ds[0]): c})))
    (d1, a1), (d2, a2) = sorted(amps, key=lambda t: t[0].args[5])
    ratio = a2.ratio_to(a1)
    rep.check(ratio is not None and abs(complex(ratio) - 1j) < 1e-12, "P4.coefficients", fq + ": n1 + 1j*n2 with a common amplitude",
              "imaginary/real amplitude ratio is %s (needs 1j): real and imaginary parts must have equal variance" % ratio, f.where())
    amp = a1
    check_degree(rep, "P4.r0-scaling", fq + " ~ r0^(-5/6)", amp, "r0", Fr(-5, 6), f.where(), "coefficient amplitude")
    # amplitude^2 / del_f^2 == PSD with the DC bin zeroed
    del_f = 1 / (N * delta)
    psd_dc = amp * amp / (del_f * del_f)
    sa = psd_dc.single_atom()
    if not (isinstance(sa, Fn) and sa.name == "setitem"):
        rep.violation("P3.dc-removed", fq + ": zero-frequency bin set to 0",
                      "amplitude^2/del_f^2 = %s is not a spectrum with one bin zeroed (sqrt / del_f / DC removal changed)" % nf(psd_dc, 200),
                      f.where())
        return
    base, idx, val = sa.args
    rep.check(isinstance(val, Rat) and val.is_zero(), "P3.dc-removed", fq + ": DC bin value", "DC bin is set to %s, not 0" % nf(val), f.where())
    # index of the zero of the frequency grid arange(lo, hi, 1): -lo
    grids = find_atoms(base, lambda g: isinstance(g, Fn) and g.name == "grid")
    zero_idx = None
    for g in grids:
        ar = g.args[0].single_atom()
        if isinstance(ar, Fn) and ar.name == "arange":
            zero_idx = Rat.const(0) - ar.args[0]
            rep.check(same_value(ar.args[0], -N / 2) and same_value(ar.args[1], N / 2), "P2.frequency-grid",
                      fq + ": k = -N/2 .. N/2-1", "frequency index grid is arange(%s, %s)" % (nf(ar.args[0]), nf(ar.args[1])), f.where())
    ok_idx = isinstance(idx, tuple) and len(idx) == 2 and zero_idx is not None and all(same_value(i, zero_idx) for i in idx)
    rep.check(ok_idx, "P3.dc-removed", fq + ": zeroed bin is the zero of the frequency grid",
              "bin %s is zeroed but the frequency grid is zero at index (%s, %s)" % (nf(idx), nf(zero_idx), nf(zero_idx)), f.where())
    # P1: PSD law
    gx = [g for g in grids if g.args[1] == 1]
    gy = [g for g in grids if g.args[1] == 0]
    if len(gx) == 1 and len(gy) == 1:
        fx2 = (Rat.atom(gx[0]) * del_f) ** 2 + (Rat.atom(gy[0]) * del_f) ** 2
        import math
        from ..plf import fn_exp
        fm = 5.92 / (2 * math.pi) / l0
        law = 0.023 * rpow(r0, Fr(-5, 3)) * fn_exp(-fx2 / (fm * fm)) * rpow(fx2 + 1 / (L0 * L0), Fr(-11, 6))
        check_equal(rep, "P1.spectrum", fq + ": PSD == 0.023 r0^-5/3 exp(-(f/fm)^2) (f^2+L0^-2)^-11/6 on f = k/(N delta)", base, law,
                    f.where(), what="PSD")
    else:
        rep.unknown("P1.spectrum", fq, "cannot identify the two frequency grids", f.where())
