"""C18.E4 - the moment-conserving method (GCTM): structural necessary conditions.

"the moment-conserving method reproduces the first 2L-1 moments to optimiser accuracy" quantifies over what an
iterative optimiser does; that is not decidable from the source.  What is decidable is that the optimiser is
*asked the right question* and that its answer is mapped back correctly - each a necessary condition (breaking
it makes GCTM conserve the wrong quantities for generic profiles):

  E4.moments      _moments(h, p, L)            == [ sum_l p_l h_l^k  for k in range(2L-1) ]     (2L-1 moments, k from 0)
  E4.objective    _moments_minfunc(x, L, mom0) == sum_k ( moments(x[:L], x[L:], L)_k - mom0_k )^2
  E4.call         minimize(fun=_moments_minfunc, x0, args=(L, mom0), bounds=...)['x'] where
                    mom0   = moments(h/h_scaling, p/cn2_scaling, L)       (target = the input profile's moments)
                    x0     = hstack([guess_h/h_scaling, guess_cn2/cn2_scaling]), (guess_h, guess_cn2) = equivalent_layers(h, p, L)
                    bounds = 2L pairs (0, None)                            (non-negative heights and strengths)
  E4.unscale      return (res[:L]*h_scaling, res[L:]*cn2_scaling)         (same split and scales as the objective / x0)
  E4.total-on-box every callback handed to the optimiser (fun, jac, hess) is finite on the whole feasible box,
                  whose lower bounds are 0 *inclusive*: no power of an optimisation variable with an exponent
                  that can be negative, no division by / log of an expression in the variables.  (L-BFGS-B
                  projects iterates onto the bounds, so h = 0 is visited; 0**-1 = inf, 0*inf = nan aborts the
                  line search and the starting guess comes back unchanged.)

The comparisons are normal-form equalities computed by the abstract interpreter (comprehension variables are
alpha-renamed, powers/sums normalised); nothing is executed.
"""
import ast

from ..common import nf, same_value, check_equal
from ..interp import Interp, has_unknown, FuncRef
from ..plf import Rat, Sym, Fn, PowA, find_atoms
from ..index import norm_text

MOD = "aotools.turbulence.profile_compression"

ORACLE = '''
import numpy
from aotools.turbulence.profile_compression import equivalent_layers

def moments(h, p, L):
    return numpy.array([p * h**k for k in range(2*L-1)]).sum(1)

def objective(x, L, mom0):
    return ((moments(x[:L], x[L:], L) - mom0)**2).sum()

def target(h, p, L, h_scaling, cn2_scaling):
    return moments(h/h_scaling, p/cn2_scaling, L)

def start(h, p, L, h_scaling, cn2_scaling):
    gh, gc = equivalent_layers(h, p, L)
    return numpy.hstack([gh/h_scaling, gc/cn2_scaling])

def bounds(L):
    return [(0, None) for i in range(2*L)]
'''


def _flat_concat(v):
    """the pieces of the optimisation vector are 1-D: hstack, concatenate and append along axis 0 build the same vector"""
    if not isinstance(v, Rat):
        return v

    def f(a):
        if isinstance(a, Fn) and a.name == "concat" and len(a.args) == 2:
            return Rat.atom(Fn("concat", (a.args[0], "1-D")))
        return None
    return v.subst(f)


def _val1(I, f, args):
    vals = [v for c, v in I.returns(f, list(args))]
    if len(vals) != 1:
        return Rat.atom(Fn("?paths", (Rat.const(len(vals)),)))
    return vals[0]


def check(rep, ix):
    om = ix.virtual("_oracle_c18", ORACLE)
    O = lambda n: ix.func(om.name, n)
    F = lambda n: ix.func(MOD, n)
    for n in ("GCTM", "_moments", "_moments_minfunc"):
        rep.functions_analysed.add(F(n).fq)
    opaque = {MOD + ":equivalent_layers"}
    h, p, x, m0 = Rat.sym("h"), Rat.sym("p"), Rat.sym("x"), Rat.sym("mom0")
    L = Rat.sym("L", ("int",))
    hs, cs = Rat.sym("h_scaling", ("scalar",)), Rat.sym("cn2_scaling", ("scalar",))

    I = Interp(ix, opaque=opaque)
    check_equal(rep, "E4.moments", F("_moments").fq, _val1(I, F("_moments"), [h, p, L]), _val1(I, O("moments"), [h, p, L]),
                F("_moments").where(), what="moment vector")
    check_equal(rep, "E4.objective", F("_moments_minfunc").fq, _val1(I, F("_moments_minfunc"), [x, L, m0]),
                _val1(I, O("objective"), [x, L, m0]), F("_moments_minfunc").where(), what="least-squares objective")

    g = F("GCTM")
    I = Interp(ix, opaque=opaque)
    rets = I.returns(g, [h, p, L, hs, cs])
    calls = [e for e in I.call_log if e[0] == g.fq and str(e[1]).split(".")[-1] == "minimize"]
    if len(calls) != 1 or len(rets) != 1:
        rep.unknown("E4.call", g.fq, "expected one path with one optimiser call, found %d calls on %d paths" % (len(calls), len(rets)), g.where())
        return
    _, callee, args, kwargs, lineno = calls[0][:5]
    where = "%s:%d" % (g.module.relpath, lineno)
    known_kw = {"args", "bounds", "jac", "hess", "method", "tol", "options", "x0", "fun", "callback", "hessp", "constraints"}
    pos = ["fun", "x0", "args", "method", "jac", "hess", "hessp", "bounds"]
    given = dict(zip(pos, args))
    given.update(kwargs)
    extra = sorted(set(given) - known_kw)
    if extra:
        rep.unknown("E4.call", g.fq + ": minimize(%s)" % extra, "unrecognised optimiser arguments %s" % extra, where)
    fun = given.get("fun")
    is_obj = isinstance(fun, FuncRef) and fun.finfo.fq == F("_moments_minfunc").fq
    rep.check(is_obj, "E4.call", g.fq + ": fun = _moments_minfunc", "the optimiser minimises %r, not the moment objective" % (fun,), where)
    Io = Interp(ix, opaque=opaque)
    a = given.get("args")
    want_args = (L, _val1(Io, O("target"), [h, p, L, hs, cs]))
    if isinstance(a, tuple) and len(a) == 2:
        check_equal(rep, "E4.call", g.fq + ": args[0] = L", a[0], want_args[0], where, what="number of layers passed to the objective")
        check_equal(rep, "E4.call", g.fq + ": args[1] = moments(h/h_scaling, p/cn2_scaling, L)", a[1], want_args[1], where,
                    what="target moments")
    else:
        rep.violation("E4.call", g.fq + ": args", "objective arguments are not (L, mom0): %s" % (nf(a, 200),), where)
    check_equal(rep, "E4.call", g.fq + ": x0 = [equivalent-layers heights/h_scaling, strengths/cn2_scaling]", _flat_concat(given.get("x0")),
                _flat_concat(_val1(Io, O("start"), [h, p, L, hs, cs])), where, what="starting point")
    check_equal(rep, "E4.call", g.fq + ": bounds = 2L x (0, None)", given.get("bounds"), _val1(Io, O("bounds"), [L]), where,
                what="box constraints")
    # result mapping
    ret = rets[0][1]
    ok = False
    detail = nf(ret, 300)
    if isinstance(ret, tuple) and len(ret) == 2 and all(isinstance(r, Rat) for r in ret):
        mins = find_atoms(ret, lambda t: isinstance(t, Fn) and "minimize" in t.name)
        xs = find_atoms(ret, lambda t: isinstance(t, Fn) and t.name == "getitem" and isinstance(t.args[0], Rat)
                        and t.args[0].single_atom() in mins and t.args[1] == "x")
        if len(mins) == 1 and len(xs) == 1:
            res = Rat.atom(xs[0])
            gi = lambda lo, hi: Rat.atom(Fn("getitem", (res, ("slice", lo, hi, None))))
            z = Rat.const(0)
            want = (gi(z, L) * hs, gi(L, None) * cs)
            alt = (gi(None, L) * hs, gi(L, None) * cs)
            ok = same_value(ret, want) or same_value(ret, alt)
    rep.check(ok, "E4.unscale", g.fq + ": return (res[:L]*h_scaling, res[L:]*cn2_scaling)",
              "the optimiser's answer is not mapped back with the split/scales of the objective: %s" % detail, g.where())

    # E4.total-on-box
    lower_incl_zero = True     # established by the bounds obligation above: every lower bound is 0
    cbs = []
    for k in ("fun", "jac", "hess", "hessp"):
        v = given.get(k)
        if isinstance(v, FuncRef):
            cbs.append((k, v.finfo))
        elif v is not None and not (isinstance(v, Rat) and v.is_const()) and not isinstance(v, (bool, str)):
            rep.unknown("E4.total-on-box", g.fq + ": %s=%s" % (k, nf(v, 80)), "callback is not a resolvable repository function", where)
    for k, f in cbs:
        nargs = len(f.params)
        Ic = Interp(ix, opaque=opaque)
        a_ = [x] + ([L, m0] + [Rat.sym("extra%d" % i) for i in range(nargs)])[:nargs - 1]
        v = _val1(Ic, f, a_)
        hz = hazards(v, x)
        rep.functions_analysed.add(f.fq)
        if hz is None:
            rep.unknown("E4.total-on-box", "%s (%s=)" % (f.fq, k), "cannot bound the exponents in %s" % nf(v, 200), f.where())
        elif hz:
            for why in hz[:3]:
                rep.violation("E4.total-on-box", "%s (%s=): %s" % (f.fq, k, why[:120]),
                              "callback is not finite on the feasible box (variables may be exactly 0): " + why, f.where(),
                              {"normal_form": nf(v, 400)})
        else:
            rep.ok("E4.total-on-box", "%s (%s=)" % (f.fq, k), "no negative power / division / log of an optimisation variable")


# ------------------------------------------------------------------------------------------------- hazards
def lower_bound(v, ranges):
    """a lower bound of an exponent normal form, or None.  `ranges` maps comprehension/loop symbols to RangeVal keys."""
    if isinstance(v, (int, float)):
        return float(v)
    if not isinstance(v, Rat) or not v.den_is_one():
        return None
    total = 0.0
    for m, c in v.num.items():
        c = complex(c)
        if c.imag:
            return None
        c = c.real
        lo_term = c
        for a, e in m:
            if e != 1:
                return None
            lb = _atom_lb(a, ranges)
            if lb is None or lb < 0:
                return None
            if c < 0:
                return None     # would need an upper bound
            lo_term *= lb
        total += lo_term
    return total


def _atom_lb(a, ranges):
    if isinstance(a, Sym):
        if a.name in ranges:
            lo, hi, step = ranges[a.name]
            lo = lower_bound(lo, ranges) if not isinstance(lo, (int, float)) else lo
            st = step if isinstance(step, (int, float)) else (step.const_value() if isinstance(step, Rat) and step.is_const() else None)
            if lo is None or st is None or complex(st).real <= 0:
                return None
            return float(complex(lo).real)
        return None
    if isinstance(a, Fn):
        if a.name == "arange" and a.args:
            if len(a.args) == 1:
                return 0.0
            return lower_bound(a.args[0], ranges)
        if a.name == "maximum" and a.args:
            lbs = [lower_bound(y, ranges) for y in a.args]
            lbs = [b for b in lbs if b is not None]
            return max(lbs) if lbs else None
        if a.name == "clip" and len(a.args) == 3:
            return lower_bound(a.args[1], ranges)
        if a.name == "abs" and a.args:
            return 0.0
        if a.name in ("getitem", "reshape", "T", "astype", "float", "asarray", "array", "grid") and a.args:
            return lower_bound(a.args[0], ranges) if isinstance(a.args[0], Rat) else None
    return None


def hazards(v, x):
    """list of reasons why value `v` may be non-finite when entries of `x` are 0; None if undecidable"""
    out = []
    xs = x.single_atom()
    und = []

    def has_x(t):
        if isinstance(t, Rat):
            return xs in t.atoms(True)
        if isinstance(t, (tuple, list)):
            return any(has_x(y) for y in t)
        return False

    def walk(t, ranges):
        if isinstance(t, (tuple, list)):
            for y in t:
                walk(y, ranges)
            return
        if not isinstance(t, Rat):
            return
        # denominators
        if not t.den_is_one() and any(xs in _atoms_of_poly(t.den)):
            out.append("division by an expression in the optimisation variables: 1/(%s)" % _pshow_safe(t))
        for poly in (t.num, t.den):
            for m, c in poly.items():
                for a, e in m:
                    if e < 0 and has_x(Rat.atom(a)) and not (isinstance(a, Fn) and a.name in ("listcomp",)):
                        out.append("negative power %s of %s" % (e, a))
                    visit_atom(a, ranges)

    def visit_atom(a, ranges):
        if isinstance(a, PowA):
            if a.exp < 0 and has_x(a.base):
                out.append("negative power %s of %s" % (a.exp, nf(a.base, 80)))
            walk(a.base, ranges)
            return
        if not isinstance(a, Fn):
            return
        if a.name == "pow" and len(a.args) == 2:
            base, ex = a.args
            if has_x(base):
                lb = lower_bound(ex, ranges)
                if lb is None:
                    und.append(nf(ex, 80))
                elif lb < 0:
                    out.append("%s: the exponent reaches %g while the base may be 0" % (nf(Rat.atom(a), 100), lb))
            walk(base, ranges)
            walk(ex, ranges)
            return
        if a.name in ("log", "log10", "log2") and a.args and has_x(a.args[0]):
            out.append("logarithm of an expression in the optimisation variables: %s" % nf(Rat.atom(a), 100))
        if a.name in ("divide", "true_divide", "reciprocal") and has_x(a.args[-1]):
            out.append("division by an expression in the optimisation variables: %s" % nf(Rat.atom(a), 100))
        if a.name == "listcomp" and len(a.args) == 3 and isinstance(a.args[2], tuple) and len(a.args[2]) == 3 \
                and a.args[2][0] != "enumerate":
            r2 = dict(ranges)
            r2[a.args[1]] = a.args[2]
            walk(a.args[0], r2)
            return
        for y in a.args:
            walk(y, ranges)

    walk(v, {})
    if und and not out:
        return None
    return out


def _atoms_of_poly(poly):
    s = set()
    for m, c in poly.items():
        for a, e in m:
            Rat.atom(a).atoms(True, s)
    return s


def _pshow_safe(t):
    return nf(t, 120)
