"""C06 - seeded screens are reproducible and instances are isolated.

Scope: turbulence/phasescreen.py, turbulence/infinitephasescreen.py and every repo
function reachable from their public entry points.
Q1  no call resolves to a global-state RNG function (numpy.random.<fn>, stdlib
    random.<fn>), numpy.random.seed, or a clock / OS entropy source
Q2  every numpy.random.default_rng(arg): arg is data-dependent only on the `seed`
    parameter / self.random_seed <- the constructor parameter (never a literal,
    None-by-construction, or time)
Q3  every draw's receiver is such a generator
Q4  generators are bound to locals or instance attributes only (no module / class
    level generator, no `global`)
Q5  the number and order of draws is controlled only by size parameters and
    literal loop bounds
Q6  seed forwarding: wherever a seeded function calls a repo callee that has a
    `seed` parameter, a seed-derived value is passed
Q7  no memoisation decorator, no function-written module state in scope
Q8  both get_new_row implementations draw from the instance generator created at
    initial-screen time; the initial FFT screen receives that same generator
Trusted: a numpy Generator is a deterministic function of its seed and call
sequence and shares nothing with numpy's global RandomState;
default_rng(Generator) returns that generator.
Not decided: "different seeds give different screens", "unseeded calls differ".
"""
import ast

from ..common import get_index, nf, same_value
from ..fx import FX, MEMO_DECORATORS, GLOBAL_RNG
from ..index import norm_text, dotted
from ..interp import Interp, Obj, has_unknown
from ..plf import Rat, Sym, Fn, find_atoms
from ..report import AnalysisError
from .c04 import A, run_method

LEVEL = "proof"
PS = "aotools.turbulence.phasescreen"
IPS = "aotools.turbulence.infinitephasescreen"

CONTROL = '''
import numpy, time
_G = numpy.random.default_rng(1)
def bad1(n, seed=None):
    return numpy.random.normal(size=n)
def bad2(n, seed=None):
    R = numpy.random.default_rng()
    return R.normal(size=n)
def bad3(n, seed=None):
    numpy.random.seed(seed)
    return _G.normal(size=n) + time.time()
def good(n, seed=None):
    R = numpy.random.default_rng(seed)
    return R.normal(size=n)
'''


def scope_functions(ix, fx):
    """public entry points of the two screen modules + everything reachable"""
    roots = []
    for mn in (PS, IPS):
        m = ix.module(mn)
        for f in m.funcs.values():
            if (m.all is None and not f.name.startswith("_")) or (m.all is not None and f.name in m.all):
                roots.append(f)
        for c in m.classes.values():
            if m.all is None or c.name in m.all:
                roots.extend(c.all_methods().values())
    seen, todo = [], list(roots)
    while todo:
        g = todo.pop()
        if g in seen:
            continue
        seen.append(g)
        for n, b in fx.summary(g).calls:
            if b is not None and b.kind == "func" and b.target not in seen:
                todo.append(b.target)
        if g.cls is not None:
            for n in ast.walk(g.node):
                if isinstance(n, ast.Attribute) and isinstance(n.value, ast.Name) and n.value.id == "self":
                    m = g.cls.find_method(n.attr)
                    if m is not None and m not in seen:
                        todo.append(m)
    return seen


def rng_sites(ix, f):
    """(default_rng calls, global-RNG calls, clock calls, draw calls) in f, resolved"""
    ctor, glob, clock = [], [], []
    for n in ast.walk(f.node):
        if isinstance(n, ast.Call):
            b = ix.resolve_call(f, n)
            if b is not None and b.kind == "ext":
                d = b.target
                parts = d.split(".")
                if d in ("numpy.random.default_rng", "numpy.random.Generator", "numpy.random.RandomState", "numpy.random.SeedSequence",
                         "numpy.random.PCG64", "numpy.random.MT19937"):
                    ctor.append((n, d))
                elif (d.startswith("numpy.random.") and len(parts) == 3 and parts[2] in GLOBAL_RNG) or \
                        (parts[0] == "random" and len(parts) == 2):
                    glob.append((n, d))
                elif parts[0] in ("time", "datetime", "uuid", "secrets") or d in ("os.urandom", "os.getpid", "os.times"):
                    clock.append((n, d))
    return ctor, glob, clock


def seed_derived(ix, f, expr, seed_names):
    """is `expr` data-dependent only on the seed parameter / self.random_seed / a generator built from them?"""
    names = set()
    for n in ast.walk(expr):
        if isinstance(n, ast.Name):
            names.add(n.id)
        elif isinstance(n, ast.Constant):
            if not isinstance(n.value, (type(None),)):
                pass
    txt = norm_text(expr)
    if txt in seed_names:
        return True
    return False


def run(rep, tier, root=None):
    ix = get_index(root)
    fx = FX(ix)
    rep.trusted_base += ["numpy: Generator output is a deterministic function of (seed, call sequence); default_rng(Generator) returns it; "
                         "Generators do not share state with numpy.random's global RandomState"]
    rep.assumptions += ["'different seeds differ' and 'unseeded calls differ' are probabilistic and not decided"]
    rep.explanation = ("Random-source provenance: every random / clock call site in the screen modules (and everything reachable) is "
                       "resolved and classified; generator constructors must be fed by the seed parameter only; every draw must be "
                       "made on such a generator, held in a local or instance attribute; seeds must be forwarded to seeded callees. "
                       "With numpy's Generator contract this gives bit-identical screens under any interleaving.")
    rep.rule_text = "Q1..Q8, one obligation per (rule, function or call site)"
    # positive control
    ctl = control()
    if ctl != {"bad1": True, "bad2": True, "bad3": True, "good": False}:
        raise AnalysisError("C06 positive control failed: %s" % ctl)
    rep.extra["positive_control"] = ctl

    scope = scope_functions(ix, fx)
    rep.floor("functions in scope", len(scope), 20)
    for f in scope:
        rep.functions_analysed.add(f.fq)
        rep.files_analysed.add(f.module.relpath)

    n_ctor = n_draw = 0
    for f in sorted(scope, key=lambda g: g.fq):
        ctor, glob, clock = rng_sites(ix, f)
        # Q1
        if glob or clock:
            for n, d in glob:
                rep.violation("Q1.no-global-rng", "%s: %s" % (f.fq, norm_text(n)[:70]),
                              "%s uses the process-wide random state: the result depends on whatever else drew from or reseeded it" % d, f.where(n))
            for n, d in clock:
                rep.violation("Q1.no-clock", "%s: %s" % (f.fq, norm_text(n)[:70]), "%s is a clock / entropy source" % d, f.where(n))
        else:
            rep.ok("Q1.no-global-rng", f.fq, "no global RNG / clock call", False)
        s = fx.summary(f)
        if s.rng_global and not glob:
            # through a callee outside the scope list (cannot happen: scope is closed) - report defensively
            for n, d in s.rng_global:
                if not d.startswith("via "):
                    rep.violation("Q1.no-global-rng", "%s: %s" % (f.fq, norm_text(n)[:70]), "%s uses global random state" % d, f.where(n))
        # Q2: constructor arguments
        seed_ok = set()
        if "seed" in f.params:
            seed_ok.add("seed")
        if f.cls is not None:
            seed_ok.add("self.random_seed")
        for n, d in ctor:
            n_ctor += 1
            if d != "numpy.random.default_rng":
                rep.unknown("Q2.seeded-constructor", "%s: %s" % (f.fq, norm_text(n)[:60]), "generator constructor %s is not modelled" % d, f.where(n))
                continue
            arg = n.args[0] if n.args else next((k.value for k in n.keywords if k.arg == "seed"), None)
            if arg is None:
                rep.violation("Q2.seeded-constructor", "%s: %s" % (f.fq, norm_text(n)[:60]),
                              "default_rng() is called without the seed: the stream is fresh OS entropy even when a seed was given", f.where(n))
            elif norm_text(arg) in seed_ok:
                rep.ok("Q2.seeded-constructor", "%s: %s" % (f.fq, norm_text(n)[:60]), "argument is the seed")
            else:
                rep.violation("Q2.seeded-constructor", "%s: %s" % (f.fq, norm_text(n)[:60]),
                              "generator is constructed from `%s`, not from the caller's seed" % norm_text(arg), f.where(n))
        # Q4: binding place of generators
        for n, d in ctor:
            st = _stmt(f.node, n)
            ok = isinstance(st, ast.Assign) and len(st.targets) == 1 and (
                isinstance(st.targets[0], ast.Name) or
                (isinstance(st.targets[0], ast.Attribute) and isinstance(st.targets[0].value, ast.Name) and st.targets[0].value.id == "self"))
            if ok and isinstance(st.targets[0], ast.Name):
                ok = st.targets[0].id not in [x for g in ast.walk(f.node) if isinstance(g, ast.Global) for x in g.names]
            rep.check(ok, "Q4.generator-scope", "%s: %s" % (f.fq, norm_text(st)[:70] if st is not None else "?"),
                      "generator is not bound to a local or an instance attribute", f.where(n))
        # Q7
        from ..fx import is_memoised
        from ..common import memo_findings
        if is_memoised(f):
            if s.rng_draws or s.rng_global:
                rep.violation("Q7.no-memoisation", "%s: memoised random function" % f.fq,
                              "a memoised function that draws random numbers returns its first draw again", f.where())
            for msg, where in memo_findings(ix, f):
                rep.violation("Q7.no-memoisation", "%s: memoised: %s" % (f.fq, msg[:100]), msg, where)
        from ..common import global_state_findings
        for gname, msg in global_state_findings(ix, f):
            rep.violation("Q7.no-module-state", "%s: %s" % (f.fq, gname), msg, f.where())
    # module-level generators / class-level generators in the two modules
    for mn in (PS, IPS):
        m = ix.module(mn)
        bad = []
        for st in m.tree.body:
            if isinstance(st, (ast.Assign, ast.AnnAssign, ast.Expr)):
                for n in ast.walk(st):
                    if isinstance(n, ast.Call) and (dotted(n.func) or "").split(".")[-1] in ("default_rng", "RandomState", "seed", "Generator"):
                        bad.append(st)
        for c in m.classes.values():
            for st in c.node.body:
                if isinstance(st, (ast.Assign, ast.AnnAssign)):
                    for n in ast.walk(st):
                        if isinstance(n, ast.Call) and (dotted(n.func) or "").split(".")[-1] in ("default_rng", "RandomState", "Generator"):
                            bad.append(st)
        rep.check(not bad, "Q4.generator-scope", mn + ": no module- or class-level generator / seeding",
                  "module or class level random state: %s" % [norm_text(b)[:60] for b in bad], "%s:%d" % (m.relpath, bad[0].lineno if bad else 1))
    rep.floor("generator constructors", n_ctor, 3)

    # ---- Q3 / Q5 / Q6 / Q8 on normal forms
    seed = Rat.sym("seed")
    for name in ("ft_phase_screen", "ft_sh_phase_screen"):
        f = ix.func(PS, name)
        I = Interp(ix, int_transparent=True)
        fixed = {p: None for p in f.params[5:]}
        fixed["seed"] = seed
        rets = I.returns(f, I.symbolic_args(f, fixed=fixed))
        if len(rets) != 1 or not isinstance(rets[0][1], Rat):
            rep.unknown("Q3.draw-provenance", f.fq, "no single normal form", f.where())
            continue
        v = rets[0][1]
        draws = find_atoms(v, lambda a: isinstance(a, Fn) and a.name == "draw")
        n_draw += len(draws)
        bad = [d for d in draws if not _is_seeded_gen(d.args[0], seed)]
        rep.check(bool(draws) and not bad, "Q3.draw-provenance", f.fq + ": every draw is made on default_rng(seed)",
                  "draws on other sources: %s" % [repr(d.args[0])[:80] for d in bad], f.where())
        # Q5: sizes depend on N only / literals; loop bounds literal
        sizes_ok = all(_size_ok(d.args[4]) for d in draws)
        rep.check(sizes_ok, "Q5.draw-count", f.fq + ": draw sizes depend on the size parameter / literals only",
                  "draw sizes: %s" % [repr(d.args[4]) for d in draws], f.where())
        loops_with_draws = []
        for l in [n for n in ast.walk(f.node) if isinstance(n, (ast.For, ast.While))]:
            if any(isinstance(c, ast.Call) and isinstance(c.func, ast.Attribute) and c.func.attr in ("normal", "standard_normal", "random", "uniform")
                   for c in ast.walk(l)):
                loops_with_draws.append(l)
        from ..interp import RangeVal

        def const_bounds(l):
            """the loop's iteration space as the interpreter evaluated it (module-level constants folded) is a constant range"""
            if isinstance(l, ast.For) and isinstance(l.iter, ast.Call) and norm_text(l.iter.func) == "range" and \
                    all(isinstance(a, ast.Constant) for a in l.iter.args):
                return True
            its = [e_[3] for e_ in I.loop_log if e_[0] == f.fq and e_[1] == l.lineno]
            if its and all(isinstance(it_, RangeVal) and all(isinstance(b_, Rat) and b_.is_const() for b_ in (it_.lo, it_.hi, it_.step)) for it_ in its):
                return True
            return any(u_[0] == f.fq and u_[1] == l.lineno for u_ in getattr(I, "unrolled_log", []))
        lit = all(const_bounds(l) for l in loops_with_draws)
        rep.check(lit, "Q5.draw-count", f.fq + ": loops containing draws have literal bounds",
                  "loops with draws: %s" % [norm_text(l.iter) if isinstance(l, ast.For) else "while" for l in loops_with_draws], f.where())
        # Q6 seed forwarding
        for n in ast.walk(f.node):
            if isinstance(n, ast.Call):
                b = ix.resolve_call(f, n)
                if b is not None and b.kind == "func" and "seed" in b.target.params:
                    kw = {k.arg: k.value for k in n.keywords}
                    pos = b.target.params.index("seed")
                    arg = kw.get("seed", n.args[pos] if len(n.args) > pos else None)
                    # the seed itself, or the caller's own generator default_rng(seed) (the callee's default_rng(Generator) is that
                    # generator: one stream for both, which is what keeps their draws independent)
                    own_gen = False
                    if isinstance(arg, ast.Name):
                        asg = [a_ for a_ in ast.walk(f.node) if isinstance(a_, ast.Assign) and len(a_.targets) == 1 and
                               isinstance(a_.targets[0], ast.Name) and a_.targets[0].id == arg.id]
                        own_gen = len(asg) == 1 and isinstance(asg[0].value, ast.Call) and norm_text(asg[0].value.func).endswith("default_rng") \
                            and len(asg[0].value.args) == 1 and norm_text(asg[0].value.args[0]) == "seed" and asg[0].lineno < n.lineno
                    rep.check(arg is not None and (norm_text(arg) == "seed" or own_gen), "Q6.seed-forwarded", "%s -> %s(seed=seed)" % (f.fq, b.target.name),
                              "%s calls %s %s: the inner screen is not reproducible" % (f.name, b.target.name,
                                                                                       "without the seed" if arg is None else "with seed=%s" % norm_text(arg)),
                              f.where(n))
        rep.sample({"function": f.fq, "draws": [repr(d)[:120] for d in draws]})

    for cname in ("PhaseScreenVonKarman", "PhaseScreenKolmogorov"):
        cls = ix.cls(IPS, cname)
        tag = cls.fq
        # constructor stores the seed parameter
        init = cls.find_method("__init__")
        stores = [n for n in ast.walk(init.node) if isinstance(n, ast.Assign) and norm_text(n.targets[0]) == "self.random_seed"]
        rep.check(len(stores) == 1 and norm_text(stores[0].value) == "random_seed" and "random_seed" in init.params, "Q2.seed-stored",
                  tag + ".__init__: self.random_seed = random_seed", "seed is stored as %s" % [norm_text(s) for s in stores], init.where())
        others = [m for m in cls.all_methods().values() if m is not init and
                  any(isinstance(n, (ast.Assign, ast.AugAssign)) and "self.random_seed" in norm_text(n.targets[0] if isinstance(n, ast.Assign) else n.target)
                      for n in ast.walk(m.node))]
        rep.check(not others, "Q2.seed-stored", tag + ": the seed is never re-assigned", "re-assigned in %s" % [m.name for m in others], init.where())
        # initial screen
        m, I, o, paths = run_method(ix, cls, "make_initial_screen", opaque={"aotools.turbulence.phasescreen:ft_phase_screen"})
        R = o.attrs.get("_R")
        want_R = Rat.atom(Fn("rng", (A("random_seed"), 1)))
        rep.check(R is not None and same_value(R, want_R), "Q8.instance-generator", tag + ".make_initial_screen: _R = default_rng(self.random_seed)",
                  "_R = %s" % nf(R, 100), m.where())
        scr = o.attrs.get("_scrn")
        calls = find_atoms(scr, lambda a: isinstance(a, Fn) and a.name.startswith("call:") and a.name.endswith(":ft_phase_screen")) if isinstance(scr, Rat) else []
        fps = ix.func(PS, "ft_phase_screen")
        spos = fps.params.index("seed")
        rep.check(len(calls) == 1 and R is not None and same_value(calls[0].args[spos], R), "Q8.instance-generator",
                  tag + ".make_initial_screen: the FFT screen draws from the instance generator (seed=self._R)",
                  "initial screen is generated with seed argument %s" % ([nf(c.args[spos], 80) for c in calls]), m.where())
        # rows
        m2, I2, o2, p2 = run_method(ix, cls, "get_new_row", presets={"_R": Rat.sym("self._R", ("attr", "rng"))})
        draws = [d for pth in p2 for d in find_atoms(pth[2], lambda a: isinstance(a, Fn) and a.name == "draw")]
        n_draw += len(draws)
        rep.check(bool(draws) and all(same_value(d.args[0], Rat.sym("self._R", ("attr", "rng"))) for d in draws), "Q8.instance-generator",
                  tag + ".get_new_row draws from self._R", "row innovations drawn from %s" % [repr(d.args[0])[:60] for d in draws], m2.where())
        rep.check(all(_size_ok(d.args[4], attrs=True) for d in draws), "Q5.draw-count", tag + ".get_new_row: draw size is nx_size",
                  "draw sizes %s" % [repr(d.args[4]) for d in draws], m2.where())
        # the screens handed out (views of self._scrn) are values of the run: a later step must build a new buffer, not
        # overwrite the one earlier screens still look at - otherwise screen k kept from one run differs from screen k of
        # an identically seeded second run as soon as another row is added
        hits = []
        for mname_, meth_ in sorted(cls.all_methods().items()):
            for ev in fx.summary(meth_).attr_mut.get("_scrn", []):
                if ev.kind == "data" and ev.func is meth_:
                    hits.append((meth_, ev))
        for meth_, ev in hits:
            rep.violation("Q9.screens-are-values", "%s.%s: %s" % (tag, meth_.name, ev.stmt_text()[:60]),
                          "self._scrn is modified in place (%s) while the screens returned earlier are views of the same buffer: a screen "
                          "kept by the caller is rewritten by later rows, so the k-th screen of two identically seeded runs differs "
                          "unless each is copied at once" % ev.how, ev.where())
        if not hits:
            rep.ok("Q9.screens-are-values", tag + ": no method overwrites the screen buffer in place", "every step rebinds self._scrn to a new array")
    # default_rng(Generator) pass-through relies on ft_phase_screen calling default_rng(seed) on its parameter
    rep.floor("draw sites", n_draw, 8)


def _stmt(fnode, node):
    best = None
    for st in ast.walk(fnode):
        if isinstance(st, ast.stmt) and st is not fnode and any(n is node for n in ast.walk(st)):
            if best is None or st.lineno >= best.lineno:
                best = st
    return best


def _is_seeded_gen(g, seed):
    a = g.single_atom() if isinstance(g, Rat) else None
    return isinstance(a, Fn) and a.name == "rng" and same_value(a.args[0], seed)


def _size_ok(sz, attrs=False):
    items = sz if isinstance(sz, (tuple, list)) else (sz,)
    for it in items:
        if isinstance(it, Rat):
            for a in it.atoms():
                if not (isinstance(a, Sym) and (a.name in ("N",) or (attrs and a.name == "self.nx_size"))):
                    return False
        elif it is None:
            return False
    return True


def control():
    import os
    import shutil
    import tempfile
    from ..index import RepoIndex
    d = tempfile.mkdtemp(prefix="c06ctl_")
    try:
        os.makedirs(os.path.join(d, "aotools"))
        open(os.path.join(d, "aotools", "__init__.py"), "w").write("from .ctl import *\n")
        open(os.path.join(d, "aotools", "ctl.py"), "w").write(CONTROL)
        ix = RepoIndex(d, min_modules=1)
        out = {}
        for f in ix.module("aotools.ctl").funcs.values():
            ctor, glob, clock = rng_sites(ix, f)
            bad = bool(glob or clock)
            for n, dd in ctor:
                arg = n.args[0] if n.args else None
                if arg is None or norm_text(arg) != "seed":
                    bad = True
            out[f.name] = bad
        return out
    finally:
        shutil.rmtree(d, ignore_errors=True)
