"""C14 - pupil masks and sub-aperture selection are exact geometric indicators.

M1  circle(r, n, c, origin) == indicator of (X^2 + Y^2 <= r^2) written into a zero
    array, X = j + 1/2 - [origin == 'middle'] n/2 - c0, Y = i + 1/2 - ... - c1
    (non-strict comparison, both sides squared): nesting, symmetry and integer
    shift covariance follow for all arguments
M2  findActiveSubaps keeps a cell iff its mean >= threshold (non-strict) and the
    fill value it reports is that same mean; returned coordinates are (x*xs, y*ys)
M3  cell bounds are round(x*s) : round((x+1)*s) on both axes; computeFillFactor
    cuts round(x) : round(x + spacing) - identical cells when fed the returned
    coordinates with spacing s (mask size a multiple of the sub-aperture count)
M4  make_subaps_2d scatters in row-major order (x outer, y inner, [.., x, y]) with
    a counter that starts at 0 and advances exactly once per active cell - the
    order in which a boolean mask reads back
Not decided: area -> pi r^2 (a limit).
"""
import ast

from ..common import get_index, nf, check_equal, same_value
from ..index import norm_text
from ..interp import Interp, has_unknown, unknown_atoms
from ..plf import Rat, Sym, Fn, find_atoms
from ..report import AnalysisError

LEVEL = "other"
PUP = "aotools.functions.pupil"
WFS = "aotools.wfs.wfslib"

ORACLE = '''
import numpy


def indicator(radius, size, cx, cy, middle):
    C = numpy.zeros((size, size))
    c = numpy.arange(0.5, size, 1.0)            # pixel centres at half-integer coordinates
    x, y = numpy.meshgrid(c, c)
    if middle:
        x = x - size / 2.
        y = y - size / 2.
    x = x - cx
    y = y - cy
    C[x * x + y * y <= radius * radius] = 1
    return C


def cell(mask, subaps, x, y):
    xs = mask.shape[0] / float(subaps)
    ys = mask.shape[1] / float(subaps)
    return mask[int(numpy.round(x * xs)): int(numpy.round((x + 1) * xs)), int(numpy.round(y * ys)): int(numpy.round((y + 1) * ys))]


def fill_cell(mask, x, y, s):
    return mask[int(round(x)): int(round(x + s)), int(round(y)): int(round(y + s))].mean()
'''


def run(rep, tier, root=None):
    ix = get_index(root)
    om = ix.virtual("_oracle_c14", ORACLE)
    rep.trusted_base += ["oracle definitions in sa/props/c14.py (indicator of the closed disc on pixel centres)",
                         "boolean-mask indexing enumerates True cells in row-major order (numpy)"]
    rep.assumptions += ["size is a positive integer; square masks for the fill-factor agreement clause"]
    rep.explanation = ("circle's body is reduced to a normal form (a store of 1 under a comparison into a zero array) and compared "
                       "with the indicator definition for both origins; the selection rule, cell bounds and fill values of the "
                       "sub-aperture functions are compared as normal forms; the scatter order is a loop-nest / index-order rule.")
    rep.rule_text = "M1..M4, one obligation per (rule, function, variant)"

    # ---------------------------------------------------------------- M1
    f = ix.func(PUP, "circle")
    rep.functions_analysed.add(f.fq)
    rep.files_analysed.add(f.module.relpath)
    if f.params[:4] != ["radius", "size", "circle_centre", "origin"]:
        raise AnalysisError("circle signature changed: %s" % f.params)
    r, size, cx, cy = Rat.sym("radius"), Rat.sym("size", ("int",)), Rat.sym("cx"), Rat.sym("cy")
    I = Interp(ix)
    IO = Interp(ix)
    fo = ix.func(om.name, "indicator")
    for origin, middle in (("middle", True), ("corner", False)):
        rets = I.returns(f, [r, size, (cx, cy), origin])
        vals = [v for c, v in rets]
        if len(vals) != 1:
            rep.unknown("M1.indicator", "%s[origin=%s]" % (f.fq, origin), "expected one returning path, found %d" % len(vals), f.where())
            continue
        want = IO.returns(fo, [r, size, cx, cy, middle])[0][1]
        check_equal(rep, "M1.indicator", "%s[origin=%r] == [X^2 + Y^2 <= r^2] on pixel centres" % (f.fq, origin), vals[0], want,
                    f.where(), what="circle mask")
        rep.sample({"function": f.fq, "origin": origin, "normal_form": nf(vals[0], 400)})
    # any other origin string behaves as 'corner' or is rejected - it must not silently shift by something else
    rets = I.returns(f, [r, size, (cx, cy), Rat.sym("origin")])
    others = [v for c, v in rets if any(x.startswith("not (origin") for x in c)]
    wantc = IO.returns(fo, [r, size, cx, cy, False])[0][1]
    rep.check(all(same_value(v, wantc) for v in others), "M1.indicator", f.fq + "[other origin values] == corner",
              "an origin value other than 'middle' gives a mask that is not the corner-origin indicator", f.where())

    # ---------------------------------------------------------------- M2 / M3
    g = ix.func(WFS, "findActiveSubaps")
    rep.functions_analysed.add(g.fq)
    rep.files_analysed.add(g.module.relpath)
    mask, subaps, thr = Rat.sym("mask", ("array",)), Rat.sym("subaps", ("int",)), Rat.sym("threshold")
    for rf in (True, False):
        I2 = Interp(ix)
        I2.returns(g, [subaps, mask, thr, rf])
        app = [c for c in I2.call_log if c[0] == g.fq and c[1].endswith(".append")]
        coords = [c for c in app if c[2] and isinstance(c[2][0], (list, tuple)) and len(c[2][0]) == 2]
        fills = [c for c in app if c not in coords]
        tag = "%s[returnFill=%s]" % (g.fq, rf)
        if len(coords) != 1 or (rf and len(fills) != 1):
            rep.unknown("M2.selection", tag, "expected one coordinate append%s" % (" and one fill append" if rf else ""), g.where())
            continue
        # loop variables
        lv = {}
        for l in I2.loop_log:
            if l[0] == g.fq and isinstance(l[2], Rat) and isinstance(l[2].single_atom(), Sym):
                lv[l[2].single_atom().name] = l[2]
        if len(lv) != 2:
            rep.unknown("M2.selection", tag, "cannot identify the two cell loops", g.where())
            continue
        names = sorted(lv, key=lambda n: int(lv[n].single_atom().name.split("@")[1]))
        X, Y = lv[names[0]], lv[names[1]]
        cellv = IO.returns(ix.func(om.name, "cell"), [mask, subaps, X, Y])[0][1]
        meanv = Rat.atom(Fn("mean", (cellv, None)))
        cond = coords[0][5]
        sym_conds = [(v, t) for v, t in cond if isinstance(v, Rat) and v.depends_on(Sym("mask"))]
        from ..interp import mk_cmp
        want_cond = mk_cmp(">=", meanv, thr)
        ok = len(sym_conds) == 1 and sym_conds[0][1] is True and same_value(sym_conds[0][0], want_cond)
        rep.check(ok, "M2.selection", tag + ": keep cell iff mean(cell) >= threshold",
                  "cells are kept under %s (%s)" % ([nf(v, 160) for v, t in sym_conds], [t for v, t in sym_conds]), g.where(),
                  detail={"expected": nf(want_cond, 300)})
        xs = Rat.sym("shape(mask)[0]", ("int", "size")) / subaps
        ys = Rat.sym("shape(mask)[1]", ("int", "size")) / subaps
        cpair = coords[0][2][0]
        rep.check(same_value(tuple(cpair), (X * xs, Y * ys)), "M2.coordinates", tag + ": coordinates (x*xSpacing, y*ySpacing)",
                  "returned coordinates are %s" % nf(tuple(cpair), 120), g.where())
        if rf:
            rep.check(same_value(fills[0][2][0], meanv) and same_value(fills[0][5], cond), "M2.fill-value",
                      tag + ": reported fill == the mean that was compared",
                      "fill value appended is %s under %s" % (nf(fills[0][2][0], 160), [t for v, t in fills[0][5]]), g.where())
    h = ix.func(WFS, "computeFillFactor")
    rep.functions_analysed.add(h.fq)
    I3 = Interp(ix)
    pos, sp = Rat.sym("subapPos", ("array",)), Rat.sym("subapSpacing")
    r3 = I3.returns(h, [mask, pos, sp])
    st = [s for s in I3.store_log if s[0] == h.fq]
    lp = [l for l in I3.loop_log if l[0] == h.fq]
    if len(st) != 1 or len(lp) != 1 or not isinstance(lp[0][2], tuple):
        rep.unknown("M3.fill-factor", h.fq, "expected one loop over enumerate(subapPos) with one store", h.where())
    else:
        idx, elem = lp[0][2]
        px, py = Rat.atom(Fn("getitem", (elem, Rat.const(0)))), Rat.atom(Fn("getitem", (elem, Rat.const(1))))
        want = IO.returns(ix.func(om.name, "fill_cell"), [mask, px, py, sp])[0][1]
        check_equal(rep, "M3.fill-factor", h.fq + ": fills[i] == mask[round(x):round(x+s), round(y):round(y+s)].mean()", st[0][3], want,
                    h.where(), what="fill factor")
        al = [a for a in I3.alloc_log if a[0] == h.fq]
        okd = len(al) == 1 and ("dtype" not in al[0][3] or _is_float_dtype(al[0][3]["dtype"]))
        rep.check(okd, "M3.fill-dtype", h.fq + ": fill factors are stored in a floating-point array",
                  "fill factors (fractions in [0, 1]) are stored in an array allocated as %s: for boolean / integer masks they are "
                  "truncated on assignment" % [(a[1], {k_: repr(v_)[:40] for k_, v_ in a[3].items()}) for a in al], h.where())
        rep.check(same_value(st[0][2], idx), "M3.fill-factor", h.fq + ": stored at the sub-aperture's own index",
                  "fill of sub-aperture %s stored at %s" % (nf(idx), nf(st[0][2])), h.where())
        # agreement with the selection cells: x := X*s, y := Y*s, spacing := s, square mask
        s0 = Rat.sym("shape(mask)[0]", ("int", "size")) / subaps
        X, Y = Rat.sym("X", ("int",)), Rat.sym("Y", ("int",))
        ff = IO.returns(ix.func(om.name, "fill_cell"), [mask, X * s0, Y * s0, s0])[0][1]
        cl = IO.returns(ix.func(om.name, "cell"), [mask, subaps, X, Y])[0][1]
        cl = cl.subst(lambda a: Rat.sym("shape(mask)[0]", ("int", "size")) if a == Sym("shape(mask)[1]") else None)
        rep.check(same_value(ff, Rat.atom(Fn("mean", (cl, None)))), "M3.same-cells", "fill-factor cells == selection cells for spacing = size/subaps",
                  "the two functions cut different cells", h.where())

    # ---------------------------------------------------------------- M4
    k = ix.func(WFS, "make_subaps_2d")
    rep.functions_analysed.add(k.fq)
    scatter_order(rep, k)
    from ..common import purity_obligations
    purity_obligations(rep, ix, [ix.func(PUP, "circle")] + [ix.func(WFS, n) for n in ("findActiveSubaps", "computeFillFactor", "make_subaps_2d")],
                       "M5.pure", "the mask / sub-aperture set returned would depend on earlier calls, not only on the arguments")
    rep.floor("C14 obligations", len(rep.obligations), 14)


def _is_float_dtype(v):
    from ..interp import ExtRef
    if isinstance(v, str):
        return v in ("float", "float64", "f8", "d", "double", "float32", "f4")
    if isinstance(v, ExtRef):
        return v.dotted in ("builtins.float", "numpy.float64", "numpy.float32", "numpy.double", "numpy.float_")
    return False


def scatter_order(rep, k):
    fors = [n for n in k.node.body if isinstance(n, ast.For)]
    if len(fors) != 1 or not (len(fors[0].body) == 1 and isinstance(fors[0].body[0], ast.For)):
        rep.unknown("M4.scatter-order", k.fq, "expected one doubly nested loop", k.where())
        return
    outer, inner = fors[0], fors[0].body[0]
    xo, yi = norm_text(outer.target), norm_text(inner.target)
    ifs = [n for n in inner.body if isinstance(n, ast.If)]
    if len(inner.body) != 1 or len(ifs) != 1 or ifs[0].orelse:
        rep.unknown("M4.scatter-order", k.fq, "inner loop body is not a single `if mask[x, y] == 1:`", k.where(inner))
        return
    test = norm_text(ifs[0].test).replace(" ", "")
    mname = k.params[1]
    rep.check(test in ("%s[%s,%s]==1" % (mname, xo, yi), "%s[%s,%s]" % (mname, xo, yi), "%s[%s,%s]!=0" % (mname, xo, yi)),
              "M4.scatter-order", k.fq + ": cell (x, y) tested with the outer index first",
              "active cells are tested as %s with loops %s (outer), %s (inner)" % (test, xo, yi), k.where(ifs[0]))
    stores = [n for n in ifs[0].body if isinstance(n, ast.Assign) and isinstance(n.targets[0], ast.Subscript)]
    incs = [n for n in ifs[0].body if isinstance(n, ast.AugAssign)]
    if len(stores) != 1 or len(incs) != 1 or len(ifs[0].body) != 2:
        rep.violation("M4.counter", k.fq + ": one store and one counter increment per active cell",
                      "the active-cell branch has %d stores and %d increments" % (len(stores), len(incs)), k.where(ifs[0]))
        return
    tgt = stores[0].targets[0]
    tidx = [norm_text(e) for e in (tgt.slice.elts if isinstance(tgt.slice, ast.Tuple) else [tgt.slice])]
    rep.check(tidx[-2:] == [xo, yi], "M4.scatter-order", k.fq + ": stored at [..., x, y]",
              "data is stored at [%s] with loops %s (outer), %s (inner): read-back through the mask is row-major" % (", ".join(tidx), xo, yi),
              k.where(stores[0]))
    cnt = norm_text(incs[0].target)
    val = stores[0].value
    vidx = [norm_text(e) for e in (val.slice.elts if isinstance(val, ast.Subscript) and isinstance(val.slice, ast.Tuple) else [])]
    rep.check(isinstance(val, ast.Subscript) and norm_text(val.value) == k.params[0] and vidx and vidx[-1] == cnt,
              "M4.counter", k.fq + ": k-th active cell receives data[..., k]",
              "stored value is %s, counter is %s" % (norm_text(val), cnt), k.where(stores[0]))
    rep.check(isinstance(incs[0].op, ast.Add) and norm_text(incs[0].value) == "1" and
              stores[0].lineno < incs[0].lineno, "M4.counter", k.fq + ": counter += 1 after the store",
              "counter update is `%s`" % norm_text(incs[0]), k.where(incs[0]))
    inits = [n for n in k.node.body if isinstance(n, ast.Assign) and norm_text(n.targets[0]) == cnt]
    others = [n for n in ast.walk(k.node) if isinstance(n, (ast.Assign, ast.AugAssign)) and
              norm_text(n.targets[0] if isinstance(n, ast.Assign) else n.target) == cnt]
    rep.check(len(inits) == 1 and norm_text(inits[0].value) == "0" and inits[0].lineno < outer.lineno and len(others) == 2,
              "M4.counter", k.fq + ": counter starts at 0 before the loops and is written nowhere else",
              "counter writes: %s" % [norm_text(n) for n in others], k.where())
    # loop ranges cover the mask
    rng = [norm_text(outer.iter).replace(" ", ""), norm_text(inner.iter).replace(" ", "")]
    src = {}
    for n in k.node.body:
        if isinstance(n, ast.Assign) and isinstance(n.targets[0], ast.Name):
            src[n.targets[0].id] = norm_text(n.value).replace(" ", "")
    def ext(r):
        inner_ = r[len("range("):-1]
        return src.get(inner_, inner_)
    rep.check(ext(rng[0]) == "%s.shape[0]" % mname and ext(rng[1]) in ("%s.shape[0]" % mname, "%s.shape[1]" % mname),
              "M4.scatter-order", k.fq + ": loops run over the whole mask", "loop ranges are %s" % rng, k.where(outer))
