"""C14 - pupil masks and sub-aperture selection are exact geometric indicators.

M1  circle(r, n, c, origin) == indicator of (X^2 + Y^2 <= r^2) written into a zero
    array, X = j + 1/2 - [origin == 'middle'] n/2 - c0, Y = i + 1/2 - ... - c1
    (non-strict comparison, both sides squared): nesting, symmetry and integer
    shift covariance follow for all arguments
M2  findActiveSubaps keeps a cell iff its mean >= threshold (non-strict) and the
    fill value it reports is that same mean; returned coordinates are (x*xs, y*ys)
M3  cell bounds are round(x*s) : round((x+1)*s) on both axes; computeFillFactor
    cuts round(x) : round(x + spacing) - identical cells when fed the returned
    coordinates with spacing s (mask size a multiple of the sub-aperture count)
M4  make_subaps_2d scatters in row-major order (x outer, y inner, [.., x, y]) with
    a counter that starts at 0 and advances exactly once per active cell - the
    order in which a boolean mask reads back
Not decided: area -> pi r^2 (a limit).
"""
import ast

from ..common import get_index, nf, check_equal, same_value
from ..index import norm_text
from ..interp import Interp, has_unknown, unknown_atoms, RangeVal
from ..plf import Rat, Sym, Fn, find_atoms
from ..report import AnalysisError

LEVEL = "other"
PUP = "aotools.functions.pupil"
WFS = "aotools.wfs.wfslib"

ORACLE = '''
import numpy


def indicator(radius, size, cx, cy, middle):
    C = numpy.zeros((size, size))
    c = numpy.arange(0.5, size, 1.0)            # pixel centres at half-integer coordinates
    x, y = numpy.meshgrid(c, c)
    if middle:
        x = x - size / 2.
        y = y - size / 2.
    x = x - cx
    y = y - cy
    C[x * x + y * y <= radius * radius] = 1
    return C


def cell(mask, subaps, x, y):
    xs = mask.shape[0] / float(subaps)
    ys = mask.shape[1] / float(subaps)
    return mask[int(numpy.round(x * xs)): int(numpy.round((x + 1) * xs)), int(numpy.round(y * ys)): int(numpy.round((y + 1) * ys))]


def fill_cell(mask, x, y, s):
    return mask[int(round(x)): int(round(x + s)), int(round(y)): int(round(y + s))].mean()
'''


def run(rep, tier, root=None):
    ix = get_index(root)
    om = ix.virtual("_oracle_c14", ORACLE)
    rep.trusted_base += ["oracle definitions in sa/props/c14.py (indicator of the closed disc on pixel centres)",
                         "boolean-mask indexing enumerates True cells in row-major order (numpy)"]
    rep.assumptions += ["size is a positive integer; square masks for the fill-factor agreement clause"]
    rep.explanation = ("circle's body is reduced to a normal form (a store of 1 under a comparison into a zero array) and compared "
                       "with the indicator definition for both origins; the selection rule, cell bounds and fill values of the "
                       "sub-aperture functions are compared as normal forms; the scatter order is a loop-nest / index-order rule.")
    rep.rule_text = "M1..M4, one obligation per (rule, function, variant)"

    # ---------------------------------------------------------------- M1
    f = ix.func(PUP, "circle")
    rep.functions_analysed.add(f.fq)
    rep.files_analysed.add(f.module.relpath)
    if f.params[:4] != ["radius", "size", "circle_centre", "origin"]:
        raise AnalysisError("circle signature changed: %s" % f.params)
    r, size, cx, cy = Rat.sym("radius"), Rat.sym("size", ("int",)), Rat.sym("cx"), Rat.sym("cy")
    I = Interp(ix)
    IO = Interp(ix)
    fo = ix.func(om.name, "indicator")
    for origin, middle in (("middle", True), ("corner", False)):
        rets = I.returns(f, [r, size, (cx, cy), origin])
        vals = [v for c, v in rets]
        if len(vals) != 1:
            rep.unknown("M1.indicator", "%s[origin=%s]" % (f.fq, origin), "expected one returning path, found %d" % len(vals), f.where())
            continue
        want = IO.returns(fo, [r, size, cx, cy, middle])[0][1]
        check_equal(rep, "M1.indicator", "%s[origin=%r] == [X^2 + Y^2 <= r^2] on pixel centres" % (f.fq, origin), vals[0], want,
                    f.where(), what="circle mask")
        rep.sample({"function": f.fq, "origin": origin, "normal_form": nf(vals[0], 400)})
    # any other origin string behaves as 'corner' or is rejected - it must not silently shift by something else
    rets = I.returns(f, [r, size, (cx, cy), Rat.sym("origin")])
    others = [v for c, v in rets if any(x.startswith("not (origin") for x in c)]
    wantc = IO.returns(fo, [r, size, cx, cy, False])[0][1]
    rep.check(all(same_value(v, wantc) for v in others), "M1.indicator", f.fq + "[other origin values] == corner",
              "an origin value other than 'middle' gives a mask that is not the corner-origin indicator", f.where())

    # ---------------------------------------------------------------- M2 / M3
    g = ix.func(WFS, "findActiveSubaps")
    rep.functions_analysed.add(g.fq)
    rep.files_analysed.add(g.module.relpath)
    mask, subaps, thr = Rat.sym("mask", ("array",)), Rat.sym("subaps", ("int",)), Rat.sym("threshold")
    for rf in (True, False):
        I2 = Interp(ix)
        I2.returns(g, [subaps, mask, thr, rf])
        app = [c for c in I2.call_log if c[0] == g.fq and c[1].endswith(".append")]
        coords = [c for c in app if c[2] and isinstance(c[2][0], (list, tuple)) and len(c[2][0]) == 2]
        fills = [c for c in app if c not in coords]
        tag = "%s[returnFill=%s]" % (g.fq, rf)
        if len(coords) != 1 or (rf and len(fills) != 1):
            rep.unknown("M2.selection", tag, "expected one coordinate append%s" % (" and one fill append" if rf else ""), g.where())
            continue
        # loop variables
        lv = {}
        for l in I2.loop_log:
            if l[0] == g.fq and isinstance(l[2], Rat) and isinstance(l[2].single_atom(), Sym):
                lv[l[2].single_atom().name] = l[2]
        if len(lv) != 2:
            rep.unknown("M2.selection", tag, "cannot identify the two cell loops", g.where())
            continue
        names = sorted(lv, key=lambda n: int(lv[n].single_atom().name.split("@")[1]))
        X, Y = lv[names[0]], lv[names[1]]
        cellv = IO.returns(ix.func(om.name, "cell"), [mask, subaps, X, Y])[0][1]
        meanv = Rat.atom(Fn("mean", (cellv, None)))
        cond = coords[0][5]
        sym_conds = [(v, t) for v, t in cond if isinstance(v, Rat) and v.depends_on(Sym("mask"))]
        from ..interp import mk_cmp
        want_cond = mk_cmp(">=", meanv, thr)
        ok = len(sym_conds) == 1 and sym_conds[0][1] is True and same_value(sym_conds[0][0], want_cond)
        rep.check(ok, "M2.selection", tag + ": keep cell iff mean(cell) >= threshold",
                  "cells are kept under %s (%s)" % ([nf(v, 160) for v, t in sym_conds], [t for v, t in sym_conds]), g.where(),
                  detail={"expected": nf(want_cond, 300)})
        xs = Rat.sym("shape(mask)[0]", ("int", "size")) / subaps
        ys = Rat.sym("shape(mask)[1]", ("int", "size")) / subaps
        cpair = coords[0][2][0]
        rep.check(same_value(tuple(cpair), (X * xs, Y * ys)), "M2.coordinates", tag + ": coordinates (x*xSpacing, y*ySpacing)",
                  "returned coordinates are %s" % nf(tuple(cpair), 120), g.where())
        if rf:
            rep.check(same_value(fills[0][2][0], meanv) and same_value(fills[0][5], cond), "M2.fill-value",
                      tag + ": reported fill == the mean that was compared",
                      "fill value appended is %s under %s" % (nf(fills[0][2][0], 160), [t for v, t in fills[0][5]]), g.where())
    h = ix.func(WFS, "computeFillFactor")
    rep.functions_analysed.add(h.fq)
    I3 = Interp(ix)
    pos, sp = Rat.sym("subapPos", ("array",)), Rat.sym("subapSpacing")
    r3 = I3.returns(h, [mask, pos, sp])
    st = [s for s in I3.store_log if s[0] == h.fq]
    lp = [l for l in I3.loop_log if l[0] == h.fq]
    if len(st) != 1 or len(lp) != 1 or not isinstance(lp[0][2], tuple):
        rep.unknown("M3.fill-factor", h.fq, "expected one loop over enumerate(subapPos) with one store", h.where())
    else:
        idx, elem = lp[0][2]
        px, py = Rat.atom(Fn("getitem", (elem, Rat.const(0)))), Rat.atom(Fn("getitem", (elem, Rat.const(1))))
        want = IO.returns(ix.func(om.name, "fill_cell"), [mask, px, py, sp])[0][1]
        check_equal(rep, "M3.fill-factor", h.fq + ": fills[i] == mask[round(x):round(x+s), round(y):round(y+s)].mean()", st[0][3], want,
                    h.where(), what="fill factor")
        al = [a for a in I3.alloc_log if a[0] == h.fq]
        okd = len(al) == 1 and ("dtype" not in al[0][3] or _is_float_dtype(al[0][3]["dtype"]))
        rep.check(okd, "M3.fill-dtype", h.fq + ": fill factors are stored in a floating-point array",
                  "fill factors (fractions in [0, 1]) are stored in an array allocated as %s: for boolean / integer masks they are "
                  "truncated on assignment" % [(a[1], {k_: repr(v_)[:40] for k_, v_ in a[3].items()}) for a in al], h.where())
        rep.check(same_value(st[0][2], idx), "M3.fill-factor", h.fq + ": stored at the sub-aperture's own index",
                  "fill of sub-aperture %s stored at %s" % (nf(idx), nf(st[0][2])), h.where())
        # agreement with the selection cells: x := X*s, y := Y*s, spacing := s, square mask
        s0 = Rat.sym("shape(mask)[0]", ("int", "size")) / subaps
        X, Y = Rat.sym("X", ("int",)), Rat.sym("Y", ("int",))
        ff = IO.returns(ix.func(om.name, "fill_cell"), [mask, X * s0, Y * s0, s0])[0][1]
        cl = IO.returns(ix.func(om.name, "cell"), [mask, subaps, X, Y])[0][1]
        cl = cl.subst(lambda a: Rat.sym("shape(mask)[0]", ("int", "size")) if a == Sym("shape(mask)[1]") else None)
        rep.check(same_value(ff, Rat.atom(Fn("mean", (cl, None)))), "M3.same-cells", "fill-factor cells == selection cells for spacing = size/subaps",
                  "the two functions cut different cells", h.where())

    # ---------------------------------------------------------------- M4
    k = ix.func(WFS, "make_subaps_2d")
    rep.functions_analysed.add(k.fq)
    scatter_order(rep, k, ix)
    from ..common import purity_obligations
    purity_obligations(rep, ix, [ix.func(PUP, "circle")] + [ix.func(WFS, n) for n in ("findActiveSubaps", "computeFillFactor", "make_subaps_2d")],
                       "M5.pure", "the mask / sub-aperture set returned would depend on earlier calls, not only on the arguments")
    rep.floor("C14 obligations", len(rep.obligations), 14)


def _is_float_dtype(v):
    from ..interp import ExtRef
    if isinstance(v, str):
        return v in ("float", "float64", "f8", "d", "double", "float32", "f4")
    if isinstance(v, ExtRef):
        return v.dotted in ("builtins.float", "numpy.float64", "numpy.float32", "numpy.double", "numpy.float_")
    return False


def scatter_order(rep, k, ix):
    """make_subaps_2d: the k-th active cell in row-major order receives data[..., k].
    Read from the interpreter's logs: the store, the branch condition it is made under, the iteration order of the
    cell coordinates it is stored at, and the discipline of the counter that numbers the active cells."""
    from ..interp import Interp
    from ..plf import Rat, Fn, Sym
    data, mask = Rat.sym(k.params[0], ("array",)), Rat.sym(k.params[1], ("array",))
    # the numbering of the active cells is the logical row-major order of mask == 1 (that is how the slopes are read back):
    # a traversal in *memory* order (order="K"/"A"/"F") numbers the cells of a transposed or column-major mask differently
    mem = [n for n in ast.walk(k.node) if isinstance(n, ast.keyword) and n.arg == "order" and
           not (isinstance(n.value, ast.Constant) and n.value.value in ("C", None))]
    for n in mem:
        rep.violation("M4.scatter-order", "%s: order=%s" % (k.fq, norm_text(n.value)),
                      "cells are enumerated with order=%s, i.e. in memory (or column-major) order: for a mask that is a transposed view or "
                      "Fortran-ordered the k-th enumerated cell is not the k-th cell of numpy.where(mask == 1), so slopes land in the wrong "
                      "sub-apertures" % norm_text(n.value), k.where(n.value))
    if mem:
        return
    I = Interp(ix)
    I.returns(k, [data, mask])
    full = ("slice", Rat.const(0), None, None)
    stores = [s_ for s_ in I.store_log if s_[0] == k.fq and isinstance(s_[2], tuple) and len(s_[2]) >= 2]
    if len(stores) != 1:
        rep.unknown("M4.scatter-order", k.fq, "expected one store into the 2-D sub-aperture array, found %d" % len(stores), k.where())
        return
    _, base, idx, val, lineno, op, txt = stores[0]
    where = "%s:%d" % (k.module.relpath, lineno)
    X, Y = idx[-2], idx[-1]
    # the state the store was made in: find it through the loop log (innermost body states)
    conds = None
    for l in I.loop_log:
        if l[0] == k.fq:
            pass
    st_node = next((n for n in ast.walk(k.node) if isinstance(n, ast.Assign) and n.lineno == lineno and isinstance(n.targets[0], ast.Subscript)), None)
    if isinstance(X, Rat) and isinstance(Y, Rat) and (_vectorised_scatter(rep, k, I, X, Y, idx, val, op, txt, where, data, mask, full) or
                                                     _filtered_enumeration_scatter(rep, k, X, Y, idx, val, op, where, data, mask, full)):
        return
    in_loop = st_node is not None and any(isinstance(n, (ast.For, ast.While)) and any(c is st_node for c in ast.walk(n)) for n in ast.walk(k.node))
    if st_node is not None and not in_loop:
        # one assignment outside any loop that is not one of the vectorised forms read above: the loop-form rules do not apply
        rep.unknown("M4.scatter-order", k.fq, "the scatter `%s` is a single vectorised assignment of a form the rule cannot read" % txt, where)
        return
    if st_node is None or not (isinstance(X, Rat) and isinstance(Y, Rat)):
        rep.unknown("M4.scatter-order", k.fq, "cannot read the store `%s`" % txt, where)
        return
    # 1. active test: the store is guarded by mask[X, Y] == 1 (path conditions recorded with the call log are not available for
    #    stores; evaluate the guards syntactically enclosing / preceding the store with the interpreter's values)
    guard = _active_guard(k, st_node, I, X, Y, mask)
    rep.check(guard is True, "M4.scatter-order", k.fq + ": cell (x, y) is filled iff mask[x, y] == 1, tested at the coordinates it is stored at",
              "the store `%s` is made %s" % (txt, guard if isinstance(guard, str) else "without testing mask at [%s, %s]" % (nf(X, 40), nf(Y, 40))), where)
    rep.check(same_value(idx[:-2], (full, full)) and op == "=", "M4.scatter-order", k.fq + ": stored at [:, :, x, y]",
              "data is stored at %s" % nf(idx, 120), where)
    # 2. iteration order of (X, Y) is row-major
    loops = [l for l in I.loop_log if l[0] == k.fq]
    lvs = {}
    for l in loops:
        if isinstance(l[2], Rat) and isinstance(l[2].single_atom(), Sym) and isinstance(l[3], RangeVal):
            lvs[l[2].single_atom()] = l[3]
    order_ok, cover_ok, why = False, False, "cell coordinates (%s, %s) are not the loop variables of a nest, nor divmod of one ascending index" % (nf(X, 40), nf(Y, 40))
    n0 = Rat.sym("shape(%s)[0]" % k.params[1], ("int", "size"))
    n1 = Rat.sym("shape(%s)[1]" % k.params[1], ("int", "size"))
    xa, ya = X.single_atom(), Y.single_atom()
    if isinstance(xa, Sym) and isinstance(ya, Sym) and xa in lvs and ya in lvs and xa != ya:
        dx, dy = int(xa.name.split("@")[1]), int(ya.name.split("@")[1])
        order_ok = dx < dy
        why = "x is the %s loop variable" % ("outer" if order_ok else "inner")
        rx, ry = lvs[xa], lvs[ya]
        cover_ok = same_value((rx.lo, rx.step, ry.lo, ry.step), (Rat.const(0), Rat.const(1), Rat.const(0), Rat.const(1))) and \
            same_value(rx.hi, n0) and (same_value(ry.hi, n0) or same_value(ry.hi, n1))
    elif isinstance(xa, Fn) and isinstance(ya, Fn) and xa.name == "floordiv" and ya.name == "mod" and same_value(xa.args, ya.args):
        c, n = xa.args
        ca = c.single_atom() if isinstance(c, Rat) else None
        if isinstance(ca, Sym) and ca in lvs:
            r = lvs[ca]
            order_ok = same_value((r.lo, r.step), (Rat.const(0), Rat.const(1)))
            why = "(x, y) = divmod(c, %s) of the ascending index c" % nf(n, 30)
            cover_ok = same_value(n, n0) and (same_value(r.hi, n0 * n0) or same_value(r.hi, n0 * n1))
    rep.check(order_ok, "M4.scatter-order", k.fq + ": cells are visited in row-major order of (x, y)", why, where, note=why)
    rep.check(cover_ok, "M4.scatter-order", k.fq + ": loops run over the whole mask", "iteration space does not cover mask.shape[0] rows and columns", where)
    # 3. the k-th active cell receives data[..., k]: value read with the counter, counter advanced once per store, after it
    v = st_node.value
    vidx = (v.slice.elts if isinstance(v.slice, ast.Tuple) else [v.slice]) if isinstance(v, ast.Subscript) else []
    cnt = vidx[-1].id if vidx and isinstance(vidx[-1], ast.Name) else None
    good_val = isinstance(v, ast.Subscript) and norm_text(v.value) == k.params[0] and cnt is not None and \
        all(isinstance(e, ast.Slice) and e.lower is None and e.upper is None for e in vidx[:-1])
    rep.check(good_val, "M4.counter", k.fq + ": k-th active cell receives data[..., k]", "stored value is %s" % norm_text(v), where)
    if cnt is None:
        return
    writes = [n for n in ast.walk(k.node) if isinstance(n, (ast.Assign, ast.AugAssign)) and
              norm_text(n.targets[0] if isinstance(n, ast.Assign) else n.target) == cnt]
    inits = [n for n in writes if isinstance(n, ast.Assign)]
    incs = [n for n in writes if isinstance(n, ast.AugAssign)]
    first_loop = min((n.lineno for n in ast.walk(k.node) if isinstance(n, (ast.For, ast.While))), default=10 ** 9)
    rep.check(len(inits) == 1 and norm_text(inits[0].value) == "0" and inits[0].lineno < first_loop and len(incs) == 1, "M4.counter",
              k.fq + ": counter starts at 0 before the loops and is written nowhere else", "counter writes: %s" % [norm_text(n) for n in writes], k.where())
    if len(incs) == 1:
        inc = incs[0]
        same_block = _same_block(k.node, st_node, inc)
        rep.check(isinstance(inc.op, ast.Add) and norm_text(inc.value) == "1" and st_node.lineno < inc.lineno and same_block, "M4.counter",
                  k.fq + ": counter += 1 once per store, after it (same block)", "counter update is `%s`%s" % (norm_text(inc), "" if same_block else " in another block than the store"),
                  k.where(inc))


def _vectorised_scatter(rep, k, I, X, Y, idx, val, op, txt, where, data, mask, full):
    """the scatter as one fancy-index assignment: out[:, :, xs, ys] = data[:, :, :len(xs)] with (xs, ys) = nonzero(mask == 1).
    numpy.nonzero / where / argwhere enumerate the true cells in row-major (C) order, so the k-th enumerated cell is the k-th
    active cell: same obligations as the loop form, read from the index arrays.  Returns False if the store is not of this form."""
    from ..plf import Rat, Fn, Sym
    xa, ya = X.single_atom(), Y.single_atom()
    if not (isinstance(xa, Fn) and isinstance(ya, Fn) and xa.name == "getitem" and ya.name == "getitem" and
            isinstance(xa.args[0], Rat) and same_value(xa.args[0], ya.args[0])):
        return False
    w = xa.args[0].single_atom()
    if not (isinstance(w, Fn) and w.name == "where1" and len(w.args) == 1 and isinstance(w.args[0], Rat)):
        return False
    kx, ky = xa.args[1], ya.args[1]
    rep.check(same_value(kx, Rat.const(0)) and same_value(ky, Rat.const(1)), "M4.scatter-order",
              k.fq + ": cells are visited in row-major order of (x, y)",
              "row indices of the active cells are component %s and column indices component %s of nonzero(...)" % (nf(kx), nf(ky)), where,
              note="numpy.nonzero enumerates the true cells in row-major order; x = component 0, y = component 1")
    # the test: mask == 1 on the whole mask (or on its leading square block, which is what the loops over range(shape[0]) visit)
    n0 = Rat.sym("shape(%s)[0]" % k.params[1], ("int", "size"))
    from ..interp import mk_cmp
    c1 = mk_cmp("==", mask, Rat.const(1))
    sq = Rat.atom(Fn("getitem", (mask, (full, ("slice", Rat.const(0), n0, None)))))
    c2 = mk_cmp("==", sq, Rat.const(1))
    rep.check(same_value(w.args[0], c1) or same_value(w.args[0], c2), "M4.scatter-order",
              k.fq + ": cell (x, y) is filled iff mask[x, y] == 1, tested at the coordinates it is stored at",
              "the active cells are those where %s" % nf(w.args[0], 120), where)
    rep.check(same_value(idx[:-2], (full, full)) and op == "=", "M4.scatter-order", k.fq + ": stored at [:, :, x, y]",
              "data is stored at %s" % nf(idx, 120), where)
    rep.ok("M4.scatter-order", k.fq + ": loops run over the whole mask", "nonzero() scans the whole tested array")
    # k-th active cell receives data[..., k]: the value is data itself or its leading len(xs) columns, in order
    cnt_forms = [Rat.atom(Fn("len", (X,))), Rat.atom(Fn("len", (Y,))), Rat.atom(Fn("shape", (X, 0))), Rat.atom(Fn("shape", (Y, 0))),
                 Rat.atom(Fn("count_nonzero", (w.args[0],))),
                 Rat.atom(Fn("sum", (w.args[0], None)))]
    good = same_value(val, data)
    va = val.single_atom() if isinstance(val, Rat) else None
    if isinstance(va, Fn) and va.name == "getitem" and same_value(va.args[0], data) and isinstance(va.args[1], tuple) and len(va.args[1]) == 3 \
            and same_value(va.args[1][:2], (full, full)):
        last = va.args[1][2]
        good = isinstance(last, tuple) and len(last) == 4 and last[0] == "slice" and last[3] is None and same_value(last[1], Rat.const(0)) and \
            (last[2] is None or any(same_value(last[2], c_) for c_ in cnt_forms))
    rep.check(good, "M4.counter", k.fq + ": k-th active cell receives data[..., k]", "stored value is %s" % nf(val, 120), where)
    return True


def _filtered_enumeration_scatter(rep, k, X, Y, idx, val, op, where, data, mask, full):
    """the scatter as out[:, :, xs[v], ys[v]] = data[:, :, arange(len(xs[v]))] with (xs, ys) the row-major enumeration of the n x n
    grid (the two components of numpy.indices((n, n)), flattened) and v = (mask[xs, ys] == 1): a boolean filter keeps the order,
    so the k-th kept cell is the k-th active cell in row-major order.  Returns False if the store is not of this form."""
    from ..plf import Rat, Fn
    from ..interp import mk_cmp
    xa, ya = X.single_atom(), Y.single_atom()
    if not (isinstance(xa, Fn) and isinstance(ya, Fn) and xa.name == "getitem" and ya.name == "getitem" and
            isinstance(xa.args[1], Rat) and isinstance(ya.args[1], Rat) and isinstance(xa.args[0], Rat) and isinstance(ya.args[0], Rat)):
        return False
    fx, fy = xa.args[0].single_atom(), ya.args[0].single_atom()
    if not (isinstance(fx, Fn) and isinstance(fy, Fn) and fx.name == "flatten" and fy.name == "flatten"):
        return False
    gx, gy = (fx.args[0].single_atom() if isinstance(fx.args[0], Rat) else None), (fy.args[0].single_atom() if isinstance(fy.args[0], Rat) else None)
    if not (isinstance(gx, Fn) and isinstance(gy, Fn) and gx.name == "grid" and gy.name == "grid"):
        return False
    n0 = Rat.sym("shape(%s)[0]" % k.params[1], ("int", "size"))
    axis_ok = gx.args[1] == 0 and gy.args[1] == 1 and same_value(gx.args[0], gy.args[0])
    rep.check(axis_ok, "M4.scatter-order", k.fq + ": cells are visited in row-major order of (x, y)",
              "the enumerated coordinates are the flattened grids %s and %s: x must run along axis 0 and y along axis 1 of the same grid"
              % (nf(Rat.atom(gx), 80), nf(Rat.atom(gy), 80)), where,
              note="the flattened components of numpy.indices enumerate the grid in row-major order; a boolean filter keeps the order")
    whole = Rat.atom(Fn("arange", (Rat.const(0), n0, Rat.const(1))))
    rep.check(same_value(gx.args[0], whole), "M4.scatter-order", k.fq + ": loops run over the whole mask",
              "the enumerated grid is %s x %s, the mask has %s rows and columns" % (nf(gx.args[0], 60), nf(gy.args[0], 60), nf(n0)), where)
    want = mk_cmp("==", Rat.atom(Fn("getitem", (mask, (xa.args[0], ya.args[0])))), Rat.const(1))
    rep.check(same_value(xa.args[1], want) and same_value(ya.args[1], want), "M4.scatter-order",
              k.fq + ": cell (x, y) is filled iff mask[x, y] == 1, tested at the coordinates it is stored at",
              "the kept cells are those where %s (x) / %s (y)" % (nf(xa.args[1], 100), nf(ya.args[1], 100)), where)
    rep.check(same_value(idx[:-2], (full, full)) and op == "=", "M4.scatter-order", k.fq + ": stored at [:, :, x, y]",
              "data is stored at %s" % nf(idx, 120), where)
    cnt_forms = [Rat.atom(Fn("len", (X,))), Rat.atom(Fn("len", (Y,))), Rat.atom(Fn("shape", (X, 0))), Rat.atom(Fn("shape", (Y, 0))),
                 Rat.atom(Fn("count_nonzero", (xa.args[1],))),
                 Rat.atom(Fn("sum", (xa.args[1], None)))]
    good = same_value(val, data)
    va = val.single_atom() if isinstance(val, Rat) else None
    if isinstance(va, Fn) and va.name == "getitem" and same_value(va.args[0], data) and isinstance(va.args[1], tuple) and len(va.args[1]) == 3 \
            and same_value(va.args[1][:2], (full, full)):
        last = va.args[1][2]
        if isinstance(last, tuple) and len(last) == 4 and last[0] == "slice":
            good = last[3] is None and same_value(last[1], Rat.const(0)) and (last[2] is None or any(same_value(last[2], c_) for c_ in cnt_forms))
        elif isinstance(last, Rat):
            la = last.single_atom()
            # data[:, :, arange(m)] with m the number of kept cells: columns 0 .. m-1 in order
            good = isinstance(la, Fn) and la.name == "arange" and len(la.args) == 3 and same_value(la.args[0], Rat.const(0)) and \
                same_value(la.args[2], Rat.const(1)) and any(same_value(la.args[1], c_) for c_ in cnt_forms)
    rep.check(good, "M4.counter", k.fq + ": k-th active cell receives data[..., k]", "stored value is %s" % nf(val, 120), where)
    return True


def _same_block(fnode, a, b):
    for n in ast.walk(fnode):
        for fld in ("body", "orelse", "finalbody"):
            blk = getattr(n, fld, None)
            if isinstance(blk, list) and a in blk and b in blk:
                return True
    return False


def _active_guard(k, st_node, I, X, Y, mask):
    """True if the store is reached exactly when mask[X, Y] == 1; otherwise a text describing the guard found"""
    want = Rat.atom(Fn("getitem", (mask, (X, Y))))

    def truth_of(test, positive):
        """does `test` being `positive` mean mask[X, Y] == 1 ?"""
        if isinstance(test, ast.UnaryOp) and isinstance(test.op, ast.Not):
            return truth_of(test.operand, not positive)
        if not isinstance(test, ast.Compare) or len(test.ops) != 1:
            if isinstance(test, ast.Subscript):
                return _is_mask_at(test) and positive
            return False
        l, r = test.left, test.comparators[0]
        if isinstance(r, ast.Subscript) and not isinstance(l, ast.Subscript):
            l, r = r, l
        if isinstance(r, ast.Name):
            # a module-level named constant (`_VALID_SUBAP = 1`)
            from ..common import get_index as _gi
            b_ = _gi(None).namespace(k.module.name).get(r.id) if r.id not in (k.params + k.kwonly) else None
            if b_ is not None and b_.kind == "value" and isinstance(b_.target, ast.Constant):
                r = b_.target
        if not (_is_mask_at(l) and isinstance(r, ast.Constant)):
            return False
        if isinstance(test.ops[0], ast.Eq) and r.value == 1:
            return positive
        if isinstance(test.ops[0], ast.NotEq) and r.value == 1:
            return not positive
        if isinstance(test.ops[0], ast.NotEq) and r.value == 0:
            return positive
        return False

    def _is_mask_at(sub):
        if not (isinstance(sub, ast.Subscript) and norm_text(sub.value) == k.params[1]):
            return False
        # the subscript's coordinates, as evaluated at the store: compare normal forms through the store's own index text
        tgt = st_node.targets[0]
        t_idx = [norm_text(e) for e in (tgt.slice.elts if isinstance(tgt.slice, ast.Tuple) else [tgt.slice])][-2:]
        s_idx = [norm_text(e) for e in (sub.slice.elts if isinstance(sub.slice, ast.Tuple) else [sub.slice])]
        return s_idx == t_idx

    # enclosing ifs, and `if <not active>: continue` guards earlier in the same block
    chain = _parents(k.node, st_node)
    found = False
    for parent, fld, blk in chain:
        if isinstance(parent, ast.If):
            pos = fld == "body"
            if truth_of(parent.test, pos):
                found = True
            else:
                return "under `if %s` (%s branch)" % (norm_text(parent.test), "true" if pos else "false")
        if isinstance(blk, list) and st_node in blk or any(st_node in ast.walk(x) for x in (blk or [])):
            pass
    # guards by `continue` in the store's own block
    own = next((blk for parent, fld, blk in chain if isinstance(blk, list) and st_node in blk), None)
    if own is not None:
        for st in own[:own.index(st_node)]:
            if isinstance(st, ast.If) and not st.orelse and len(st.body) == 1 and isinstance(st.body[0], ast.Continue):
                if truth_of(st.test, False):
                    found = True
                else:
                    return "after `if %s: continue`" % norm_text(st.test)
    return True if found else "unconditionally"


def _parents(root, node):
    """[(parent, field name, block list)] from the outermost to the innermost statement containing node"""
    out = []

    def rec(n, acc):
        for fld in ("body", "orelse", "finalbody"):
            blk = getattr(n, fld, None)
            if isinstance(blk, list):
                for st in blk:
                    if st is node:
                        out.extend(acc + [(n, fld, blk)])
                        return True
                    if rec(st, acc + [(n, fld, blk)]):
                        return True
        return False
    rec(root, [])
    return out
