"""C20.P3 - batch clause for the trailing-axes functions.

"Functions that accept stacks or leading batch axes return, per item, what the single-item call returns."

The repository has two batch idioms.  Functions that dispatch on the number of dimensions (the centroiders)
are decided by C15 (H2).  The others operate on the *trailing* axes of an array of any rank: every axis they
name is negative, every index they take starts with an Ellipsis and every length they read is
``shape[-k]``.  For such a function "per item = single item" holds iff nothing that reaches the result
depends on the leading axes.  That is a structural statement about the body:

  P3.trailing-axes   for every value derived from a batch parameter (flow-insensitive taint; shape/len/size/
                     ndim/dtype reads are scalars and do not propagate it) and every construct on the backward
                     slice of the return value:
        (a) shape reads are shape[-k] (a constant k >= 0, len(), .size count leading axes -> violation)
        (b) every axis/axes given to a numpy routine or array method is a negative constant, or the
            function's own `axis` parameter whose default is negative
        (c) a routine whose default is "all axes" (sum, mean, fftshift, ...) is never applied without an axis
        (d) subscripts start with an Ellipsis (x[0], x[:k], x[i, j] index the batch axes of a stack)

The table of batch functions is frozen from reading the docstrings ("shape (..., nFrames, nCentroids)",
">1D arrays are supported", axes=(-1,-2)); a vanished entry is an analysis error, a new function that looks
like a trailing-axes function is reported in a note (candidate, not armed).
"""
import ast

from ..index import norm_text
from ..report import AnalysisError

# (module, function) -> batch parameters        [reason]
BATCH = {
    ("aotools.fouriertransform", "ft"): ["data"],        # axes=(-1)
    ("aotools.fouriertransform", "ift"): ["data"],
    ("aotools.fouriertransform", "ft2"): ["data"],       # axes=(-1,-2)
    ("aotools.fouriertransform", "ift2"): ["data"],
    ("aotools.fouriertransform", "rft"): ["data"],
    ("aotools.fouriertransform", "irft"): ["data"],
    ("aotools.fouriertransform", "rft2"): ["data"],
    ("aotools.fouriertransform", "irft2"): ["data"],
    ("aotools.turbulence.temporal_ps", "calc_slope_temporalps"): ["slope_data"],   # "(..., nFrames, nCentroids)"
    ("aotools.turbulence.atmos_conversions", "coherenceTime"): ["cn2", "v"],        # ">1D arrays are supported"
    ("aotools.turbulence.atmos_conversions", "isoplanaticAngle"): ["cn2", "h"],
    ("aotools.turbulence.atmos_conversions", "rytov_variance"): ["cn2", "h"],
}

META_ATTRS = ("shape", "size", "ndim", "dtype", "itemsize", "nbytes")

# routine -> (index of positional axis argument counted after the array, default)
#   default 'last' : operates on the trailing axis/axes when no axis is given (batch safe)
#   default 'all'  : operates on every axis when no axis is given (mixes the items of a stack)
REDUCERS = ("sum", "mean", "std", "var", "max", "min", "prod", "argmax", "argmin", "ptp", "any", "all",
            "nansum", "nanmean", "nanstd", "nanvar", "nanmax", "nanmin", "median", "nanmedian", "average",
            "amax", "amin", "cumsum", "cumprod", "count_nonzero")
AXIS_FUNCS = {}
for _r in REDUCERS:
    AXIS_FUNCS[_r] = (0, "all")
for _r in ("fft", "ifft", "rfft", "irfft", "hfft", "ihfft"):
    AXIS_FUNCS[_r] = (1, "last")          # (a, n, axis)
for _r in ("fft2", "ifft2", "rfft2", "irfft2"):
    AXIS_FUNCS[_r] = (1, "last")          # (a, s, axes)
for _r in ("fftn", "ifftn", "rfftn", "irfftn"):
    AXIS_FUNCS[_r] = (1, "all")
for _r in ("fftshift", "ifftshift", "flip"):
    AXIS_FUNCS[_r] = (0, "all")
AXIS_FUNCS.update({"roll": (1, "all"), "sort": (0, "last"), "argsort": (0, "last"), "diff": (1, "last"),
                   "gradient": (None, "all"), "trapz": (2, "last"), "squeeze": (0, "all"),
                   "flatten": (None, "all"), "ravel": (None, "all"), "dot": (None, "last"),
                   "transpose": (None, "all"), "fliplr": (None, "front"), "flipud": (None, "front"),
                   "rot90": (None, "front")})


def _neg_const(node):
    """True: all-negative constant axis; False: some non-negative constant; None: not constant."""
    if isinstance(node, ast.UnaryOp) and isinstance(node.op, ast.USub) and isinstance(node.operand, ast.Constant) \
            and isinstance(node.operand.value, int):
        return node.operand.value > 0
    if isinstance(node, ast.Constant):
        if node.value is None:
            return None
        if isinstance(node.value, int):
            return False
        return None
    if isinstance(node, (ast.Tuple, ast.List)):
        rs = [_neg_const(e) for e in node.elts]
        if any(r is None for r in rs):
            return None
        return all(rs)
    return None


class _Fn:
    def __init__(self, f, params):
        self.f = f
        self.taint = set(params)
        self.assigns = []       # (targets names, value node, stmt)
        self.returns = []
        for n in ast.walk(f.node):
            if isinstance(n, ast.Assign):
                self.assigns.append((self._names(n.targets), n.value, n))
            elif isinstance(n, ast.AugAssign):
                self.assigns.append((self._names([n.target]), n.value, n))
            elif isinstance(n, ast.AnnAssign) and n.value is not None:
                self.assigns.append((self._names([n.target]), n.value, n))
            elif isinstance(n, ast.Return) and n.value is not None:
                self.returns.append(n)
        changed = True
        while changed:
            changed = False
            for names, val, _ in self.assigns:
                if self.tainted(val) and not names <= self.taint:
                    self.taint |= names
                    changed = True
        # backward slice of the return value (names)
        self.live = set()
        for r in self.returns:
            self.live |= self._loads(r.value)
        changed = True
        while changed:
            changed = False
            for names, val, _ in self.assigns:
                if names & self.live:
                    new = self._loads(val) - self.live
                    if new:
                        self.live |= new
                        changed = True

    @staticmethod
    def _names(targets):
        out = set()
        for t in targets:
            for n in ast.walk(t):
                if isinstance(n, ast.Name):
                    out.add(n.id)
        return out

    @staticmethod
    def _loads(node):
        return set(n.id for n in ast.walk(node) if isinstance(n, ast.Name))

    def tainted(self, node):
        """does the expression denote (or contain) a value carrying the batch axes?"""
        if isinstance(node, ast.Name):
            return node.id in self.taint
        if isinstance(node, ast.Attribute) and node.attr in META_ATTRS:
            return False
        if isinstance(node, ast.Call) and isinstance(node.func, ast.Name) and node.func.id == "len":
            return False
        return any(self.tainted(c) for c in ast.iter_child_nodes(node))

    def slice_nodes(self):
        """expression roots on the backward slice of the result"""
        for r in self.returns:
            yield r.value, r
        for names, val, st in self.assigns:
            if names & self.live:
                yield val, st


def check(rep, ix):
    n_constructs = 0
    armed = set()
    for (mod, name), params in sorted(BATCH.items()):
        m = ix.modules.get(mod)
        f = m.funcs.get(name) if m else None
        if f is None:
            raise AnalysisError("C20.P3: batch function %s:%s vanished (table in sa/props/c20_batch.py)" % (mod, name))
        missing = [p for p in params if p not in f.params + f.kwonly]
        if missing:
            raise AnalysisError("C20.P3: %s has no parameter %s" % (f.fq, missing))
        armed.add(f.fq)
        fn = _Fn(f, params)
        axis_params = {}
        for p in f.params + f.kwonly:
            if p in ("axis", "axes"):
                axis_params[p] = f.defaults.get(p)
        bad = 0
        count = 0
        seen = set()
        for root, st in fn.slice_nodes():
            for n in ast.walk(root):
                if id(n) in seen:
                    continue
                seen.add(id(n))
                r = _construct(fn, n, axis_params)
                if r is None:
                    continue
                count += 1
                kind, msg = r
                key = "%s: %s" % (f.fq, norm_text(n)[:90])
                if kind == "ok":
                    continue
                bad += 1
                if kind == "bad":
                    rep.violation("P3.trailing-axes", key, msg + ": a stack would not give, per item, what the single-item call gives",
                                  f.where(n), {"function": f.fq, "batch_params": params, "statement": norm_text(st)[:160]})
                else:
                    rep.unknown("P3.trailing-axes", key, msg, f.where(n))
        n_constructs += count
        if count == 0:
            rep.unknown("P3.trailing-axes", f.fq, "no axis-bearing construct found on the result slice of a batch function", f.where())
        elif not bad:
            rep.ok("P3.trailing-axes", f.fq, "%d axis-bearing constructs on the result slice, all address trailing axes only" % count)
    # candidates not in the table (information only)
    cands = []
    for f in ix.public_functions():
        if f.fq in armed:
            continue
        for n in ast.walk(f.node):
            if isinstance(n, ast.keyword) and n.arg in ("axis", "axes") and _neg_const(n.value) is True:
                cands.append(f.fq)
                break
    rep.note("P3: other public functions naming a negative axis (not documented as batch functions, not armed): %s" % sorted(set(cands)))
    rep.extra["batch_functions"] = sorted(armed)
    rep.extra["batch_constructs"] = n_constructs
    return n_constructs


def _axis_verdict(node, axis_params):
    r = _neg_const(node)
    if r is True:
        return "ok", ""
    if r is False:
        return "bad", "axis %s counts from the front" % norm_text(node)
    if isinstance(node, ast.Name) and node.id in axis_params:
        d = axis_params[node.id]
        if d is not None and _neg_const(d) is True:
            return "ok", ""
        return "bad", "the default of parameter `%s` is not a trailing (negative) axis" % node.id
    return "unknown", "axis expression %s is not a constant" % norm_text(node)


def _construct(fn, n, axis_params):
    """classify one AST node; None if it is not an axis-bearing construct on a batch value"""
    # (a) shape reads
    if isinstance(n, ast.Subscript) and isinstance(n.value, ast.Attribute) and n.value.attr == "shape" and fn.tainted(n.value.value):
        s = n.slice
        if isinstance(s, ast.Slice):
            lo = s.lower
            if lo is not None and _neg_const(lo) is True and s.upper is None:
                return "ok", ""
            return "bad", "shape slice %s includes leading axes" % norm_text(n)
        r = _neg_const(s)
        if r is True:
            return "ok", ""
        if r is False:
            return "bad", "%s is a leading (batch) axis length for a stack" % norm_text(n)
        return "unknown", "shape index %s is not a constant" % norm_text(s)
    if isinstance(n, ast.Attribute) and n.attr == "size" and fn.tainted(n.value):
        return "bad", "%s counts the elements of the whole stack" % norm_text(n)
    if isinstance(n, ast.Call) and isinstance(n.func, ast.Name) and n.func.id == "len" and n.args and fn.tainted(n.args[0]):
        return "bad", "%s is the length of the first (batch) axis of a stack" % norm_text(n)
    # (b)/(c) axis-taking routines
    if isinstance(n, ast.Call) and isinstance(n.func, ast.Attribute) and n.func.attr in AXIS_FUNCS:
        pos, dflt = AXIS_FUNCS[n.func.attr]
        recv = n.func.value
        is_method = fn.tainted(recv) and not _is_module_chain(recv)
        if is_method:
            arr_args = n.args
        else:
            if not n.args or not fn.tainted(n.args[0]):
                return None
            arr_args = n.args[1:]
        ax = None
        for k in n.keywords:
            if k.arg in ("axis", "axes"):
                ax = k.value
        if ax is None and pos is not None and len(arr_args) > pos:
            ax = arr_args[pos]
        if ax is None or (isinstance(ax, ast.Constant) and ax.value is None):
            if dflt == "last":
                return "ok", ""
            return "bad", "%s(...) without an axis acts on %s axes" % (n.func.attr, "the leading" if dflt == "front" else "all")
        return _axis_verdict(ax, axis_params)
    # (d) subscripts of batch values
    if isinstance(n, ast.Subscript) and fn.tainted(n.value) and not (isinstance(n.value, ast.Attribute) and n.value.attr in META_ATTRS):
        s = n.slice
        elts = s.elts if isinstance(s, ast.Tuple) else [s]
        if elts and isinstance(elts[0], ast.Constant) and elts[0].value is Ellipsis:
            return "ok", ""
        return "bad", "subscript %s indexes from the first axis" % norm_text(n)
    return None


def _is_module_chain(node):
    """numpy.fft / numpy / scipy.fft receivers: a dotted chain of plain names that is not a batch value"""
    while isinstance(node, ast.Attribute):
        node = node.value
    return isinstance(node, ast.Name) and node.id in ("numpy", "np", "scipy", "fft")
