"""C20.P3 - batch clause for the trailing-axes functions.

"Functions that accept stacks or leading batch axes return, per item, what the single-item call returns."

The repository has two batch idioms.  Functions that dispatch on the number of dimensions (the centroiders)
are decided by C15 (H2).  The others operate on the *trailing* axes of an array of any rank: every axis they
name is negative, every index they take starts with an Ellipsis and every length they read is
``shape[-k]``.  For such a function "per item = single item" holds iff nothing that reaches the result
depends on the leading axes.  That is a structural statement about the body:

  P3.trailing-axes   for every value derived from a batch parameter (flow-insensitive taint; shape/len/size/
                     ndim/dtype reads are scalars and do not propagate it) and every construct on the backward
                     slice of the return value:
        (a) shape reads are shape[-k] (a constant k >= 0, len(), .size count leading axes -> violation)
        (b) every axis/axes given to a numpy routine or array method is a negative constant, or the
            function's own `axis` parameter whose default is negative
        (c) a routine whose default is "all axes" (sum, mean, fftshift, ...) is never applied without an axis
        (d) subscripts start with an Ellipsis (x[0], x[:k], x[i, j] index the batch axes of a stack)

The table of batch functions is frozen from reading the docstrings ("shape (..., nFrames, nCentroids)",
">1D arrays are supported", axes=(-1,-2)); a vanished entry is an analysis error, a new function that looks
like a trailing-axes function is reported in a note (candidate, not armed).
"""
import ast

from ..index import norm_text
from ..report import AnalysisError

# (module, function) -> batch parameters        [reason]
BATCH = {
    ("aotools.fouriertransform", "ft"): ["data"],        # axes=(-1)
    ("aotools.fouriertransform", "ift"): ["data"],
    ("aotools.fouriertransform", "ft2"): ["data"],       # axes=(-1,-2)
    ("aotools.fouriertransform", "ift2"): ["data"],
    ("aotools.fouriertransform", "rft"): ["data"],
    ("aotools.fouriertransform", "irft"): ["data"],
    ("aotools.fouriertransform", "rft2"): ["data"],
    ("aotools.fouriertransform", "irft2"): ["data"],
    ("aotools.turbulence.temporal_ps", "calc_slope_temporalps"): ["slope_data"],   # "(..., nFrames, nCentroids)"
    ("aotools.turbulence.atmos_conversions", "coherenceTime"): ["cn2", "v"],        # ">1D arrays are supported"
    ("aotools.turbulence.atmos_conversions", "isoplanaticAngle"): ["cn2", "h"],
    ("aotools.turbulence.atmos_conversions", "rytov_variance"): ["cn2", "h"],
}

META_ATTRS = ("shape", "size", "ndim", "dtype", "itemsize", "nbytes")

# routine -> (index of positional axis argument counted after the array, default)
#   default 'last' : operates on the trailing axis/axes when no axis is given (batch safe)
#   default 'all'  : operates on every axis when no axis is given (mixes the items of a stack)
REDUCERS = ("sum", "mean", "std", "var", "max", "min", "prod", "argmax", "argmin", "ptp", "any", "all",
            "nansum", "nanmean", "nanstd", "nanvar", "nanmax", "nanmin", "median", "nanmedian", "average",
            "amax", "amin", "cumsum", "cumprod", "count_nonzero")
AXIS_FUNCS = {}
for _r in REDUCERS:
    AXIS_FUNCS[_r] = (0, "all")
for _r in ("fft", "ifft", "rfft", "irfft", "hfft", "ihfft"):
    AXIS_FUNCS[_r] = (1, "last")          # (a, n, axis)
for _r in ("fft2", "ifft2", "rfft2", "irfft2"):
    AXIS_FUNCS[_r] = (1, "last")          # (a, s, axes)
for _r in ("fftn", "ifftn", "rfftn", "irfftn"):
    AXIS_FUNCS[_r] = (1, "all")
for _r in ("fftshift", "ifftshift", "flip"):
    AXIS_FUNCS[_r] = (0, "all")
AXIS_FUNCS.update({"roll": (1, "all"), "sort": (0, "last"), "argsort": (0, "last"), "diff": (1, "last"),
                   "gradient": (None, "all"), "trapz": (2, "last"), "squeeze": (0, "all"),
                   "flatten": (None, "all"), "ravel": (None, "all"), "dot": (None, "last"),
                   "transpose": (None, "all"), "fliplr": (None, "front"), "flipud": (None, "front"),
                   "rot90": (None, "front")})


def _neg_const(node):
    """True: all-negative constant axis; False: some non-negative constant; None: not constant."""
    if isinstance(node, ast.UnaryOp) and isinstance(node.op, ast.USub) and isinstance(node.operand, ast.Constant) \
            and isinstance(node.operand.value, int):
        return node.operand.value > 0
    if isinstance(node, ast.Constant):
        if node.value is None:
            return None
        if isinstance(node.value, int):
            return False
        return None
    if isinstance(node, (ast.Tuple, ast.List)):
        rs = [_neg_const(e) for e in node.elts]
        if any(r is None for r in rs):
            return None
        return all(rs)
    return None


class _Fn:
    """one function under the rule: taint of the batch values, backward slice of the result, name resolution"""

    def __init__(self, ix, f, params, bindings=None, kw_forward=(), root_axis_params=None):
        self.ix = ix
        self.f = f
        self.taint = set(params)
        self.bindings = dict(bindings or {})       # parameter -> AST node of the argument at the (inlined) call site
        self.kw_forward = list(kw_forward)          # explicit keywords that reach this function through **kwargs
        self.root_axis_params = root_axis_params if root_axis_params is not None else {}
        self.assigns = []       # (targets names, value node, stmt)
        self.returns = []
        for n in ast.walk(f.node):
            if isinstance(n, ast.Assign):
                self.assigns.append((self._names(n.targets), n.value, n))
            elif isinstance(n, ast.AugAssign):
                self.assigns.append((self._names([n.target]), n.value, n))
            elif isinstance(n, ast.AnnAssign) and n.value is not None:
                self.assigns.append((self._names([n.target]), n.value, n))
            elif isinstance(n, ast.Return) and n.value is not None:
                self.returns.append(n)
        # a name bound only as the variable of one loop / comprehension stands for each item of what is iterated
        self.iter_of = {}
        n_bind = {}
        for n in ast.walk(f.node):
            if isinstance(n, (ast.comprehension, ast.For)) and isinstance(n.target, ast.Name):
                self.iter_of[n.target.id] = n.iter
                n_bind[n.target.id] = n_bind.get(n.target.id, 0) + 1
        for name_ in list(self.iter_of):
            if n_bind[name_] != 1 or any(name_ in names for names, _, _ in self.assigns) or name_ in (f.params + f.kwonly):
                del self.iter_of[name_]
        self.single = {}
        for names, val, st in self.assigns:
            if isinstance(st, ast.Assign) and len(st.targets) == 1 and isinstance(st.targets[0], ast.Name):
                self.single.setdefault(st.targets[0].id, []).append(val)
        changed = True
        while changed:
            changed = False
            for names, val, _ in self.assigns:
                if self.tainted(val) and not names <= self.taint:
                    self.taint |= names
                    changed = True
        self.live = set()
        for r in self.returns:
            self.live |= self._loads(r.value)
        changed = True
        while changed:
            changed = False
            for names, val, _ in self.assigns:
                if names & self.live:
                    new = self._loads(val) - self.live
                    if new:
                        self.live |= new
                        changed = True

    @staticmethod
    def _names(targets):
        out = set()
        for t in targets:
            for n in ast.walk(t):
                if isinstance(n, ast.Name):
                    out.add(n.id)
        return out

    @staticmethod
    def _loads(node):
        return set(n.id for n in ast.walk(node) if isinstance(n, ast.Name))

    def tainted(self, node):
        """does the expression denote (or contain) a value carrying the batch axes?"""
        if isinstance(node, ast.Name):
            return node.id in self.taint
        if isinstance(node, ast.Attribute) and node.attr in META_ATTRS:
            return False
        if isinstance(node, ast.Call) and isinstance(node.func, ast.Name) and node.func.id == "len":
            return False
        return any(self.tainted(c) for c in ast.iter_child_nodes(node))

    def slice_nodes(self):
        """expression roots on the backward slice of the result"""
        for r in self.returns:
            yield r.value, r
        for names, val, st in self.assigns:
            if names & self.live:
                yield val, st

    def resolve(self, node, depth=0):
        """follow a plain name to the constant / callable it is bound to: a local or module-level literal, or the
        argument of the inlined call; returns (node, 'axis-param' | None)"""
        if depth > 6 or not isinstance(node, ast.Name):
            return node, None
        if node.id in self.bindings:
            b = self.bindings[node.id]
            if isinstance(b, tuple):         # (node, resolver of the caller)
                return b[1].resolve(b[0], depth + 1)
            return b, None
        if node.id in self.root_axis_params and node.id in (self.f.params + self.f.kwonly):
            return node, "axis-param"
        if node.id in self.single and len(self.single[node.id]) == 1 and node.id not in self.taint:
            return self.resolve(self.single[node.id][0], depth + 1)
        if node.id in self.iter_of and node.id not in self.taint:
            it_, tag_ = self.resolve(self.iter_of[node.id], depth + 1)
            if isinstance(it_, (ast.Tuple, ast.List)) and tag_ is None:
                return it_, None            # every item of a literal sequence: judged like the sequence itself
        ns = self.ix.namespace(self.f.module.name)
        b = ns.get(node.id)
        if b is not None and b.kind == "value" and isinstance(b.target, ast.AST):
            return b.target, None
        return node, None


def scan(rep, ix, fn, root, depth=0):
    """check every axis-bearing construct on the result slice of fn (following repository helpers); returns the count"""
    f = fn.f
    count = 0
    seen = set()
    for rootnode, st in fn.slice_nodes():
        for n in ast.walk(rootnode):
            if id(n) in seen:
                continue
            seen.add(id(n))
            # a repository helper applied to a batch value: the helper is part of the function
            if isinstance(n, ast.Call) and depth < 4:
                callee, fnode = None, n.func
                if isinstance(fnode, ast.Name) and fnode.id in fn.bindings:
                    fnode, _ = fn.resolve(fnode)
                b = ix.resolve_expr(f.module, fnode, ix.local_names(f)) if isinstance(fnode, (ast.Name, ast.Attribute)) else None
                if b is not None and b.kind == "func":
                    callee = b.target
                if callee is not None and any(fn.tainted(a) for a in list(n.args) + [k.value for k in n.keywords]):
                    params = [p for p in callee.params if not (p == "self" and callee.cls is not None)]
                    t_params, bind, fwd = [], {}, []
                    for i_, a in enumerate(n.args):
                        if i_ < len(params):
                            if fn.tainted(a):
                                t_params.append(params[i_])
                            else:
                                bind[params[i_]] = (a, fn)
                    for k in n.keywords:
                        if k.arg is None:
                            fwd.extend(fn.kw_forward)
                        elif k.arg in params or k.arg in callee.kwonly:
                            if fn.tainted(k.value):
                                t_params.append(k.arg)
                            else:
                                bind[k.arg] = (k.value, fn)
                        else:
                            fwd.append(ast.keyword(arg=k.arg, value=_Resolved(k.value, fn)))
                    sub = _Fn(ix, callee, t_params, bind, fwd, fn.root_axis_params)
                    sub.root_fn = getattr(fn, "root_fn", fn)
                    count += scan(rep, ix, sub, root, depth + 1)
                    continue
            r = _construct(fn, n)
            if r is None:
                continue
            count += 1
            kind, msg = r
            key = "%s: %s" % (root.fq if f is root else "%s via %s" % (root.fq, f.fq), norm_text(n)[:90])
            if kind == "ok":
                continue
            fn.bad = getattr(fn, "bad", 0) + 1
            scan.bad[0] += 1
            if kind == "bad":
                rep.violation("P3.trailing-axes", key, msg + ": a stack would not give, per item, what the single-item call gives",
                              f.where(n), {"function": root.fq, "statement": norm_text(st)[:160]})
            else:
                rep.unknown("P3.trailing-axes", key, msg, f.where(n))
    return count


scan.bad = [0]


class _Resolved(ast.AST):
    """an argument expression together with the function context it has to be resolved in"""
    _fields = ()

    def __init__(self, node, fn):
        self.node = node
        self.fn = fn


def check(rep, ix):
    n_constructs = 0
    armed = set()
    for (mod, name), params in sorted(BATCH.items()):
        m = ix.modules.get(mod)
        f = m.funcs.get(name) if m else None
        if f is None:
            raise AnalysisError("C20.P3: batch function %s:%s vanished (table in sa/props/c20_batch.py)" % (mod, name))
        missing = [p for p in params if p not in f.params + f.kwonly]
        if missing:
            raise AnalysisError("C20.P3: %s has no parameter %s" % (f.fq, missing))
        armed.add(f.fq)
        axis_params = {}
        for p in f.params + f.kwonly:
            if p in ("axis", "axes"):
                axis_params[p] = f.defaults.get(p)
        fn = _Fn(ix, f, params, root_axis_params=axis_params)
        scan.bad[0] = 0
        count = scan(rep, ix, fn, f)
        n_constructs += count
        if count == 0:
            rep.unknown("P3.trailing-axes", f.fq, "no axis-bearing construct found on the result slice of a batch function", f.where())
        elif not scan.bad[0]:
            rep.ok("P3.trailing-axes", f.fq, "%d axis-bearing constructs on the result slice (helpers included), all address trailing axes only" % count)
    # candidates not in the table (information only)
    cands = []
    for f in ix.public_functions():
        if f.fq in armed:
            continue
        for n in ast.walk(f.node):
            if isinstance(n, ast.keyword) and n.arg in ("axis", "axes") and _neg_const(n.value) is True:
                cands.append(f.fq)
                break
    rep.note("P3: other public functions naming a negative axis (not documented as batch functions, not armed): %s" % sorted(set(cands)))
    rep.extra["batch_functions"] = sorted(armed)
    rep.extra["batch_constructs"] = n_constructs
    return n_constructs


def _axis_verdict(fn, node):
    if isinstance(node, _Resolved):
        return _axis_verdict(node.fn, node.node)
    node, tag = fn.resolve(node)
    if isinstance(node, _Resolved):
        return _axis_verdict(node.fn, node.node)
    if tag == "axis-param":
        d = fn.root_axis_params.get(node.id)
        if d is not None and _neg_const(d) is True:
            return "ok", ""
        return "bad", "the default of parameter `%s` is not a trailing (negative) axis" % node.id
    r = _neg_const(node)
    if r is True:
        return "ok", ""
    if r is False:
        return "bad", "axis %s counts from the front" % norm_text(node)
    return "unknown", "axis expression %s is not a constant" % norm_text(node)


def _construct(fn, n):
    """classify one AST node; None if it is not an axis-bearing construct on a batch value"""
    # (a) shape reads
    if isinstance(n, ast.Subscript) and isinstance(n.value, ast.Attribute) and n.value.attr == "shape" and fn.tainted(n.value.value):
        s = n.slice
        if isinstance(s, ast.Slice):
            lo = s.lower
            if lo is not None and _neg_const(lo) is True and s.upper is None:
                return "ok", ""
            return "bad", "shape slice %s includes leading axes" % norm_text(n)
        s2, _ = fn.resolve(s)
        r = _neg_const(s2)
        if r is True:
            return "ok", ""
        if r is False:
            return "bad", "%s is a leading (batch) axis length for a stack" % norm_text(n)
        return "unknown", "shape index %s is not a constant" % norm_text(s)
    if isinstance(n, ast.Attribute) and n.attr == "size" and fn.tainted(n.value):
        return "bad", "%s counts the elements of the whole stack" % norm_text(n)
    if isinstance(n, ast.Call) and isinstance(n.func, ast.Name) and n.func.id == "len" and n.args and fn.tainted(n.args[0]):
        return "bad", "%s is the length of the first (batch) axis of a stack" % norm_text(n)
    # (b)/(c) axis-taking routines (the callee may be a function-valued parameter bound at the inlined call site)
    if isinstance(n, ast.Call):
        func = n.func
        if isinstance(func, ast.Name) and func.id in fn.bindings:
            func, _ = fn.resolve(func)
        if isinstance(func, ast.Attribute) and func.attr in AXIS_FUNCS:
            pos, dflt = AXIS_FUNCS[func.attr]
            recv = func.value
            is_method = fn.tainted(recv) and not _is_module_chain(recv)
            if is_method:
                arr_args = n.args
            else:
                if n.args and fn.tainted(n.args[0]):
                    arr_args = n.args[1:]
                elif not n.args and any(k.arg in ("a", "x", "arr", "array", "m") and fn.tainted(k.value) for k in n.keywords):
                    arr_args = []           # the array handed by keyword (numpy.fft.rfft(a=..., axis=-1))
                else:
                    return None
            ax = None
            kws = []
            for k in n.keywords:
                if k.arg is None:
                    kws.extend(fn.kw_forward)
                else:
                    kws.append(k)
            for k in kws:
                if k.arg in ("axis", "axes"):
                    ax = k.value
            if ax is None and pos is not None and len(arr_args) > pos:
                ax = arr_args[pos]
            if isinstance(ax, ast.AST) and not isinstance(ax, _Resolved):
                ax_r, _t = fn.resolve(ax)
            else:
                ax_r = ax
            if ax is None or (isinstance(ax_r, ast.Constant) and ax_r.value is None):
                if dflt == "last":
                    return "ok", ""
                return "bad", "%s(...) without an axis acts on %s axes" % (func.attr, "the leading" if dflt == "front" else "all")
            return _axis_verdict(fn, ax)
    # (d) subscripts of batch values
    if isinstance(n, ast.Subscript) and fn.tainted(n.value) and not (isinstance(n.value, ast.Attribute) and n.value.attr in META_ATTRS):
        s = n.slice
        elts = s.elts if isinstance(s, ast.Tuple) else [s]
        if elts and isinstance(elts[0], ast.Constant) and elts[0].value is Ellipsis:
            return "ok", ""
        if elts and isinstance(elts[0], ast.Name) and elts[0].id == "Ellipsis" and "Ellipsis" not in fn.ix.local_names(fn.f) \
                and fn.ix.namespace(fn.f.module.name).get("Ellipsis") is None:
            return "ok", ""         # the builtin name, i.e. the same index as `...`
        return "bad", "subscript %s indexes from the first axis" % norm_text(n)
    return None


# ------------------------------------------------------------------------------------------------ rank-dispatching functions
# (module, function) -> (batch parameter, rank of a single item)          [docstrings: "2d or greater rank array of imgs"]
DISPATCH = {
    ("aotools.image_processing.centroiders", "centre_of_gravity"): ("img", 2),
    ("aotools.image_processing.centroiders", "brightest_pixel"): ("img", 2),
    ("aotools.image_processing.centroiders", "correlation_centroid"): ("im", 2),
    ("aotools.interpolation", "binImgs"): ("data", 2),
}
FULL_REDUCERS = ("sum", "mean", "std", "var", "max", "min", "prod", "ptp", "median", "argmax", "argmin", "amax", "amin",
                 "nansum", "nanmean", "nanmax", "nanmin", "average")


ALL_AXES_MOVERS = ("fftshift", "ifftshift", "flip", "roll", "flipud", "rot90")


def _dispatch_constructs(ix, f, param, r_single, depth=0):
    """(bad nodes, helper calls) of one function that may be handed a stack through `param`: all-axes reductions and all-axes
    element moves of the (possibly stacked) value outside a branch that has established a single item"""
    fn = _Fn(ix, f, [param])
    bad = []

    def rank_test(test):
        """(asserts single-item rank?, asserts another rank?) for `len(p.shape) == k` / `p.ndim == k`"""
        if isinstance(test, ast.Compare) and len(test.ops) == 1 and isinstance(test.ops[0], (ast.Eq, ast.NotEq)):
            l, r_ = test.left, test.comparators[0]
            if isinstance(l, ast.Constant):
                l, r_ = r_, l
            if isinstance(l, ast.Name) and l.id in fn.single and len(fn.single[l.id]) == 1:
                l = fn.single[l.id][0]          # n_dims = p.ndim; if n_dims == 2: ...
            txt = norm_text(l).replace(" ", "")
            is_rank = txt in ("len(%s.shape)" % param, "%s.ndim" % param, "numpy.ndim(%s)" % param) or \
                any(txt in ("len(%s.shape)" % t, "%s.ndim" % t) for t in fn.taint)
            if is_rank and isinstance(r_, ast.Constant) and isinstance(r_.value, int):
                eq = isinstance(test.ops[0], ast.Eq)
                return (eq and r_.value == r_single), (eq and r_.value != r_single)
        return False, False

    def single_branch(test, _d=0):
        """'body' / 'orelse' / None: the branch of `if test:` that is taken exactly for a single item - the rank test may be
        written `p.ndim == k`, `p.ndim != k`, `not ...`, or through a name bound once to such a test (`single = p.ndim == 2`)"""
        if _d > 4:
            return None
        if isinstance(test, ast.UnaryOp) and isinstance(test.op, ast.Not):
            w = single_branch(test.operand, _d + 1)
            return {"body": "orelse", "orelse": "body"}.get(w)
        if isinstance(test, ast.Name) and test.id in fn.single and len(fn.single[test.id]) == 1 and test.id not in fn.taint:
            return single_branch(fn.single[test.id][0], _d + 1)
        if isinstance(test, ast.Compare) and len(test.ops) == 1 and isinstance(test.ops[0], ast.NotEq):
            s1, _o = rank_test(ast.Compare(left=test.left, ops=[ast.Eq()], comparators=test.comparators))
            return "orelse" if s1 else None
        s1, _o = rank_test(test)
        return "body" if s1 else None

    def expr_constructs(expr, single):
        if single:
            return
        clip_bounds = set()
        for c in ast.walk(expr):
            if isinstance(c, ast.Call) and isinstance(c.func, ast.Attribute) and c.func.attr == "clip":
                args = c.args if not _is_module_chain(c.func.value) else c.args[1:]
                if len(args) >= 2:
                    for x in ast.walk(args[1]):
                        clip_bounds.add(id(x))
                for k_ in c.keywords:
                    if k_.arg in ("max", "a_max"):
                        for x in ast.walk(k_.value):
                            clip_bounds.add(id(x))
        for c in ast.walk(expr):
            if not (isinstance(c, ast.Call) and isinstance(c.func, ast.Attribute) and c.func.attr in FULL_REDUCERS + ALL_AXES_MOVERS):
                continue
            if id(c) in clip_bounds and c.func.attr in ("max", "amax"):
                continue
            recv = c.func.value
            if _is_module_chain(recv):
                arr = c.args[0] if c.args else None
                rest = c.args[1:]
            else:
                arr, rest = recv, c.args
            if arr is None or not fn.tainted(arr):
                continue
            # one item selected from the stack: p[k] / p[k, ...]
            if isinstance(arr, ast.Subscript) and not isinstance(arr.slice, (ast.Slice, ast.Tuple)):
                continue
            if c.func.attr in ALL_AXES_MOVERS:
                n_pos = {"roll": 1}.get(c.func.attr, 0)        # roll(a, shift, axis): the shift is not an axis
                has_axis = len(rest) > n_pos or any(k.arg in ("axis", "axes") and not (isinstance(k.value, ast.Constant) and k.value.value is None)
                                                    for k in c.keywords)
            else:
                has_axis = bool(rest) or any(k.arg in ("axis", "axes") and not (isinstance(k.value, ast.Constant) and k.value.value is None)
                                             for k in c.keywords)
            if not has_axis:
                bad.append((f, c))

    # names that hold the whole stack (or something computed from all of it): the parameter, and every name assigned from
    # an expression that uses such a name other than through a one-item selection x[k]
    whole = {param}

    def uses_whole(expr):
        items = set()
        for c in ast.walk(expr):
            if isinstance(c, ast.Subscript) and isinstance(c.value, ast.Name) and c.value.id in whole and \
                    not isinstance(c.slice, (ast.Slice, ast.Tuple)):
                items.add(id(c.value))
        return any(isinstance(c, ast.Name) and c.id in whole and id(c) not in items for c in ast.walk(expr))
    changed = True
    while changed:
        changed = False
        for st_ in ast.walk(f.node):
            if isinstance(st_, ast.Assign) and uses_whole(st_.value):
                for t_ in st_.targets:
                    for nm_ in ([t_] if isinstance(t_, ast.Name) else [e_ for e_ in ast.walk(t_) if isinstance(t_, (ast.Tuple, ast.List)) and isinstance(e_, ast.Name)]):
                        if nm_.id not in whole:
                            whole.add(nm_.id)
                            changed = True
    helper_calls = []

    def helper_constructs(expr, single):
        """a repository helper handed the whole stack on a stack path is part of the function"""
        if single or depth >= 3:
            return
        for c in ast.walk(expr):
            if not isinstance(c, ast.Call) or not isinstance(c.func, (ast.Name, ast.Attribute)):
                continue
            b = ix.resolve_expr(f.module, c.func, ix.local_names(f))
            if b is None or b.kind != "func" or (b.target.module.name, b.target.name) in DISPATCH or b.target.fq == f.fq:
                continue
            callee = b.target
            params_ = [p_ for p_ in callee.params if not (p_ == "self" and callee.cls is not None)]
            t_params = [params_[i_] for i_, a_ in enumerate(c.args) if i_ < len(params_) and uses_whole(a_)]
            t_params += [k_.arg for k_ in c.keywords if k_.arg in params_ and uses_whole(k_.value)]
            for tp in t_params:
                helper_calls.append((callee, tp))

    def block(stmts, single):
        for st in stmts:
            for c_ in ([st.test] if isinstance(st, (ast.If, ast.While)) else [x_ for x_ in ast.iter_child_nodes(st) if isinstance(x_, ast.expr)]):
                helper_constructs(c_, single)
            if isinstance(st, ast.If):
                expr_constructs(st.test, single)
                which = single_branch(st.test)
                block(st.body, single or which == "body")
                block(st.orelse, single or which == "orelse")
            elif isinstance(st, (ast.For, ast.While)):
                block(st.body, single)
                block(st.orelse, single)
            elif isinstance(st, (ast.With,)):
                block(st.body, single)
            elif isinstance(st, ast.Try):
                block(st.body, single)
                for h in st.handlers:
                    block(h.body, single)
            else:
                for c in ast.iter_child_nodes(st):
                    if isinstance(c, ast.expr):
                        expr_constructs(c, single)
    block(f.node.body, False)
    for callee, tp in helper_calls:
        b2, _ = _dispatch_constructs(ix, callee, tp, r_single, depth + 1)
        bad.extend(b2)
    return bad, helper_calls


def check_dispatch(rep, ix):
    """P3.per-item-reductions: in a function that accepts one item or a stack of items, a reduction (or an element move:
    fftshift, flip, roll) of the (possibly stacked) argument over *all* axes mixes the items of a stack; it is allowed only
    where the code has established that the argument is a single item (inside `if p.ndim == r` / `len(p.shape) == r`), on
    one item selected from the stack (p[k]), or as the never-binding upper bound of clip(x, lo, x.max()).  Repository
    helpers that are handed the whole stack on a stack path are analysed the same way (they are part of the function)."""
    n = 0
    for (mod, name), (param, r_single) in sorted(DISPATCH.items()):
        m = ix.modules.get(mod)
        f = m.funcs.get(name) if m else None
        if f is None:
            raise AnalysisError("C20.P3: stack-accepting function %s:%s vanished (table in sa/props/c20_batch.py)" % (mod, name))
        if param not in f.params:
            raise AnalysisError("C20.P3: %s has no parameter %s" % (f.fq, param))
        bad, helpers = _dispatch_constructs(ix, f, param, r_single)
        n += 1
        seen = set()
        for g, c in bad:
            if id(c) in seen:
                continue
            seen.add(id(c))
            via = "" if g is f else " (in %s, which is handed the whole stack)" % g.name
            rep.violation("P3.per-item-reductions", "%s: %s%s" % (f.fq, norm_text(c)[:70], via),
                          "`%s` acts on the argument over all axes outside a single-item branch%s: for a stack of items it mixes (or moves "
                          "elements between) the items, so item k of the result is not what the single-item call returns"
                          % (norm_text(c)[:70], via), g.where(c))
        if not bad:
            rep.ok("P3.per-item-reductions", f.fq, "no all-axes reduction or element move of the stacked argument outside a single-item branch"
                   + (" (helpers handed the stack: %s)" % sorted(set(h.name for h, t in helpers)) if helpers else ""))
    return n


def _is_module_chain(node):
    """numpy.fft / numpy / scipy.fft receivers: a dotted chain of plain names that is not a batch value"""
    while isinstance(node, ast.Attribute):
        node = node.value
    return isinstance(node, ast.Name) and node.id in ("numpy", "np", "scipy", "fft")
