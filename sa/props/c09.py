"""C09 - scaled Fourier transforms: inverse pairs, Parseval scaling, centring,
real variants, and what `aotools.<name>` really binds to.

Decided on the wrappers' normal forms (shift / transform / shift * scale) by the
SHIFT algebra - for every array length and batch shape at once."""
from fractions import Fraction as Fr

from ..common import get_index, nf
from ..fftalg import parse_wrapper, INVERSE_SHIFT, Wrapper
from ..interp import Interp, has_unknown
from ..plf import Rat, Sym, Fn, find_atoms
from ..report import AnalysisError

LEVEL = "other"
MOD = "aotools.fouriertransform"
PAIRS = [("ft", "ift", 1, False), ("ft2", "ift2", 2, False), ("rft", "irft", 1, True), ("rft2", "irft2", 2, True)]


def analyse(ix, I, name):
    f = ix.func(MOD, name)
    params = f.params
    if len(params) < 2:
        raise AnalysisError("%s: expected (data, spacing) parameters" % f.fq)
    data = Rat.sym(params[0], ("array", "field"))
    sp = Rat.sym(params[1])
    vals = [v for _, v in I.returns(f, [data, sp])]
    if len(vals) != 1:
        return f, data, sp, "function has %d return paths" % len(vals)
    dsym = Sym(params[0])
    meta = ("size", "len", "ndim", "shape", "dtype")
    nsym = lambda ax: ("shape(%s)[%d]" % (params[0], ax),)
    w = parse_wrapper(vals[0], lambda a: dsym in Rat.atom(a).atoms() and not (isinstance(a, Fn) and a.name in meta), nsym)
    return f, data, sp, w if not isinstance(w, Wrapper) else (w, vals[0])


def run(rep, tier, root=None):
    ix = get_index(root)
    I = Interp(ix, square=False)
    rep.trusted_base += ["numpy.fft documentation: fft unnormalised, ifft 1/N per axis, (i)fftshift definitions",
                         "SHIFT facts: ifftshift o fftshift = id on every length; fftshift o fftshift = id only on even lengths"]
    rep.assumptions += ["2-D transforms are used on square (N x N) trailing axes, as the wrappers' own scale (N*delta_f)**2 assumes",
                        "accuracy of the DFT as a quadrature of the continuous transform is not decided"]
    rep.explanation = ("Each wrapper is reduced to S_out(T(S_in(x))) * scale; inverse-pair, Parseval and centring clauses "
                       "become identities on shifts (group algebra of fftshift/ifftshift), axes sets and scale monomials, "
                       "valid for every N (odd/even) and batch shape; exports are resolved by replaying the package's "
                       "star-imports in order.")
    rep.rule_text = "R1 inverse shifts, R2 axes, R3 scale product, R4 canonical centring, R5 real variants, R6 exports; one obligation per (rule, function or pair)"
    m = ix.module(MOD)
    rep.files_analysed.update([m.relpath, ix.module("aotools").relpath, ix.module("aotools.turbulence").relpath,
                               ix.module("aotools.turbulence.phasescreen").relpath])
    W = {}
    for fwd, inv, dim, real in PAIRS:
        for name in (fwd, inv):
            f, data, sp, res = analyse(ix, I, name)
            rep.functions_analysed.add(f.fq)
            if isinstance(res, str):
                rep.unknown("R0.wrapper-form", f.fq, res, f.where())
                continue
            w, val = res
            if has_unknown(val):
                rep.unknown("R0.wrapper-form", f.fq, "unrecognised construct in %s" % nf(val, 200), f.where())
                continue
            if w.inner.single_atom() != Sym(f.params[0]):
                st_ = w.inner.single_term() if isinstance(w.inner, Rat) and w.inner.den_is_one() else None
                dsym_ = Sym(f.params[0])
                carriers = [(a_, e_) for a_, e_ in (st_[1] if st_ is not None else ()) if Rat.atom(a_).depends_on(dsym_)]
                if st_ is not None and len(carriers) == 1 and carriers[0][1] == 1 and \
                        (carriers[0][0] == dsym_ or (isinstance(carriers[0][0], Fn) and carriers[0][0].name in ("fftshift", "ifftshift", "roll"))):
                    pre = Rat({tuple(x for x in st_[1] if x[0] != carriers[0][0]): st_[0]})
                    rep.violation("R3.scale-after-transform", "%s: input multiplied by %s before the transform" % (f.fq, nf(pre, 40)),
                                  "the input array is multiplied by %s before it is transformed: the product is formed in the input's own "
                                  "dtype, so an integer image with an integer spacing wraps around (uint8 * 2, int8 * 3, ...) and the "
                                  "transform pair / Parseval scale no longer hold for such inputs; the scale belongs on the complex result"
                                  % nf(pre, 60), f.where())
                else:
                    rep.unknown("R0.wrapper-form", f.fq, "data is transformed before the shift: %s" % nf(w.inner, 120), f.where())
                continue
            W[name] = (f, w, sp)
            rep.ok("R0.wrapper-form", f.fq, w.describe())
            rep.sample({"function": f.fq, "form": w.describe()})

    for fwd, inv, dim, real in PAIRS:
        want_axes = {-1} if dim == 1 else {-1, -2}
        for name in (fwd, inv):
            if name not in W:
                continue
            f, w, sp = W[name]
            is_inv = name == inv
            # ---- transform kind and axes
            expect_T = {("ft"): "fft", "ift": "ifft", "ft2": "fft2", "ift2": "ifft2", "rft": "rfft", "irft": "irfft",
                        "rft2": "rfft2", "irft2": "irfft2"}[name]
            rep.check(w.T == expect_T, "R2.transform", "%s: numpy.fft.%s" % (f.fq, expect_T),
                      "wrapper calls %s where %s is required" % (w.T, expect_T), f.where())
            tax = w.T_axes
            if tax == "?" or tax is None:
                rep.unknown("R2.axes", f.fq, "transform axes are not literal", f.where())
                continue
            rep.check(set(tax) == want_axes, "R2.axes", "%s: transform axes" % f.fq,
                      "transform acts on axes %s, expected the last %d axis/axes %s (batch dimensions lead)"
                      % (tax, dim, sorted(want_axes)), f.where())
            halved = tax[-1] if real else None
            for label, sh in (("input", w.s_in), ("output", w.s_out)):
                if sh is None:
                    continue
                if sh[1] is None:
                    rep.violation("R2.axes", "%s: %s shift axes" % (f.fq, label),
                                  "%s %s has no axes= argument: it also permutes leading batch axes" % (label, sh[0]), f.where())
                elif sh[1] == "?":
                    rep.unknown("R2.axes", "%s: %s shift axes" % (f.fq, label), "axes not literal", f.where())
                else:
                    full = set(tax)
                    # along a half-spectrum axis no shift is meaningful (R5)
                    spectrum_side = (label == "output") != is_inv
                    allowed = full - ({halved} if (real and spectrum_side) else set())
                    if real and spectrum_side and halved in set(sh[1]):
                        rep.violation("R5.half-axis-shift", "%s: %s along half-spectrum axis %s" % (f.fq, sh[0], halved),
                                      "%s is applied along axis %s, which holds the non-negative half spectrum only; "
                                      "shifting it scrambles the frequency order" % (sh[0], halved), f.where())
                    else:
                        rep.check(set(sh[1]) == allowed, "R2.axes", "%s: %s shift axes" % (f.fq, label),
                                  "%s %s acts on axes %s but the transform acts on %s" % (label, sh[0], sh[1], sorted(allowed)),
                                  f.where())
            # ---- R4 canonical centring (origin at index N//2 for every N)
            if not real or not is_inv:
                want_in = "ifftshift"
                got_in = w.s_in[0] if w.s_in else None
                if not (real and is_inv):
                    rep.check(got_in == want_in, "R4.centring", "%s: pre-shift %s" % (f.fq, got_in),
                              "pre-transform shift is %s: the origin is taken at index (N+1)//2 instead of the centre sample "
                              "N//2 for odd N (ifftshift moves index N//2 to 0 on every length)" % got_in, f.where())
            if not real or is_inv:
                got_out = w.s_out[0] if w.s_out else None
                if not (real and not is_inv):
                    rep.check(got_out == "fftshift", "R4.centring", "%s: post-shift %s" % (f.fq, got_out),
                              "post-transform shift is %s: index 0 is not moved to the centre sample N//2 for odd N "
                              "(fftshift does on every length)" % got_out, f.where())
        if fwd not in W or inv not in W:
            continue
        ff, wf, spf = W[fwd]
        fi, wi, spi = W[inv]
        # ---- R1 inverse shifts
        if not real:
            for a, b, la, lb in ((wi.s_in, wf.s_out, "S_in(%s)" % inv, "S_out(%s)" % fwd),
                                 (wi.s_out, wf.s_in, "S_out(%s)" % inv, "S_in(%s)" % fwd)):
                na = a[0] if a else None
                nb = b[0] if b else None
                rep.check(na == INVERSE_SHIFT[nb], "R1.inverse-shifts", "%s:%s/%s: %s = inverse of %s" % (MOD, fwd, inv, la, lb),
                          "%s is %s but %s is %s: the pair is only inverse for even N" % (la, na, lb, nb), fi.where())
        # ---- R3 scale
        sized = [a for a in wi.scale.atoms() | wf.scale.atoms() if isinstance(a, Fn) and a.name in ("size", "len", "ndim")]
        if sized:
            rep.violation("R3.scale", "%s:%s/%s: scale uses %s" % (MOD, fwd, inv, sorted(a.name for a in sized)),
                          "the scale factor is built from %s of the whole array, which counts leading batch axes: a stack of B frames is "
                          "scaled differently from its frames (inverse pair and Parseval fail for batched input)"
                          % ", ".join(sorted(set(repr(a) for a in sized))), fi.where())
            continue
        nsyms = [a for a in wi.scale.atoms() if isinstance(a, Sym) and a.name.startswith("shape(")]
        delta, delta_f = Sym(ff.params[1]), Sym(fi.params[1])
        if len(nsyms) != 1:
            if has_unknown(wi.scale):
                rep.unknown("R3.scale", "%s:%s" % (MOD, inv), "scale not normalised: %s" % nf(wi.scale), fi.where())
            else:
                rep.violation("R3.scale", "%s:%s: N in scale" % (MOD, inv),
                              "inverse scale %s does not contain exactly one array length" % nf(wi.scale), fi.where())
            continue
        nsym = nsyms[0]
        k = int(nsym.name.split("[")[1].rstrip("]"))
        tax_i = wi.T_axes if wi.T_axes not in (None, "?") else ()
        if real:
            halved_i = tax_i[-1] if tax_i else None
            if k == halved_i:
                rep.violation("R5.scale-length", "%s:%s: N = data.shape[%d] of the half spectrum" % (MOD, inv, k),
                              "the scale uses the half-spectrum length N//2+1 where the signal length N is required", fi.where())
            else:
                rep.check(k in set(tax_i), "R3.scale", "%s:%s: N from a transformed axis" % (MOD, inv),
                          "N = data.shape[%d] is not a transformed axis" % k, fi.where())
        else:
            rep.check(k in set(tax_i), "R3.scale", "%s:%s: N = data.shape[%d] is a transformed axis" % (MOD, inv, k),
                      "N is read from axis %d, which is a batch axis for stacked input (transform axes %s)" % (k, tax_i),
                      fi.where())
        N = Rat.atom(nsym)
        prod = wf.scale * wi.scale
        prod = prod.subst(lambda a: (1 / (N * Rat.atom(delta))) if a == delta_f else None)
        ok = prod.equals(Rat.const(1))
        rep.check(ok, "R3.scale", "%s:%s*%s scale == 1 at delta_f = 1/(N delta)" % (MOD, fwd, inv),
                  "scale(%s)*scale(%s) = %s under delta_f = 1/(N*delta); inverse pair and Parseval need exactly 1"
                  % (fwd, inv, nf(prod)), fi.where(), note="scale_f=%s scale_i=%s" % (nf(wf.scale), nf(wi.scale)))
        # ---- R5 rest: output length stated, halved axis agreement
        if real:
            has_len = any(kk in wi.T_kw for kk in ("n", "s"))
            if not has_len:
                rep.violation("R5.output-length", "%s:%s: output length not stated" % (MOD, inv),
                              "irfft is called without n/s: the output length is always even 2*(m-1), so odd-length signals "
                              "cannot be recovered", fi.where())
            else:
                rep.ok("R5.output-length", "%s:%s" % (MOD, inv))
            hf = wf.T_axes[-1] if wf.T_axes not in (None, "?") else None
            hi = wi.T_axes[-1] if wi.T_axes not in (None, "?") else None
            if hf != hi:
                rep.violation("R5.halved-axis", "%s:%s halves axis %s, %s expands axis %s" % (MOD, fwd, hf, inv, hi),
                              "forward and inverse real transforms treat different axes as the half-spectrum axis", fi.where())
            else:
                rep.ok("R5.halved-axis", "%s:%s/%s" % (MOD, fwd, inv))

    # ---- R6 exports
    top = ix.namespace("aotools")
    pub = [f for f in m.funcs.values() if (m.all is None and not f.name.startswith("_")) or (m.all and f.name in m.all)]
    rep.floor("fouriertransform public functions", len(pub), 8)
    for f in pub:
        b = top.get(f.name)
        if b is None:
            rep.violation("R6.export", "aotools.%s missing" % f.name, "the Fourier module's %s is not exported by the package" % f.name, f.where())
        elif b.kind == "func" and b.target is f:
            rep.ok("R6.export", "aotools.%s -> %s" % (f.name, f.fq))
        else:
            tgt = b.target.fq if b.kind == "func" else repr(b.target)
            rep.violation("R6.export", "aotools.%s -> %s" % (f.name, tgt),
                          "aotools.%s is bound to %s, not to %s: a later star-import overwrites the exported transform "
                          "(different signature and scaling)" % (f.name, tgt, f.fq),
                          getattr(b.target, "where", lambda: "")() if b.kind == "func" else "")
    # no two different repo definitions compete for one public name in any package namespace
    collisions = 0
    for pk in sorted(mn for mn, mm in ix.modules.items() if mm.is_pkg):
        seen = _replay_collisions(ix, pk)
        for name, defs in sorted(seen.items()):
            if len(defs) > 1:
                collisions += 1
                rep.violation("R6.shadowing", "%s.%s defined by %s" % (pk, name, sorted(defs)),
                              "star-imports bind %s.%s to more than one definition; the last one wins silently" % (pk, name))
    if not collisions:
        rep.ok("R6.shadowing", "package namespaces", "no public name is bound to two different repo definitions")
    from ..common import purity_obligations
    purity_obligations(rep, ix, [f for f in pub], "R7.pure",
                       "a transform applied twice to the same array, or after another transform, would not see the same data")
    rep.floor("C09 wrappers analysed", len(W), 8)


def _replay_collisions(ix, pk):
    """name -> set of defining function fqs that were star-imported into pk under that name."""
    import ast
    mod = ix.modules[pk]
    seen = {}
    for st in mod.tree.body:
        if isinstance(st, ast.ImportFrom) and any(a.name == "*" for a in st.names):
            base = ix._abs_module(mod, st.level, st.module or "")
            if base not in ix.modules:
                continue
            src = ix.namespace(base)
            sm = ix.modules[base]
            names = sm.all if sm.all is not None else [n for n in src if not n.startswith("_")]
            for n in names:
                b = src.get(n)
                if b is not None and b.kind in ("func", "class"):
                    seen.setdefault(n, set()).add(b.target.fq)
    return seen
