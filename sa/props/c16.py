"""C16 - binning, zooming and radial reductions (clauses decidable from code shape).

B1  binImgs: sum over i < n of (sum over j < n of data[..., j::n])[..., i::n, :] -
    stride, start variable and range bound are all the same n on both axes, the
    2-D and N-D branches agree, the temporaries shrink axis -1 then axis -2 by n
B2  every library constructor on every path of zoom / zoom_rbs exists in the
    installed SciPy and its constructor is not an unconditional `raise`
B3  both zoom entry points: spline built on (arange(n0), arange(n1), data) with
    kx = ky = order and no smoothing; evaluated on linspace(0, n-1, new) per axis;
    complex input = f(real) + 1j*f(imag) with the same arguments
B4  azimuthal_average: value = sum(W*data)/sum(W) with W = circle(i+1) - circle(i)
    on the same grid (nested by C14.M1, so W >= 0): a convex combination; every
    element of the numpy.empty result is written
B5  encircled_energy: curve = [0, sum(P_i*data)...]/sum(data) with P_i indicators of
    growing radii; leading (0, 0) point; diameter = x at the bin nearest the fraction
Not decided: spline exactness on polynomials, monotonic interpolation.
"""
import ast
import importlib
import inspect
import textwrap

from fractions import Fraction as Fr

from ..common import get_index, nf, check_equal, same_value
from ..index import norm_text
from ..interp import Interp, has_unknown, unknown_atoms, RangeVal, ShapeOf
from ..plf import Rat, Sym, Fn, PowA, find_atoms
from ..report import AnalysisError
from .c19 import coverage

LEVEL = "other"
INT = "aotools.interpolation"
PSF = "aotools.image_processing.psf"

ORACLE = '''
import numpy


def block_sums(data, n):
    n = int(numpy.round(n))
    tmp = 0
    for i in range(n):
        tmp = tmp + data[..., i::n]
    out = 0
    for i in range(n):
        out = out + tmp[..., i::n, :]
    return out
'''


def ctor_status(dotted):
    """('ok'|'missing'|'raises', detail) for a library class / function, from the installed library's source."""
    parts = dotted.split(".")
    obj = None
    for k in range(len(parts), 0, -1):
        try:
            obj = importlib.import_module(".".join(parts[:k]))
            rest = parts[k:]
            break
        except Exception:
            continue
    if obj is None:
        return "missing", "module not importable"
    for a in rest:
        if not hasattr(obj, a):
            return "missing", "%s has no attribute %s" % (obj.__name__ if hasattr(obj, "__name__") else obj, a)
        obj = getattr(obj, a)
    target = obj.__init__ if inspect.isclass(obj) else obj
    try:
        src = textwrap.dedent(inspect.getsource(target))
        fn = ast.parse(src).body[0]
    except Exception:
        return "ok", "source not available (builtin / compiled)"
    body = list(fn.body)
    if body and isinstance(body[0], ast.Expr) and isinstance(body[0].value, ast.Constant) and isinstance(body[0].value.value, str):
        body = body[1:]
    if body and isinstance(body[0], ast.Raise):
        return "raises", "its constructor is an unconditional `%s`" % norm_text(body[0])[:90]
    return "ok", ""


def complex_test_kind(cond):
    """'ok' if the condition is true exactly for complex64/complex128 (or all complex dtypes), 'wrong' for known-bad idioms"""
    txt = nf(cond, 400)
    a = cond.single_atom() if isinstance(cond, Rat) else None
    if isinstance(a, Fn) and a.name == "boolop_Or":
        parts = [x.single_atom() for x in a.args if isinstance(x, Rat)]
        names = sorted(str(p.args[2]) for p in parts if isinstance(p, Fn) and p.name == "cmp" and p.args[0] == "==")
        names2 = sorted(str(p.args[1]) for p in parts if isinstance(p, Fn) and p.name == "cmp" and p.args[0] == "==")
        flat = " ".join(names + names2)
        if "complex64" in flat and "complex128" in flat:
            return "ok"
        return "wrong"
    if isinstance(a, Fn) and a.name == "iscomplexobj":
        return "ok"
    if isinstance(a, Fn) and a.name == "isrealobj":
        return "real-test"
    if isinstance(a, Fn) and a.name == "issubdtype":
        second = str(a.args[1])
        if "complexfloating" in second:
            return "ok"
        return "wrong"          # issubdtype(dtype, complex) / numpy.complex128 / numpy.complex64: one precision only
    if isinstance(a, Fn) and a.name == "cmp":
        return "wrong"          # dtype == <one complex type>
    return "?"


def dtype_truth(cond, d):
    """truth of one atomic branch condition about the array's dtype, for d in float64 / complex64 / complex128 (None: not understood)"""
    a = cond.single_atom() if isinstance(cond, Rat) else None
    cplx = d.startswith("complex")
    if not isinstance(a, Fn):
        return None
    if a.name == "iscomplexobj":
        return cplx
    if a.name == "isrealobj":
        return not cplx
    which = lambda x: ("complexfloating" if "complexfloating" in str(x) else "complex64" if ("complex64" in str(x) or "csingle" in str(x))
                       else "complex128" if any(t in str(x) for t in ("complex128", "cdouble", "complex_", "builtins.complex", "'complex'")) or
                       str(x).endswith(".complex") or str(x) == "complex" else "float" if "float" in str(x) else None)
    if a.name == "issubdtype" and len(a.args) >= 2:
        w = which(a.args[1])
        if w == "complexfloating":
            return cplx
        if w in ("complex64", "complex128"):
            return d == w
        if w == "float":
            return not cplx
        return None
    if a.name == "cmp" and a.args[0] in ("==", "!="):
        sides = [a.args[1], a.args[2]]
        ty = [x for x in sides if not (isinstance(x, Rat) and any(isinstance(t, Fn) and t.name == "dtype" for t in x.atoms()))]
        if len(ty) != 1:
            return None
        w = which(ty[0] if not isinstance(ty[0], Rat) else nf(ty[0], 200))
        if w in ("complex64", "complex128"):
            return (d == w) == (a.args[0] == "==")
        return None
    return None


def canon_lead(v, rank=None):
    """leading full slices written explicitly (2-D branch) == Ellipsis (N-D branch); on a path of
    known rank an index tuple naming every axis is the same as one with a leading Ellipsis"""
    def f(a):
        if isinstance(a, Fn) and a.name == "getitem" and isinstance(a.args[1], tuple) and a.args[1] and a.args[1][0] != "slice":
            idx = list(a.args[1])
            full = ("slice", Rat.const(0), None, None)
            k = 0
            while k < len(idx) and isinstance(idx[k], tuple) and len(idx[k]) == 4 and idx[k][0] == "slice" and \
                    same_value(idx[k][1], Rat.const(0)) and idx[k][2] is None and idx[k][3] is None:
                k += 1
            # trailing axes after the strided one stay; only a *leading* run of full slices is rank dependent
            if k and k < len(idx):
                idx = [Ellipsis] + idx[k:]
                return Rat.atom(Fn("getitem", (a.args[0].subst(f), tuple(idx))))
            if rank is not None and len(idx) == rank and Ellipsis not in idx:
                return Rat.atom(Fn("getitem", (a.args[0].subst(f), tuple([Ellipsis] + idx))))
        return None
    return v.subst(f)


def run(rep, tier, root=None):
    ix = get_index(root)
    om = ix.virtual("_oracle_c16", ORACLE)
    rep.trusted_base += ["installed SciPy/NumPy sources (constructor existence / unconditional raise)",
                         "C14.M1: circle(r) is the indicator of a closed disc, hence nested in r",
                         "RectBivariateSpline with s = 0 (default) interpolates its nodes"]
    rep.assumptions += ["image extents divisible by n (precondition stated by binImgs); square arrays for zoom"]
    rep.explanation = ("Normal forms of binImgs (two summarised accumulation loops), of both zoom entry points (per path) and of the "
                       "radial reductions are decomposed: strides/starts/bounds, spline constructor arguments and evaluation grids, "
                       "complex split, ring weights and their normalisation, allocation coverage; library constructors are "
                       "resolved in the installed SciPy and their source inspected for an unconditional raise.")
    rep.rule_text = "B1..B5, one obligation per (rule, function, path)"
    m = ix.module(INT)
    rep.files_analysed.update([m.relpath, ix.module(PSF).relpath])

    # ---------------------------------------------------------------- B1
    f = ix.func(INT, "binImgs")
    rep.functions_analysed.add(f.fq)
    data, n = Rat.sym("data", ("array",)), Rat.sym("n")
    I = Interp(ix)
    rets = I.returns(f, [data, n])
    want = Interp(ix).returns(ix.func(om.name, "block_sums"), [data, n])[0][1]
    if not rets:
        rep.unknown("B1.block-sums", f.fq, "no returning path", f.where())
    for conds, v in rets:
        tag = "%s[%s]" % (f.fq, "; ".join(conds))
        if v is None or has_unknown(v):
            rep.unknown("B1.block-sums", tag, "unrecognised constructs", f.where())
            continue
        rank = 2 if any(c.replace(" ", "") in ("len(data.shape)==2", "data.ndim==2", "numpy.ndim(data)==2", "2==data.ndim") for c in conds) else None
        check_equal(rep, "B1.block-sums", tag + " == sum_i (sum_j data[..., j::n])[..., i::n, :]", canon_lead(v, rank), canon_lead(want),
                    f.where(), what="binned image")
    divs = [(s[2], s[3], s[4]) for s in I.store_log if s[0] == f.fq and s[5] == "Div"]
    nn_ = Rat.atom(Fn("int", (Rat.atom(Fn("round", (n,))),)))
    for s_ in I.store_log:
        # the same update written out: shape[k] = shape[k] / n
        if s_[0] == f.fq and s_[5] == "=" and isinstance(s_[2], Rat) and s_[2].is_const() and isinstance(s_[3], Rat) and \
                s_[3].depends_on(Sym("n")) and not (s_[3] * nn_).depends_on(Sym("n")) and "shape" in str(s_[1]).lower():
            divs.append((s_[2], nn_, s_[4]))
    divs.sort(key=lambda t_: t_[2])
    axes = [int(complex(i.const_value()).real) for i, v, l in divs if isinstance(i, Rat) and i.is_const()]
    nn = Rat.atom(Fn("int", (Rat.atom(Fn("round", (n,))),)))
    rep.check(len(axes) >= 2 and axes == [-1, -2] * (len(axes) // 2) and all(same_value(v, nn) for i, v, l in divs), "B1.shapes",
              f.fq + ": temporaries shrink axis -1 then axis -2 by n (both branches)",
              "shape updates: %s" % [(nf(i), nf(v)) for i, v, l in divs], f.where())
    rep.sample({"function": f.fq, "normal_form": nf(rets[0][1], 300) if rets else ""})

    # ---------------------------------------------------------------- B2 / B3
    arr = Rat.sym("array", ("array", "complex"))
    for name in ("zoom", "zoom_rbs"):
        g = ix.func(INT, name)
        rep.functions_analysed.add(g.fq)
        # B2: library constructors reached
        ctors = set()
        from ..common import reachable_functions
        for g_ in reachable_functions(ix, [g]):          # the entry point and the repository helpers it calls
            for node in ast.walk(g_.node):
                if isinstance(node, ast.Call):
                    b = ix.resolve_call(g_, node)
                    if b is not None and b.kind == "ext" and b.target.startswith("scipy."):
                        ctors.add(b.target)
        if not ctors:
            rep.unknown("B2.callable", g.fq, "no SciPy constructor found", g.where())
        for d in sorted(ctors):
            stt, why = ctor_status(d)
            if stt == "ok":
                rep.ok("B2.callable", "%s: %s" % (g.fq, d), "exists in the installed library")
            else:
                rep.violation("B2.callable", "%s: %s" % (g.fq, d),
                              "%s cannot be used with the installed SciPy: %s - every call of %s raises" % (d, why, name), g.where())
        # B3
        I3 = Interp(ix)
        new = Rat.sym("newSize")
        order = Rat.const(3)
        rets = I3.returns(g, [arr, (Rat.sym("nx", ("int",)), Rat.sym("ny", ("int",))), Rat.sym("order", ("int",))])
        real_paths, cplx_paths = [], []
        full = I3.paths(g, [arr, (Rat.sym("nx", ("int",)), Rat.sym("ny", ("int",))), Rat.sym("order", ("int",))], split=True)
        # every branch decision about the dtype is evaluated for the three representative dtypes; the paths a complex dtype
        # can take must all be the complex form, the paths a real dtype takes the real form
        DT = ("float64", "complex64", "complex128")
        wrong, unknown_test = [], False
        seen_vals = {d_: [] for d_ in DT}
        for conds, cnf, v in full:
            if any(c.startswith("except") or c.startswith("callee: raised(") for c in conds):
                continue
            dt = [(val, t) for val, t in cnf if isinstance(val, Rat) and any(isinstance(a, Fn) and a.name in ("dtype", "iscomplexobj", "issubdtype", "isrealobj")
                                                                              for a in val.atoms())]
            for d_ in DT:
                ts = [dtype_truth(val, d_) for val, t in dt]
                if any(x is None for x in ts):
                    unknown_test = True
                    continue
                if all(x == t for x, (val, t) in zip(ts, dt)):
                    if not any(vk(v) == vk(u) for u in seen_vals[d_]):
                        seen_vals[d_].append(v)
        is_cplx_form = lambda v: isinstance(v, Rat) and any(isinstance(a, Fn) and a.name == "imag" for a in v.atoms())
        for d_ in ("complex64", "complex128"):
            for v in seen_vals[d_]:
                if not is_cplx_form(v):
                    wrong.append(d_)
                elif not any(vk(v) == vk(u) for u in cplx_paths):
                    cplx_paths.append(v)
        for v in seen_vals["float64"]:
            if not any(vk(v) == vk(u) for u in real_paths):
                real_paths.append(v)
        if wrong:
            rep.violation("B3.complex-detection", g.fq + ": the complex branch is taken for every complex dtype",
                          "the test that selects the complex branch does not hold for all complex dtypes (e.g. numpy.issubdtype(complex64, "
                          "complex) is False): %s data falls into the real branch and loses its imaginary part" % " and ".join(sorted(set(wrong))), g.where())
        elif unknown_test or not cplx_paths:
            rep.unknown("B3.complex-detection", g.fq, "unrecognised complex-dtype test", g.where())
        else:
            rep.ok("B3.complex-detection", g.fq + ": complex64 and complex128 both take the complex branch")
        real_paths = [v for v in real_paths if not is_cplx_form(v)] or real_paths
        if len(real_paths) != 1 or len(cplx_paths) != 1:
            rep.unknown("B3.zoom-form", g.fq, "expected one real and one complex path (%d/%d)" % (len(real_paths), len(cplx_paths)), g.where())
            continue
        vr, vc = real_paths[0], cplx_paths[0]
        a = vr.single_atom() if isinstance(vr, Rat) else None
        if not (isinstance(a, Fn) and a.name == "callobj" and len(a.args) == 3):
            rep.unknown("B3.zoom-form", g.fq, "real path is not spline(coords, coords): %s" % nf(vr, 160), g.where())
            continue
        sp = a.args[0].single_atom() if isinstance(a.args[0], Rat) else None
        if not (isinstance(sp, Fn) and sp.name.startswith("spline:")):
            rep.unknown("B3.zoom-form", g.fq, "interpolator is not a known spline constructor", g.where())
            continue
        n0 = Rat.sym("shape(array)[0]", ("int", "size"))
        n1 = Rat.sym("shape(array)[1]", ("int", "size"))
        ar = lambda k: Rat.atom(Fn("arange", (Rat.const(0), k, Rat.const(1))))
        pos = [x for x in sp.args if not (isinstance(x, tuple) and len(x) == 2 and isinstance(x[0], str) and x[0].startswith("kw:"))]
        kws = {x[0][3:]: x[1] for x in sp.args if isinstance(x, tuple) and len(x) == 2 and isinstance(x[0], str) and x[0].startswith("kw:")}
        rep.check(len(pos) == 3 and same_value(pos[0], ar(n0)) and same_value(pos[1], ar(n1)) and same_value(pos[2], arr),
                  "B3.spline-nodes", g.fq + ": spline nodes are the pixel indices arange(n0), arange(n1)",
                  "spline is built on %s" % [nf(x, 60) for x in pos], g.where())
        if sp.name == "spline:RectBivariateSpline":
            od = Rat.sym("order", ("int",))
            rep.check(same_value(kws.get("kx"), od) and same_value(kws.get("ky"), od) and
                      (("s" not in kws) or same_value(kws["s"], Rat.const(0))) and set(kws) <= {"kx", "ky", "s"},
                      "B3.spline-order", g.fq + ": kx = ky = order, interpolating (s = 0)",
                      "spline keywords are %s" % {k: nf(v) if isinstance(v, Rat) else v for k, v in kws.items()}, g.where())
        ls = lambda k, num: Rat.atom(Fn("linspace", (Rat.const(0), k - 1, num, True)))
        nx, ny = Rat.sym("nx", ("int",)), Rat.sym("ny", ("int",))
        c1, c2 = a.args[1], a.args[2]
        # in this order: the spline's first argument runs along axis 0 (rows, new count nx = newSize[0]), the second along
        # axis 1 - swapped, a non-square target comes back with its two sizes exchanged
        okc = vk(c1) == vk(ls(n0, nx)) and vk(c2) == vk(ls(n1, ny))
        swapped = vk(c1) == vk(ls(n1, ny)) and vk(c2) == vk(ls(n0, nx))
        rep.check(okc, "B3.zoom-grid", g.fq + ": evaluated on linspace(0, n-1, new) per axis, rows first",
                  ("the spline is evaluated at (column coordinates, row coordinates): the result has shape (newSize[1], newSize[0]) - for a "
                   "non-square target the zoomed array is not of the requested size" if swapped else
                   "evaluation coordinates are %s, %s" % (nf(c1, 80), nf(c2, 80))), g.where())
        # an integer target size is accepted by both entry points (newSize[0] of an int raises TypeError, not IndexError)
        tries = [t_ for t_ in ast.walk(g.node) if isinstance(t_, ast.Try)]
        caught = set()
        for t_ in tries:
            for h_ in t_.handlers:
                for x_ in ([h_.type] if h_.type is not None and not isinstance(h_.type, ast.Tuple) else (h_.type.elts if h_.type is not None else [])):
                    caught.add(norm_text(x_).split(".")[-1])
                if h_.type is None:
                    caught.add("TypeError")
        if tries:
            rep.check("TypeError" in caught or "Exception" in caught, "B3.integer-size", g.fq + ": a plain integer newSize is accepted",
                      "newSize[0] on an integer raises TypeError, which the size unpacking does not catch (it catches %s): %s(a, 6) raises"
                      % (sorted(caught), name), g.where())
        # complex = f(real) + 1j f(imag) with the same arguments
        re_ = vr.subst(lambda x: Rat.atom(Fn("real", (arr,))) if x == Sym("array") else None)
        im_ = vr.subst(lambda x: Rat.atom(Fn("imag", (arr,))) if x == Sym("array") else None)
        check_equal(rep, "B3.complex-split", g.fq + ": complex == f(real) + 1j*f(imag) with the real path's arguments", vc,
                    re_ + im_ * Rat.const(1j), g.where(), what="complex zoom")

    # ---------------------------------------------------------------- B4
    h = ix.func(PSF, "azimuthal_average")
    rep.functions_analysed.add(h.fq)
    I4 = Interp(ix)
    r4 = I4.returns(h, [data])
    st = [s for s in I4.store_log if s[0] == h.fq and s[1] != "C"]
    lp = [l for l in I4.loop_log if l[0] == h.fq]
    if len(r4) != 1 or len(st) != 1 or len(lp) != 1:
        rep.unknown("B4.ring-average", h.fq, "expected one loop with one store", h.where())
    else:
        val, idx = st[0][3], st[0][2]
        lv, rng = lp[0][2], lp[0][3]
        # the ring number is the slot the average is stored in; the loop's own variable is the one the slot is affine in
        lsyms = sorted(set(x for x in (idx.atoms() if isinstance(idx, Rat) else ()) if isinstance(x, Sym) and "loopvar" in x.flags), key=lambda x: x.name)
        ok = ring_average(rep, h, val, idx if isinstance(idx, Rat) else lv, data)
        alloc = [c for c in I4.call_log if c[0] == h.fq and c[1].split(".")[-1] in ("empty", "zeros")]
        if len(alloc) == 1 and alloc[0][2] and isinstance(alloc[0][2][0], Rat) and len(lsyms) == 1 and isinstance(rng, RangeVal):
            okc, why = coverage(idx, lsyms[0], rng, alloc[0][2][0])
            if okc is None:
                rep.unknown("B4.allocation-coverage", h.fq, why, h.where())
            else:
                rep.check(okc, "B4.allocation-coverage", h.fq + ": every element of the result written", why, h.where(), note=why)
        else:
            rep.unknown("B4.allocation-coverage", h.fq, "allocation not found", h.where())

    # ---------------------------------------------------------------- B5
    k = ix.func(PSF, "encircled_energy")
    rep.functions_analysed.add(k.fq)
    I5 = Interp(ix)
    r5 = I5.returns(k, [data, Rat.sym("fraction"), (Rat.sym("xc"), Rat.sym("yc")), Rat.sym("eeDiameter")])
    curve = [v for c, v in r5 if isinstance(v, tuple) and len(v) == 2]
    diam = [v for c, v in r5 if isinstance(v, Rat)]
    if len(curve) != 1 or len(diam) != 1:
        rep.unknown("B5.curve", k.fq, "expected a (x, ee) path and a diameter path", k.where())
    else:
        xi, yi = curve[0]
        ia = yi.single_atom() if isinstance(yi, Rat) else None
        if not (isinstance(ia, Fn) and ia.name == "interp" and len(ia.args) == 3 and same_value(ia.args[0], xi)):
            rep.unknown("B5.curve", k.fq, "curve is not numpy.interp(xi, radii, energies)", k.where())
        else:
            xs, ys = ia.args[1], ia.args[2]
            total = Rat.atom(Fn("sum", (data, None)))
            yn = ys * total if isinstance(ys, Rat) else None
            ca = yn.single_atom() if isinstance(yn, Rat) else None
            lead_ok = isinstance(ca, Fn) and ca.name == "concat" and isinstance(ca.args[0], tuple) and len(ca.args[0]) == 2 and \
                isinstance(ca.args[0][0], Rat) and ca.args[0][0].is_zero()
            rep.check(lead_ok, "B5.starts-at-zero-normalised", k.fq + ": ee = [0, e_1..e_n] / sum(data)",
                      "energy samples are %s: not a leading 0 followed by the ring sums, divided once by sum(data)" % nf(ys, 200), k.where())
            xa = xs.single_atom() if isinstance(xs, Rat) else None
            rep.check(isinstance(xa, Fn) and xa.name == "concat" and isinstance(xa.args[0], tuple) and isinstance(xa.args[0][0], Rat)
                      and xa.args[0][0].is_zero(), "B5.starts-at-zero-normalised", k.fq + ": radii start with 0",
                      "radius samples are %s" % nf(xs, 120), k.where())
            if lead_ok:
                e = ca.args[0][1]
                ea = e.single_atom() if isinstance(e, Rat) else None
                body = ea.args[0].single_atom() if isinstance(ea, Fn) and ea.name == "loopstore" else None
                good = False
                if isinstance(body, Fn) and body.name == "setitem":
                    val = body.args[2]
                    sa = val.single_atom() if isinstance(val, Rat) else None
                    if isinstance(sa, Fn) and sa.name == "sum" and sa.args[1] is None:
                        w = sa.args[0] / data
                        wa = w.single_atom() if isinstance(w, Rat) else None
                        good = is_indicator(wa) and not w.depends_on(Sym("data"))
                        if good:
                            # growing radii: rad_entry = linspace(0, X, npt)^e with e > 0
                            c = wa.args[1].single_atom()
                            r2 = c.args[2]
                            grow = False
                            for a in find_atoms(r2, lambda q: isinstance(q, PowA) or (isinstance(q, Fn) and q.name == "linspace")):
                                if isinstance(a, Fn) and a.name == "linspace" and same_value(a.args[0], Rat.const(0)):
                                    grow = True
                            degs = [e_ for a_, e_ in (r2.single_term() or (1, ()))[1]]
                            rep.check(grow and all(d > 0 for d in degs), "B5.nested-apertures", k.fq + ": aperture radii grow with the index",
                                      "squared radius of aperture i is %s" % nf(r2, 160), k.where())
                rep.check(good, "B5.aperture-sums", k.fq + ": e_i = sum(indicator_i * data)",
                          "energy sample is %s" % nf(e, 200), k.where())
            # coverage of ee
            st5 = [s for s in I5.store_log if s[0] == k.fq and s[1] == "ee"]
            lp5 = [l for l in I5.loop_log if l[0] == k.fq]
            if len(st5) >= 1 and lp5:
                npt = None
                for a in find_atoms(xs, lambda q: isinstance(q, Fn) and q.name == "linspace"):
                    npt = a.args[2]
                lv5, rg5 = lp5[0][2], lp5[0][3]
                if isinstance(lv5, tuple) and isinstance(rg5, tuple) and rg5 and rg5[0] == "enumerate":
                    # for i, r in enumerate(radii): i runs over range(len(radii))
                    lins = find_atoms(rg5[1], lambda q: isinstance(q, Fn) and q.name == "linspace") if isinstance(rg5[1], (Rat, tuple)) else []
                    lv5 = lv5[0]
                    rg5 = RangeVal(Rat.const(0), lins[0].args[2], Rat.const(1)) if len(lins) == 1 else None
                if not isinstance(lv5, Rat) or not isinstance(rg5, RangeVal):
                    okc, why = None, "loop over the radii is neither a range nor an enumerate of them"
                else:
                    okc, why = coverage(st5[0][2], lv5.single_atom(), rg5, npt) if npt is not None else (None, "no linspace count")
                if okc is None:
                    rep.unknown("B5.allocation-coverage", k.fq, why, k.where())
                else:
                    rep.check(okc, "B5.allocation-coverage", k.fq + ": every element of ee written", why, k.where(), note=why)
            # B5.grid-covers-curve: the curve is resampled on xi = linspace(0, E, .); its abscissae are either the aperture radii
            # r_i or the diameters sqrt(4 A_i / pi) of the discs of equal area (A_i ~ pi r_i^2, so ~ 2 r_i).  The reported
            # diameter is read off the resampled curve, so the grid must reach the last abscissa: E = r_max, resp. 2 r_max
            import math as _m
            xia = xi.single_atom() if isinstance(xi, Rat) else None
            tabs = [a for a in find_atoms(xs, lambda q: isinstance(q, Fn) and q.name == "loopstore")]
            verdict = None
            if isinstance(xia, Fn) and xia.name == "linspace" and isinstance(xia.args[1], Rat) and len(tabs) == 1 and isinstance(tabs[0].args[0], Rat):
                sa_ = tabs[0].args[0].single_atom()
                if isinstance(sa_, Fn) and sa_.name == "setitem" and isinstance(sa_.args[2], Rat):
                    from ..plf import rpow as _rpow
                    val = sa_.args[2]

                    def last_of(table):
                        """last entry of c * linspace(0, b, n) ** e"""
                        tt = table.single_term() if isinstance(table, Rat) else None
                        if tt and len(tt[1]) == 1 and isinstance(tt[1][0][0], Fn) and tt[1][0][0].name == "linspace" and \
                                isinstance(tt[1][0][0].args[1], Rat) and same_value(tt[1][0][0].args[0], Rat.const(0)):
                            return Rat.const(tt[0]) * _rpow(tt[1][0][0].args[1], tt[1][0][1])
                        return None
                    vt = val.single_term()
                    factor = r_max = None
                    if vt and len(vt[1]) == 1 and isinstance(vt[1][0][0], Fn) and vt[1][0][0].name == "sum" and vt[1][0][1] == Fr(1, 2):
                        ind = vt[1][0][0].args[0].single_atom() if isinstance(vt[1][0][0].args[0], Rat) else None
                        if is_indicator(ind):
                            r2 = ind.args[1].single_atom().args[2]             # squared radius of aperture i
                            items = [q for q in find_atoms(r2, lambda q: isinstance(q, Fn) and q.name == "getitem" and isinstance(q.args[0], Rat))]
                            if len(items) == 1 and same_value(r2, Rat.atom(items[0]) ** 2):
                                r_max = last_of(items[0].args[0])
                                factor = complex(vt[0]).real * _m.sqrt(_m.pi)          # sqrt(c^2 * pi r^2) = c sqrt(pi) r
                    else:
                        va_ = val.single_atom()
                        if isinstance(va_, Fn) and va_.name == "getitem" and isinstance(va_.args[0], Rat):
                            r_max = last_of(va_.args[0])
                            factor = 1.0
                    if factor is not None and r_max is not None:
                        ratio = (xia.args[1] / r_max)
                        rc = ratio.real_const() if isinstance(ratio, Rat) else None
                        verdict = (rc is not None and rc >= factor * (1 - 1e-6), rc, factor)
            if verdict is None:
                rep.unknown("B5.grid-covers-curve", k.fq, "cannot relate the resampling grid to the abscissae of the curve", k.where())
            else:
                okg, rc, factor = verdict
                rep.check(okg, "B5.grid-covers-curve", k.fq + ": the resampling grid reaches the last abscissa of the curve"
                          + ("" if okg else " (grid ends at %s x r_max, abscissae at %.3g x r_max)" % ("%.3g" % rc if rc is not None else "?", factor)),
                          "the curve's abscissae run to %.4g x the largest aperture radius (%s), the grid it is resampled on stops at %s x that "
                          "radius: the upper part of the curve is discarded, and for every image whose requested fraction is reached only "
                          "there (diameter > size/2) the reported diameter is size/2, where the curve is below the fraction "
                          "(uniform 32 x 32, fraction 0.5: 16.0 returned, curve value 0.197, true diameter 25.5)"
                          % (factor, "equal-area diameters" if factor > 1.5 else "radii", "%.4g" % rc if rc is not None else "an unknown multiple of"),
                          k.where())
            # diameter path
            d = diam[0]
            want_d = Rat.atom(Fn("getitem", (xi, Rat.atom(Fn("argmin", (Rat.atom(Fn("abs", (yi - Rat.sym("fraction"),))), None))))))
            check_equal(rep, "B5.diameter", k.fq + ": diameter = xi[argmin |ee - fraction|]", d, want_d, k.where(), what="encircled-energy diameter")
    from ..common import purity_obligations
    purity_obligations(rep, ix, [f for f in ix.module(INT).funcs.values() if not f.name.startswith("_")] +
                       [f for f in ix.module(PSF).funcs.values() if not f.name.startswith("_")],
                       "B6.pure", "binning / zooming / reducing the same array again would give a different result")
    rep.floor("C16 obligations", len(rep.obligations), 20)


def vk(v):
    from ..plf import vkey
    return vkey(v)


def is_indicator(a):
    """setitem(0, cmp(..), 1)"""
    return isinstance(a, Fn) and a.name == "setitem" and isinstance(a.args[0], Rat) and a.args[0].is_zero() and \
        isinstance(a.args[1], Rat) and isinstance(a.args[1].single_atom(), Fn) and a.args[1].single_atom().name == "cmp" and \
        isinstance(a.args[2], Rat) and same_value(a.args[2], Rat.const(1))


def ring_average(rep, h, val, lv, data):
    """val == sum(W*data)/sum(W), W = C(r2) - C(r1), same quadratic form, r2^2 - r1^2 >= 0"""
    sums = [a for a in val.atoms(deep=False) if isinstance(a, Fn) and a.name == "sum"]
    st = val.single_term()
    if st is None or len(sums) != 2:
        rep.violation("B4.ring-average", h.fq + ": value = sum(W*data)/sum(W)",
                      "ring value is %s, not a ratio of two sums" % nf(val, 200), h.where())
        return False
    num = [a for a, e in st[1] if a in sums and e == 1]
    den = [a for a, e in st[1] if a in sums and e == -1]
    if len(num) != 1 or len(den) != 1 or abs(st[0] - 1) > 1e-12 or len(st[1]) != 2:
        rep.violation("B4.ring-average", h.fq + ": value = sum(W*data)/sum(W)",
                      "ring value is %s" % nf(val, 200), h.where())
        return False
    W = den[0].args[0]
    rep.check(same_value(num[0].args[0], W * data) and num[0].args[1] is None and den[0].args[1] is None, "B4.ring-average",
              h.fq + ": numerator and denominator use the same weights",
              "numerator sums %s, denominator sums %s" % (nf(num[0].args[0], 120), nf(W, 120)), h.where())
    ts = W.terms()
    ok = False
    if ts is not None and len(ts) == 2:
        (c1, m1), (c2, m2) = ts
        a1 = m1[0][0] if len(m1) == 1 else None
        a2 = m2[0][0] if len(m2) == 1 else None
        if is_indicator(a1) and is_indicator(a2) and abs(c1 + c2) < 1e-12 and abs(abs(c1) - 1) < 1e-12:
            pos, neg = (a1, a2) if complex(c1).real > 0 else (a2, a1)
            cp, cn = pos.args[1].single_atom(), neg.args[1].single_atom()
            same_q = cp.args[0] == cn.args[0] and same_value(cp.args[1], cn.args[1])
            diff = cp.args[2] - cn.args[2]
            # in terms of the ring number k >= 0 (the slot the average is stored in): k = loop variable + b
            ring = Sym("ring#", ("int",))
            lsy = [x for x in lv.atoms() if isinstance(x, Sym) and "loopvar" in x.flags] if isinstance(lv, Rat) else []
            if len(lsy) == 1 and (lv - Rat.atom(lsy[0])).is_const():
                b_ = lv - Rat.atom(lsy[0])
                diff = diff.subst(lambda a: (Rat.atom(ring) - b_) if a == lsy[0] else None)
            nonneg = diff.terms() is not None and all(complex(c).real >= 0 and abs(complex(c).imag) == 0 and
                                                       all(a == ring for a, e in mth) for c, mth in diff.terms())
            ok = same_q and nonneg
            rep.check(ok, "B4.nested-rings", h.fq + ": W = circle(r_outer) - circle(r_inner) on the same grid, r_outer >= r_inner",
                      "ring masks: same grid/centre %s; r_outer^2 - r_inner^2 = %s" % (same_q, nf(diff)), h.where())
            return ok
    rep.violation("B4.nested-rings", h.fq + ": W = circle(r_outer) - circle(r_inner)",
                  "weights %s are not a difference of two disc indicators" % nf(W, 200), h.where())
    return False
