"""C02 - tomographic reconstructor is the minimum-variance linear estimator.

S1  create_tomographic_covariance_reconstructor returns
        C[:k, k:] . pinv(C[k:, k:], rcond = svd_conditioning),   k = 2 * n_onaxis_subaps
    (accepted spellings: .dot / numpy.dot / @, rcond/rtol keyword or positional)
S2  the method wrapper passes its own covariance matrix, the first sensor's
    sub-aperture count and its conditioning argument
Lemma (trusted): for symmetric PSD M, R = B M^+ satisfies R M = B on range(M) (the
retained singular subspace) and minimises E|s_on - R s_off|^2; hence the formula
shape decides the normal-equation clause for all matrices and conditionings.
S3  duplicate-sensor clause, structural part only: the covariance builder whose output the wrapper inverts
    carries nothing from one sensor's loop iteration to the next (a duplicate of a sensor then gets the same
    projected geometry as the sensor, whatever is listed between them).  The values themselves are C01's subject.
Not decided: the duplicate-sensor clause beyond S3 (needs covariance values); rounding.
"""
from ..common import get_index, nf, check_equal, same_value
from ..interp import Interp, has_unknown, Obj
from ..plf import Rat, Sym, Fn
from ..report import AnalysisError

LEVEL = "other"
MOD = "aotools.turbulence.slopecovariance"

ORACLE = '''
import numpy


def min_variance(C, n_on, cond):
    k = 2 * n_on
    return numpy.dot(C[:k, k:], numpy.linalg.pinv(C[k:, k:], rcond=cond))
'''


def run(rep, tier, root=None):
    ix = get_index(root)
    om = ix.virtual("_oracle_c02", ORACLE)
    rep.trusted_base += ["pseudo-inverse lemma: B M^+ solves the normal equations R M = B on range(M) for symmetric PSD M "
                         "(numpy.linalg.pinv contract, rcond = relative singular-value cut)"]
    rep.assumptions += ["the covariance matrix is ordered with the on-axis sensor first (documented by the function)",
                        "the duplicate-sensor clause and floating rounding are not decided"]
    rep.explanation = ("The reconstructor's body is reduced to a normal form (slices with affine bounds, dot, pinv with its conditioning "
                       "argument) and compared with the minimum-variance formula; the method wrapper's arguments are read from its "
                       "normal form with self.* symbolic.")
    rep.rule_text = "S1 formula identity, S2 wrapper arguments"
    f = ix.func(MOD, "create_tomographic_covariance_reconstructor")
    rep.functions_analysed.add(f.fq)
    rep.files_analysed.add(f.module.relpath)
    C, n, c = Rat.sym("covariance_matrix", ("array", "symmetric")), Rat.sym("n_onaxis_subaps", ("int",)), Rat.sym("svd_conditioning")
    if f.params != ["covariance_matrix", "n_onaxis_subaps", "svd_conditioning"]:
        raise AnalysisError("%s: signature changed: %s" % (f.fq, f.params))
    I = Interp(ix)
    got = I.returns(f, [C, n, c])
    want = Interp(ix).returns(ix.func(om.name, "min_variance"), [C, n, c])[0][1]
    if len(got) != 1:
        rep.unknown("S1.normal-equations", f.fq, "expected one path, found %d" % len(got), f.where())
    else:
        check_equal(rep, "S1.normal-equations", f.fq + " == C[:2n, 2n:] . pinv(C[2n:, 2n:], rcond)", got[0][1], want, f.where(),
                    what="reconstructor")
        rep.sample({"function": f.fq, "normal_form": nf(got[0][1], 400)})
    # default conditioning is 0 (no singular value discarded): "with zero conditioning ... equality holds to rounding"
    d = f.defaults.get("svd_conditioning")
    rep.check(d is not None and getattr(d, "value", None) == 0, "S1.default-conditioning", f.fq + ": svd_conditioning defaults to 0",
              "default conditioning is %s" % (getattr(d, "value", None),), f.where())

    cls = ix.cls(MOD, "CovarianceMatrix")
    g = cls.find_method("make_tomographic_reconstructor")
    if g is None:
        raise AnalysisError("CovarianceMatrix.make_tomographic_reconstructor not found")
    rep.functions_analysed.add(g.fq)
    I2 = Interp(ix, opaque={f.fq})
    o = Obj(cls)
    cond = Rat.sym("svd_conditioning")
    r2 = I2.returns(g, [cond], self_obj=o)
    want2 = Rat.atom(Fn("call:" + f.fq, (Rat.sym("self.covariance_matrix", ("attr",)),
                                        Rat.atom(Fn("getitem", (Rat.sym("self.n_subaps", ("attr",)), Rat.const(0)))), cond)))
    if len(r2) != 1:
        stale = [(c_, v_) for c_, v_ in r2 if not same_value(v_, want2)]
        if stale and all(isinstance(v_, Rat) and not has_unknown(v_) for c_, v_ in stale):
            rep.violation("S2.wrapper", g.fq + ": every call recomputes the reconstructor from the current covariance matrix",
                          "on the path %s the method returns %s without recomputing it: after the covariance matrix has been rebuilt the "
                          "reconstructor of the earlier matrix is handed out" % (list(stale[0][0]), nf(stale[0][1], 100)), g.where())
        else:
            rep.unknown("S2.wrapper", g.fq, "expected one path", g.where())
    else:
        check_equal(rep, "S2.wrapper", g.fq + " == create_...(self.covariance_matrix, self.n_subaps[0], svd_conditioning)", r2[0][1],
                    want2, g.where(), what="wrapper call")
        stored = o.attrs.get("tomographic_reconstructor")
        rep.check(stored is not None and isinstance(stored, Rat) and stored == r2[0][1], "S2.wrapper",
                  g.fq + ": returned value is the stored reconstructor", "stored and returned reconstructors differ", g.where())
    # ---- S3 duplicate-sensor clause, structural part: the matrix the wrapper inverts treats two sensors with equal
    # (direction, mask, wavelength, altitude) identically only if nothing computed for one sensor is carried to the next
    from .c01 import no_carried_state
    top = cls.find_method("make_covariance_matrix")
    if top is None:
        raise AnalysisError("CovarianceMatrix.make_covariance_matrix not found")
    rep.functions_analysed.add(top.fq)
    no_carried_state(rep, ix, top, "S3.sensor-equivalence")
    # ... and only if the builder places the four slope-kind blocks of every sensor pair at the offsets of *that* pair
    # (x slopes then y slopes of each sensor): the partition C[:2n, 2n:] / C[2n:, 2n:] of the wrapper relies on it
    from .c01 import tile_only
    wc = ix.func(MOD, "wfs_covariance")
    for mname in ("_make_covariance_matrix", "_make_covariance_matrix_mp"):
        bm = cls.find_method(mname)
        if bm is None:
            raise AnalysisError("CovarianceMatrix.%s not found" % mname)
        rep.functions_analysed.add(bm.fq)
        tile_only(rep, ix, cls, bm, wc, "S3.block-layout")
    # ... and only if every sensor's sub-apertures are projected onto a layer by the same geometric rule from its own
    # (current) direction and altitude: a duplicated sensor then has the same projected geometry as its original, and its
    # covariance rows are the original's (C01's projection rules, on the builder the reconstructor's matrix comes from)
    from .c01 import projection_rules, float_positions_rule, ORACLE as C01_ORACLE
    from ..fx import FX
    projection_rules(rep, ix, FX(ix), cls, ix.virtual("_oracle_c01", C01_ORACLE))
    float_positions_rule(rep, top)
    rep.floor("C02 obligations", len(rep.obligations), 7)
