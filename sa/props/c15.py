"""C15 - centroiders (clauses decidable from code shape).

H1  every centroider is positively homogeneous of degree 0 in the image
    (unchanged when the image is multiplied by a positive constant), on every
    rank path, with or without threshold
H2  centre_of_gravity: the 2-D path and the N-D path apply the same threshold
    transform per frame (a stack gives the same answers as each frame alone)
H3  first moments: x uses the index grid of the last axis, y of the second-last,
    result order (x, y); un-thresholded value == sum(index*img)/sum(img)
H4  brightest_pixel: subtracts the n-th brightest pixel value (rank -n of the
    sorted frame, n = round(fraction*pixels)) per frame, clips at 0, then takes the
    un-thresholded centre of gravity - same transform on both rank paths
H5  cross_correlate == fftshift(|ifft2(fft2(x,s) conj(fft2(y,s)))|); the padding
    offset removed by correlation_centroid is n/2*(padding-1) on the matching axis
H6  quadCell: x signal = difference along the last axis of the sum over axis -2
    (and vice versa): antisymmetric under mirroring
Not decided: exact shift equivariance, correlation peak position.
"""
from fractions import Fraction as Fr

from ..common import get_index, nf, check_equal, same_value
from ..interp import Interp, has_unknown, unknown_atoms
from ..plf import Rat, Sym, Fn, find_atoms, val_degree
from ..report import AnalysisError

LEVEL = "other"
MOD = "aotools.image_processing.centroiders"

ORACLE = '''
import numpy


def cog2d(img):
    y, x = numpy.indices(img.shape)
    return numpy.array([(x * img).sum() / img.sum(), (y * img).sum() / img.sum()])


def cogNd(img):
    y, x = numpy.indices((img.shape[-2], img.shape[-1]))
    return numpy.array([(x * img).sum(-1).sum(-1) / img.sum(-1).sum(-1), (y * img).sum(-1).sum(-1) / img.sum(-1).sum(-1)])


def xcorr(x, y, padding):
    fx = numpy.fft.fft2(x, s=[x.shape[0] * padding, x.shape[1] * padding])
    fy = numpy.fft.fft2(y, s=[y.shape[0] * padding, y.shape[1] * padding])
    return numpy.fft.fftshift(numpy.abs(numpy.fft.ifft2(fx * numpy.conjugate(fy))))


def quad(img):
    sx = img.sum(-2)
    sy = img.sum(-1)
    return numpy.array([sx[..., 1] - sx[..., 0], sy[..., 1] - sy[..., 0]])
'''


def frame_view(v, img):
    """rewrite per-frame reductions of a stack as whole-frame reductions of one frame:
    max(max(x,-1),-1) -> max(x), sum(sum(x,-1),-1) -> sum(x), T(T(a) - s) -> a - s (s per-frame scalar)"""
    def f(a):
        if isinstance(a, Fn) and a.name in ("max", "min", "sum") and len(a.args) == 2 and a.args[1] == -1:
            inner = a.args[0].single_atom() if isinstance(a.args[0], Rat) else None
            if isinstance(inner, Fn) and inner.name == a.name and inner.args[1] == -1:
                return Rat.atom(Fn(a.name, (inner.args[0].subst(f), None)))
        if isinstance(a, Fn) and a.name == "T" and len(a.args) == 1:
            return a.args[0].subst(g)
        return None

    def g(a):       # inside an outer T(...): T(img) -> img, other atoms recursively
        if isinstance(a, Fn) and a.name == "T" and len(a.args) == 1:
            return a.args[0].subst(f)
        return f(a)
    return v.subst(f)


def _whole_stack(x, sym):
    """does x depend on the stack `sym` other than through a frame selected by a loop variable (stack[frame])?"""
    if isinstance(x, (tuple, list)):
        return any(_whole_stack(y, sym) for y in x)
    if not isinstance(x, Rat):
        return False
    for a in x.atoms(deep=False):
        if a == sym:
            return True
        if hasattr(a, "base"):
            if _whole_stack(a.base, sym):
                return True
            continue
        if isinstance(a, Fn):
            if a.name == "getitem" and len(a.args) == 2:
                idx = a.args[1]
                first = idx[0] if isinstance(idx, tuple) and idx and idx[0] != "slice" else idx
                fa = first.single_atom() if isinstance(first, Rat) else None
                if isinstance(fa, Sym) and "loopvar" in fa.flags:
                    continue            # one frame of the stack
            if any(_whole_stack(y, sym) for y in a.args):
                return True
    return False


def stack_reductions(v, img):
    """reductions over all axes (axis=None) of something that depends on the stack, except as the
    (never binding) upper bound of clip(x, 0, x.max())"""
    out = []
    sym = Sym(img)

    def walk(x, exempt):
        if isinstance(x, Rat):
            for a in x.atoms(deep=False):
                walk_atom(a, exempt)
        elif isinstance(x, (tuple, list)):
            for y in x:
                walk(y, exempt)

    def walk_atom(a, exempt):
        if isinstance(a, Fn):
            if a.name in ("max", "min", "sum", "mean", "std", "sort") and len(a.args) >= 2 and a.args[1] is None \
                    and isinstance(a.args[0], Rat) and a.args[0].depends_on(sym) and _whole_stack(a.args[0], sym) and not exempt:
                out.append(a)
            for i, y in enumerate(a.args):
                walk(y, exempt or (a.name == "clip" and i == 2))
        elif hasattr(a, "base"):
            walk(a.base, exempt)
    walk(v, False)
    return out


def kept_value(v, img):
    """For v containing where3(cmp(op, l, r), a, b): value of the pixel where img exceeds the
    threshold, and where it is below.  Returns (above, below, thr) or None."""
    ws = find_atoms(v, lambda a: isinstance(a, Fn) and a.name == "where3")
    if len(ws) != 1:
        return None
    cond, a, b = ws[0].args
    c = cond.single_atom() if isinstance(cond, Rat) else None
    if not (isinstance(c, Fn) and c.name == "cmp" and c.args[0] in ("<", "<=")):
        return None
    d = c.args[2] - c.args[1]           # cond true  <=>  d > 0 (or >= 0)
    dimg = d.degree(Sym("img"))
    # coefficient of the bare img term
    coef = None
    for cf, m in (d.terms() or []):
        if len(m) == 1 and m[0][0] == Sym(img) and m[0][1] == 1:
            coef = complex(cf).real
    if coef is None:
        return None
    thr = (Rat.sym(img, ("array",)) * coef - d) / coef     # d = coef*(img - thr)
    if coef > 0:
        return a, b, thr, c.args[0]
    return b, a, thr, ("<=" if c.args[0] == "<" else "<")


def run(rep, tier, root=None):
    ix = get_index(root)
    om = ix.virtual("_oracle_c15", ORACLE)
    rep.trusted_base += ["homogeneity table of numpy reductions/selectors (max, min, sum, sort, clip(0,.), where, abs, fft: degree 1) in sa/plf.py",
                         "oracle definitions in sa/props/c15.py"]
    rep.assumptions += ["min_threshold = 0 (outside the property's quantifier); images non-negative; thresholds in [0, 1)",
                        "the correlation image passed to centre_of_gravity is 2-D"]
    rep.explanation = ("Each centroider body is reduced to a normal form per rank path; scale invariance is the statement that the "
                       "normal form is homogeneous of degree 0 in the image; batch consistency is agreement of the per-frame "
                       "threshold transform between the 2-D and N-D paths; the moment, rank-threshold, correlation and quad-cell "
                       "formulas are compared with oracle definitions.")
    rep.rule_text = "H1..H6, one obligation per (rule, function, path)"
    m = ix.module(MOD)
    rep.files_analysed.add(m.relpath)
    flags = {"img": ("array",), "im": ("array",), "ref": ("array",), "x": ("array",), "y": ("array",)}
    zero = Rat.const(0)
    pub = [f for f in m.funcs.values() if not f.name.startswith("_")]
    rep.floor("public centroiders", len(pub), 5)

    forms = {}
    CNF = {}        # (function, path condition texts) -> evaluated conditions ((normal form, truth), ...)

    def rank_of(fname, conds, pname="img"):
        """rank asserted by the path: from the evaluated conditions ndim(p) == k (spelled len(p.shape) or p.ndim)"""
        nd = Sym("ndim(%s)" % pname)
        for val, truth in CNF.get((fname, conds), ()):
            a = val.single_atom() if isinstance(val, Rat) else None
            if isinstance(a, Fn) and a.name == "cmp" and ((a.args[0] == "==" and truth) or (a.args[0] == "!=" and not truth)):
                l, r_ = a.args[1], a.args[2]
                if isinstance(r_, Rat) and r_.single_atom() == nd:
                    l, r_ = r_, l
                if isinstance(l, Rat) and l.single_atom() == nd and isinstance(r_, Rat) and r_.real_const() is not None:
                    return int(r_.real_const())
        return None

    def thresholded(fname, conds):
        """False on the paths where the evaluated conditions say threshold == 0"""
        th = Sym("threshold")
        for val, truth in CNF.get((fname, conds), ()):
            a = val.single_atom() if isinstance(val, Rat) else None
            if isinstance(a, Fn) and a.name == "cmp" and a.args[0] in ("!=", "=="):
                l, r_ = a.args[1], a.args[2]
                if isinstance(r_, Rat) and r_.single_atom() == th:
                    l, r_ = r_, l
                if isinstance(l, Rat) and l.single_atom() == th and isinstance(r_, Rat) and r_.is_zero():
                    return truth if a.args[0] == "!=" else not truth
        return True
    for f in pub:
        rep.functions_analysed.add(f.fq)
        I = Interp(ix, int_transparent=False)
        args = I.symbolic_args(f, flags, fixed={"min_threshold": zero})
        ps_ = I.paths(f, args, split="deep")       # decisions made inside helpers are decisions of the centroider's paths
        forms[f.name] = (f, [(c_, v_) for c_, n_, v_ in ps_], I)
        for c_, n_, v_ in ps_:
            CNF[(f.name, c_)] = n_

    # ---------------------------------------------------------------- frames are processed independently
    for name, (f, rets, I) in sorted(forms.items()):
        hits = [e for e in I.alias_log if e[5] == "loop"]
        for fq_, lineno, tname, sname, text, _ in hits:
            rep.violation("H2.frames-independent", "%s: `%s` updates `%s` in the frame loop" % (fq_, text[:60], sname),
                          "`%s` is bound to the same array as `%s` (plain assignment, no copy); the in-place update changes `%s`, "
                          "which the next frame reads again: frame k is processed with data from frames < k, so a stack does "
                          "not give the centroids of its frames" % (tname, sname, sname), "%s:%d" % (f.module.relpath, lineno))
        if not hits:
            rep.ok("H2.frames-independent", f.fq, "no array from outside a frame loop is updated in place through a second name")

    # ---------------------------------------------------------------- H1
    targets = {"centre_of_gravity": ["img"], "brightest_pixel": ["img"], "quadCell": ["img"],
               "correlation_centroid": ["im", "ref"], "cross_correlate": []}
    for name, (f, rets, I) in sorted(forms.items()):
        if name not in targets:
            # a new public centroider: must be scale invariant in its first parameter
            targets[name] = [f.params[0]]
        for conds, v in rets:
            tag = "%s[%s]" % (f.fq, "; ".join(conds) or "single path")
            for t in targets[name]:
                if v is None:
                    continue
                if has_unknown(v):
                    rep.unknown("H1.scale-invariance", tag, "unrecognised constructs %s" %
                                sorted(set(repr(a)[:60] for a in unknown_atoms(v)))[:3], f.where())
                    continue
                d = val_degree(v, Sym(t))
                if d == 0:
                    rep.ok("H1.scale-invariance", "%s in %s" % (tag, t), "degree 0")
                else:
                    rep.violation("H1.scale-invariance", "%s in %s" % (f.fq + ("[%s]" % "; ".join(conds) if len(rets) > 1 else ""), t),
                                  "result is %s in the image `%s`: multiplying the image by a positive constant changes the centroid"
                                  % ("homogeneous of degree %s" % d if d is not None else "not homogeneous", t), f.where(),
                                  {"normal_form": nf(v, 500)})

    # ---------------------------------------------------------------- H2 / H3 on centre_of_gravity
    f, rets, I = forms["centre_of_gravity"]
    img = Rat.sym("img", ("array",))
    IO = Interp(ix)
    want2 = IO.returns(ix.func(om.name, "cog2d"), [img])[0][1]
    wantN = IO.returns(ix.func(om.name, "cogNd"), [img])[0][1]
    by = {}
    for conds, v in rets:
        thr = thresholded("centre_of_gravity", conds)
        two = rank_of("centre_of_gravity", conds) == 2
        by[(thr, two)] = (conds, v)
    for (thr, two), (conds, v) in sorted(by.items()):
        if not thr:
            check_equal(rep, "H3.first-moments", "%s[no threshold, %s] == sum(index*img)/sum(img), order (x, y)"
                        % (f.fq, "2-D" if two else "N-D"), v, want2 if two else wantN, f.where(), what="centre of gravity")
    for (thr, two), (conds, v) in sorted(by.items()):
        if not two:
            mixed = stack_reductions(v, "img")
            rep.check(not mixed, "H2.per-frame-reductions", "%s[%s, N-D]: reductions act per frame" % (f.fq, "threshold" if thr else "no threshold"),
                      "reduction over the whole stack mixes frames: %s" % [repr(a)[:70] for a in mixed][:3], f.where())
    if (True, True) in by and (True, False) in by:
        v2 = by[(True, True)][1]
        vN = frame_view(by[(True, False)][1], "img")
        k2, kN = kept_value(v2, "img"), kept_value(vN, "img")
        if k2 is None or kN is None:
            if same_value(v2, vN):
                rep.ok("H2.stack-equals-frames", f.fq + ": threshold transform 2-D == N-D per frame")
            else:
                rep.unknown("H2.stack-equals-frames", f.fq, "cannot classify the threshold transforms", f.where())
        else:
            (a2, b2, t2, s2), (aN, bN, tN, sN) = k2, kN
            rep.check(same_value(t2, tN), "H2.threshold-level", f.fq + ": same threshold level (fraction of the frame maximum)",
                      "2-D path thresholds at %s, N-D path at %s" % (nf(t2, 80), nf(tN, 80)), f.where())
            rep.check(same_value(b2, bN), "H2.below-threshold", f.fq + ": pixels below the threshold",
                      "below the threshold the 2-D path gives %s, the N-D path %s" % (nf(b2), nf(bN)), f.where())
            rep.check(same_value(a2, aN), "H2.stack-equals-frames", f.fq + ": kept pixel value 2-D vs N-D",
                      "a frame processed alone keeps (%s) for pixels above the threshold, the same frame inside a stack keeps (%s): "
                      "a stack does not give the same centroids as its frames" % (nf(a2, 80), nf(aN, 80)), f.where())
            # with the effective images equal, the moment formulas must agree too
            eff2 = find_atoms(v2, lambda a: isinstance(a, Fn) and a.name == "where3")[0]
            effN = find_atoms(vN, lambda a: isinstance(a, Fn) and a.name == "where3")[0]
            w = Rat.sym("w", ("array",))
            m2 = v2.subst(lambda a: w if a == eff2 else None)
            mN = vN.subst(lambda a: w if a == effN else None)
            rep.check(same_value(m2, mN), "H2.same-moments", f.fq + ": same moment formula on both rank paths",
                      "moment formulas differ between the rank paths", f.where())
    else:
        rep.unknown("H2.stack-equals-frames", f.fq, "expected a 2-D and an N-D threshold path", f.where())

    # ---------------------------------------------------------------- H4 brightest pixel
    f, rets, I = forms["brightest_pixel"]
    kinds = {}
    for conds, v in rets:
        if rank_of("brightest_pixel", conds) == 2:
            kinds["2d"] = v
        elif rank_of("brightest_pixel", conds) == 3:
            kinds["3d"] = v
    if set(kinds) != {"2d", "3d"}:
        rep.unknown("H4.rank-threshold", f.fq, "expected a 2-D and a 3-D path", f.where())
    else:
        thr = Rat.sym("threshold")
        IO2 = Interp(ix)
        src = '''
import numpy
def bp2(img, threshold):
    n = int(round(threshold * img.shape[-1] * img.shape[-2]))
    v = numpy.sort(img.flatten())[-n]
    w = (img - v).clip(0, (img - v).max())
    y, x = numpy.indices(w.shape)
    return numpy.array([(x * w).sum() / w.sum(), (y * w).sum() / w.sum()])
'''
        om2 = ix.virtual("_oracle_c15b", src)
        want = IO2.returns(ix.func(om2.name, "bp2"), [img, thr])[0][1]
        check_equal(rep, "H4.rank-threshold", f.fq + "[2-D] == COG(clip(img - sorted[-n], 0))", kinds["2d"], want, f.where(),
                    what="brightest-pixel centroid")
        mixed = stack_reductions(kinds["3d"], "img")
        rep.check(not mixed, "H2.per-frame-reductions", f.fq + "[3-D]: reductions act per frame",
                  "reduction over the whole stack mixes frames: %s" % [repr(a)[:70] for a in mixed][:3], f.where())
        v3 = frame_view(kinds["3d"], "img")
        # per-frame rank: sort(reshape(img, n, H*W))[:, -n]  ->  sort(flatten(img))[-n]
        def per_frame(a):
            if isinstance(a, Fn) and a.name == "getitem":
                b = a.args[0].single_atom() if isinstance(a.args[0], Rat) else None
                idx = a.args[1]
                if isinstance(b, Fn) and b.name == "sort" and isinstance(idx, tuple) and len(idx) == 2 and \
                        isinstance(idx[0], tuple) and idx[0][0] == "slice":
                    rs = b.args[0].single_atom() if isinstance(b.args[0], Rat) else None
                    if isinstance(rs, Fn) and rs.name == "reshape":
                        return Rat.atom(Fn("getitem", (Rat.atom(Fn("sort", (Rat.atom(Fn("flatten", (rs.args[0],))),))), idx[1])))
            return None
        v3 = v3.subst(per_frame)
        # clip's upper bound (a maximum) never binds; compare with the bound masked
        def mask_upper(a):
            if isinstance(a, Fn) and a.name == "clip":
                return Rat.atom(Fn("clip", (a.args[0].subst(mask_upper), a.args[1], "max")))
            return None
        check_equal(rep, "H4.stack-equals-frames", f.fq + ": 3-D path per frame == 2-D path",
                    v3.subst(mask_upper), kinds["2d"].subst(mask_upper), f.where(), what="per-frame brightest-pixel transform")

    # ---------------------------------------------------------------- H5 correlation
    f, rets, I = forms["cross_correlate"]
    x, y, pad = Rat.sym("x", ("array",)), Rat.sym("y", ("array",)), Rat.sym("padding")
    if len(rets) == 1:
        want = IO.returns(ix.func(om.name, "xcorr"), [x, y, pad])[0][1]
        check_equal(rep, "H5.cross-correlation", f.fq + " == fftshift(|ifft2(F(x) conj(F(y)))|)", rets[0][1], want, f.where(),
                    what="cross correlation")
    else:
        rep.unknown("H5.cross-correlation", f.fq, "several paths", f.where())
    f, rets, I = forms["correlation_centroid"]
    # a stack must be processed frame by frame: on the stack path no reduction may run over the whole stack
    n_stack = 0
    for conds, v in rets:
        if v is None:
            continue
        rk = rank_of("correlation_centroid", conds, "im")
        if rk == 2:
            continue
        n_stack += 1
        mixed = stack_reductions(v, "im")
        rep.check(not mixed, "H2.per-frame-reductions", "%s[%s]: reductions act per frame" % (f.fq, "; ".join(conds) or "stack path"),
                  "reduction over the whole stack mixes frames: %s - frame k is processed with a statistic of the other frames, so a stack does "
                  "not give the centroids of its frames" % [repr(a)[:60] for a in mixed][:3], f.where())
    if not n_stack:
        rep.unknown("H2.per-frame-reductions", f.fq, "no stack path found", f.where())
    offs = [s for s in I.store_log if s[0] == f.fq and s[5] == "="]
    # cx -= nx/2*(padding-1): recorded as assignments to the tuple stored in centroids[:, frame]
    n_ok = 0
    # the (x, y) centroid of every frame as it is stored into the result: one store of the pair, or one store per component
    pairs = []
    comp = {}
    for s_ in I.store_log:
        if s_[0] != f.fq or s_[5] != "=" or not isinstance(s_[2], tuple) or len(s_[2]) != 2:
            continue
        first, val = s_[2][0], s_[3]
        fc = first.real_const() if isinstance(first, Rat) else None
        if fc in (0, 1) and isinstance(val, Rat):
            comp.setdefault(s_[4] // 1000, {})[int(fc)] = val        # component stores (x at row 0, y at row 1)
            comp.setdefault("all", {}).setdefault(int(fc), []).append(val)
        elif isinstance(val, tuple) and len(val) == 2:
            pairs.append(val)
        elif isinstance(val, Rat):
            cpt = vector_components(val)
            if cpt is not None:
                pairs.append(cpt)
    allc = comp.get("all", {})
    if set(allc) == {0, 1} and len(allc[0]) == len(allc[1]):
        pairs.extend(zip(allc[0], allc[1]))
    if True:
        conds = ("all rank paths",)
        for cx, cy in pairs:
            for comp_, axis, label in ((cx, -1, "x"), (cy, -2, "y")):
                ts = comp_.terms() if isinstance(comp_, Rat) else None
                if ts is None:
                    continue
                off = Rat({})
                opaque_extent = False
                for c, mth in ts:
                    t = Rat({mth: c})
                    # an extent of the frame (shape(...) of an expression in im) is a number, not image data
                    t_data = t.subst(lambda a: Rat.sym("__extent__", ("int", "size")) if isinstance(a, Fn) and a.name in ("shape", "len")
                                     else None)
                    if not t_data.depends_on(Sym("ref")) and not t_data.depends_on(Sym("im")):
                        off = off + t
                        if t_data.depends_on(Sym("__extent__")):
                            opaque_extent = True
                n = Rat.sym("shape(im)[%d]" % axis, ("int", "size"))
                # zero lag of the fftshift-ed padded correlation is at (n p) // 2; referring it to the centre n // 2 of the
                # unpadded frame for every padding means removing the difference (n / 2 (p - 1) only when n p and n are even)
                pad_ = Rat.sym("padding")
                want_off = -(Rat.atom(Fn("floordiv", (n * pad_, Rat.const(2)))) - Rat.atom(Fn("floordiv", (n, Rat.const(2)))))
                n_ok += 1
                if opaque_extent and not same_value(off, want_off):
                    rep.unknown("H5.padding-offset", "%s[store %d]: %s offset" % (f.fq, (n_ok + 1) // 2, label),
                                "the offset %s is written with an extent the analysis cannot name (a slice of the shape)" % nf(off), f.where())
                    continue
                rep.check(same_value(off, want_off), "H5.padding-offset", "%s[store %d]: %s offset == (n*padding)//2 - n//2 on axis %d"
                          % (f.fq, (n_ok + 1) // 2, label, axis),
                          "offset removed from the %s centroid is %s, expected %s" % (label, nf(off), nf(want_off)), f.where())
    # one store statement reached by both rank paths (the ranks are normalised by a helper before the loop) is checked once
    n_sites_ = len(set(s_[4] for s_ in I.store_log if s_[0] == f.fq and s_[5] == "=" and isinstance(s_[2], tuple) and len(s_[2]) == 2))
    if n_ok < 4 and not (n_ok >= 2 and n_sites_ == 1):
        rep.unknown("H5.padding-offset", f.fq, "could not locate the stored (cx, cy) pair on both rank paths (%d)" % n_ok, f.where())

    # ---------------------------------------------------------------- H6 quad cell
    f, rets, I = forms["quadCell"]
    if len(rets) == 1:
        want = IO.returns(ix.func(om.name, "quad"), [img])[0][1]
        check_equal(rep, "H6.quad-cell", f.fq + " == (sum(-2)[..,1]-sum(-2)[..,0], sum(-1)[..,1]-sum(-1)[..,0])", _strip_norm(rets[0][1], img),
                    want, f.where(), what="quad-cell signal (numerator)")
    rep.floor("C15 obligations", len(rep.obligations), 20)


def vector_components(v):
    """v = sum_k s_k * array((a_k, b_k)) [+ opaque 2-vectors]  ->  (sum s_k a_k, sum s_k b_k)"""
    ts = v.terms()
    if ts is None:
        return None
    c0, c1 = Rat({}), Rat({})
    for c, m in ts:
        vec = [(a, e) for a, e in m if isinstance(a, Fn) and a.name in ("array", "paths") and e == 1]
        if len(vec) != 1:
            return None
        a = vec[0][0]
        rest = Rat({tuple(x for x in m if x[0] != a): c})
        if a.name == "array" and isinstance(a.args[0], tuple) and len(a.args[0]) == 2 and all(isinstance(x, Rat) for x in a.args[0]):
            c0 = c0 + rest * a.args[0][0]
            c1 = c1 + rest * a.args[0][1]
        else:
            c0 = c0 + rest * Rat.atom(Fn("getitem", (Rat.atom(a), Rat.const(0))))
            c1 = c1 + rest * Rat.atom(Fn("getitem", (Rat.atom(a), Rat.const(1))))
    return (c0, c1)


def _strip_norm(v, img):
    """quad-cell may be normalised by the total flux; the antisymmetry clause concerns the numerator"""
    a = v.single_atom() if isinstance(v, Rat) else None
    if isinstance(a, Fn) and a.name == "array" and isinstance(a.args[0], tuple):
        comps = []
        for c in a.args[0]:
            if isinstance(c, Rat) and not c.den_is_one():
                comps.append(Rat(dict(c.num)))
            elif isinstance(c, Rat):
                # divide out sum(img) ** -1 factors
                tot = [x for x in c.atoms(deep=False) if isinstance(x, Fn) and x.name == "sum"]
                comps.append(c)
            else:
                comps.append(c)
        return Rat.atom(Fn("array", (tuple(comps),)))
    return v
