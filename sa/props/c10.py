"""C10 - optical propagators are linear and conserve power.

L1  the returned value is complex-linear in the input field (first degree, no
    additive term, field only under (I)DFTs / shifts / scalar multipliers)
L2  every array-valued multiplier has constant modulus (exp(1j*real))
L3  power gain * d_out^2 / d_in^2 == 1 as a rational-function identity
The scale factors of ft2/ift2 are taken from /repo's fouriertransform.py as it
is on this run (callee inlining), Parseval for numpy's DFT is trusted.
"""
from ..common import get_index, nf, purity_obligations
from ..field import linear_gain, NotLinear, NotConstantModulus, outer_multiplier
from ..interp import Interp, has_unknown, unknown_atoms
from ..plf import Rat, Sym, Fn, find_atoms
from ..report import AnalysisError

LEVEL = "proof"
MOD = "aotools.opticalpropagation"


def spec(name, p, N):
    """d_in, d_out (Rat) from the positional parameters, per the property text."""
    S = lambda i: Rat.sym(p[i])
    if name == "angularSpectrum":       # (field, wvl, inputSpacing, outputSpacing, z)
        return S(2), S(3), "outputSpacing"
    if name == "oneStepFresnel":        # (field, wvl, d1, z)
        return S(2), S(1) * S(3) / (N * S(2)), "wvl*z/(N*d1)"
    if name == "twoStepFresnel":        # (field, wvl, d1, d2, z)
        return S(2), S(3), "d2"
    if name == "lensAgainst":           # (field, wvl, d1, f)
        return S(2), S(1) * S(3) / (N * S(2)), "wvl*f/(N*d1)"
    raise AnalysisError("no spec for " + name)


def is_zero_distance_path(conds, zname):
    import re
    pat = re.compile(r"^\(?%s == 0(\.0*)?\)?$|^0(\.0*)? == %s$|^not %s$" % (zname, zname, zname))
    return any(pat.match(c.strip()) for c in conds)


NPARAMS = {"angularSpectrum": 5, "oneStepFresnel": 4, "twoStepFresnel": 5, "lensAgainst": 4}


def propagator_forms(ix, name, square=True):
    I = Interp(ix, square=square)
    f = ix.func(MOD, name)
    if len(f.params) != NPARAMS[name]:
        raise AnalysisError("%s: signature changed (%s)" % (f.fq, f.params))
    flags = {f.params[0]: ("array", "field", "complex")}
    args = I.symbolic_args(f, flags)
    field = Sym(f.params[0])
    N = Rat.sym("N[%s]" % f.params[0], ("int", "size"))
    # decisions taken inside helpers (e.g. the sign of a step distance) are decisions of the propagator's paths
    return f, field, N, [(c_, v_) for c_, n_, v_ in I.paths(f, args, split="deep")]


def run(rep, tier, root=None):
    ix = get_index(root)
    rep.trusted_base += ["Parseval for numpy's unnormalised DFT: sum|fft2 x|^2 = N^2 sum|x|^2 on an N x N grid",
                         "PLF rational-function algebra (sa/plf.py), field sub-domain (sa/field.py)"]
    rep.assumptions += ["square N x N input grid (as the propagators themselves assume); all scalar parameters real",
                        "z != 0 (the z == 0 short-circuit of angularSpectrum is examined under C11)"]
    rep.explanation = ("Each propagator body (with the repo's own ft2/ift2 inlined) is reduced to a normal form; the input "
                       "field must occur to the first degree under DFTs, shifts and multipliers only; multipliers must have "
                       "constant modulus; the resulting power-gain monomial times d_out^2/d_in^2 must be identically 1 as "
                       "a rational function of wavelength, spacings and distance - i.e. for all inputs and configurations.")
    rep.rule_text = "one obligation per (propagator, path, rule L1..L3)"
    rep.files_analysed.update([ix.module(MOD).relpath, ix.module("aotools.fouriertransform").relpath])
    npaths = 0
    for name in ("angularSpectrum", "oneStepFresnel", "twoStepFresnel", "lensAgainst"):
        f, field, N, rets = propagator_forms(ix, name)
        rep.functions_analysed.add(f.fq)
        d_in, d_out, d_out_txt = spec(name, f.params, N)
        seen_nontrivial = False
        for conds, v in rets:
            ptag = "%s[%s]" % (f.fq, "; ".join(conds) if conds else "main path")
            if is_zero_distance_path(conds, f.params[-1]):
                # z == 0 short-circuit: outside this property's quantifier (z != 0); examined under C11.G4
                rep.note("%s is the zero-distance short-circuit; examined under C11.G4" % ptag)
                continue
            if v is None or not isinstance(v, Rat):
                rep.violation("L1.linear", ptag, "path does not return a field expression", f.where())
                continue
            npaths += 1
            seen_nontrivial = True
            if has_unknown(v):
                rep.unknown("L1.linear", ptag, "unrecognised construct: %s" %
                            sorted(set(repr(a)[:60] for a in unknown_atoms(v)))[:4], f.where())
                continue
            try:
                gain = linear_gain(v, field, N)
            except NotLinear as e:
                rep.violation("L1.linear", ptag, "output is not a linear function of the input field: %s" % e, f.where())
                continue
            except NotConstantModulus as e:
                rep.ok("L1.linear", ptag, "first degree in the field, no additive term")
                rep.violation("L2.unit-modulus", ptag, str(e), f.where())
                continue
            rep.ok("L1.linear", ptag, "first degree in the field, no additive term")
            rep.ok("L2.unit-modulus", ptag, "all array multipliers are exp(1j*real)")
            total = gain * d_out * d_out / (d_in * d_in)
            ok = total.equals(Rat.const(1), 1e-12)
            rep.check(ok, "L3.power", ptag + ": gain*d_out^2/d_in^2 == 1",
                      "sum|Uout|^2 d_out^2 = (%s) * sum|Uin|^2 d_in^2 with d_out = %s; conservation needs exactly 1"
                      % (nf(total, 200), d_out_txt), f.where(), note="gain = %s" % nf(gain, 120),
                      detail={"gain": nf(gain), "d_out": d_out_txt})
            rep.sample({"propagator": ptag, "gain": nf(gain, 200), "gain*d_out^2/d_in^2": nf(total, 80)})
        if not seen_nontrivial:
            raise AnalysisError("%s: no propagating path found" % f.fq)
    purity_obligations(rep, ix, [ix.func(MOD, n) for n in NPARAMS] + [ix.func("aotools.fouriertransform", n) for n in ("ft2", "ift2")],
                       "L4.pure", "the caller's input field is changed, so the power of a second propagation (or the comparison with "
                       "the input power) refers to a different field")
    rep.floor("propagator paths", npaths, 5)
