"""C19 - empirical estimators implement their definitions.

T1  structure function: the value stored for lag index j is
    mean((phase[:-i] - phase[i:])**2) with i = j*step (oracle text, same interpreter)
T2  allocation coverage: every element of the returned array is written before
    it is returned (an array from numpy.empty whose index 0 is never stored holds
    whatever was in memory), or the array is zero-initialised where the definition
    gives 0 (lag 0)
T3  both estimators are of degree 2 in their data
T4  temporal power spectrum == |fft(x, axis=-2)|^2[..., :n/2, :], mean and standard
    error over the last axis (oracle text)
T5  frequency axis == fftfreq(n, 1/rate)[:n/2]  (k*rate/n), same truncation as T4
"""
import ast
from fractions import Fraction as Fr

from ..common import get_index, nf, check_equal, check_degree, same_value
from ..interp import Interp, has_unknown, unknown_atoms, RangeVal
from ..plf import Rat, Sym, Fn, find_atoms
from ..report import AnalysisError

LEVEL = "other"
SC = "aotools.turbulence.slopecovariance"
TP = "aotools.turbulence.temporal_ps"

ORACLE = '''
import numpy


def sf_value(phase, lag):
    return numpy.mean((phase[:-lag, :] - phase[lag:, :]) ** 2)


def tps(slope_data):
    # every bin strictly below the Nyquist frequency: ceil(n / 2) of them (for odd n bin (n-1)/2 is below Nyquist and is not
    # the mirror of a lower bin)
    n = slope_data.shape[-2]
    p = abs(numpy.fft.fft(slope_data, axis=-2)[..., :(n + 1) // 2, :]) ** 2
    return p.mean(-1), p.std(-1) / numpy.sqrt(p.shape[-1])


def time_axis(frame_rate, n_frames):
    return numpy.fft.fftfreq(n_frames, 1. / frame_rate)[:(n_frames + 1) // 2]
'''


def affine_in(v, sym):
    """v = alpha*sym + beta with alpha, beta free of sym -> (alpha, beta) else None"""
    if not isinstance(v, Rat):
        return None
    s = Rat.atom(sym)
    beta = v.subst(lambda a: Rat.const(0) if a == sym else None)
    rest = v - beta
    if rest.is_zero():
        return Rat.const(0), beta
    alpha = rest / s
    if alpha.depends_on(sym):
        return None
    return alpha, beta


def coverage(idx, loopvar, rng, extent):
    """Does {idx(i) : i in range(lo, hi, step)} equal {0..extent-1}?  Returns (ok, reason)."""
    ab = affine_in(idx, loopvar)
    if ab is None:
        return None, "index %s is not affine in the loop variable" % nf(idx)
    alpha, beta = ab
    first = alpha * rng.lo + beta
    inc = alpha * rng.step
    if not inc.equals(Rat.const(1)):
        return None, "index advances by %s per iteration" % nf(inc)
    if not first.equals(Rat.const(0)):
        return False, "first index written is %s: indices below it are never written" % nf(first)
    count_times_step = rng.hi - rng.lo
    if not count_times_step.equals(extent * rng.step):
        return False, "loop writes (%s)/(%s) elements but %s are allocated" % (nf(count_times_step), nf(rng.step), nf(extent))
    return True, "indices 0..%s-1 written exactly once" % nf(extent)


def run(rep, tier, root=None):
    ix = get_index(root)
    om = ix.virtual("_oracle_c19", ORACLE)
    rep.trusted_base += ["numpy.fft.fftfreq(n, d)[k] = k/(n d) for k < n/2; numpy.empty returns uninitialised memory",
                         "oracle definitions in sa/props/c19.py"]
    rep.assumptions += ["step is a positive integer (int(step) = step); agreement with analytic structure functions on generated "
                        "screens is statistical and not decided"]
    rep.explanation = ("The loop body of the structure-function estimator is analysed once with the lag symbolic; the stored value "
                       "and index are compared with the definition, the set of written indices (an affine image of the range) with "
                       "the allocated extent; the temporal power spectrum and its frequency axis are compared as normal forms with "
                       "their definitions; degrees in the data are read off the normal forms.")
    rep.rule_text = "T1..T5, one obligation per (rule, function)"
    I = Interp(ix, int_transparent=True)
    IO = Interp(ix, int_transparent=True)

    # ------------------------------------------------------------ structure function
    f = ix.func(SC, "calculate_structure_function")
    rep.functions_analysed.add(f.fq)
    rep.files_analysed.add(f.module.relpath)
    phase = Rat.sym("phase", ("array",))
    step = Rat.sym("step", ("int",))
    nb = Rat.sym("nbOfPoint", ("int",))
    rets = I.returns(f, [phase, nb, step])
    stores = [s for s in I.store_log if s[0] == f.fq]
    loops = [l for l in I.loop_log if l[0] == f.fq]
    # the same estimator written as one slice fill from a comprehension:  sf[a:] = [g(c) for c in range(lo, hi, st)]
    # is the loop  for c in range(lo, hi, st): sf[a + (c - lo)/st] = g(c)
    if len(rets) == 1 and len(stores) == 1 and not loops and isinstance(stores[0][3], Rat) and isinstance(stores[0][3].single_atom(), Fn) \
            and stores[0][3].single_atom().name == "listcomp" and isinstance(stores[0][2], tuple) and len(stores[0][2]) == 4 \
            and stores[0][2][0] == "slice" and stores[0][2][3] is None and isinstance(stores[0][2][1], Rat) and stores[0][5] == "=":
        lc = stores[0][3].single_atom()
        key = lc.args[2]
        if isinstance(lc.args[0], Rat) and isinstance(key, tuple) and len(key) == 3 and all(isinstance(x, Rat) for x in key) and \
                (stores[0][2][2] is None):
            cvar = Rat.atom(Sym(lc.args[1], ("int", "loopvar")))
            st0 = stores[0]
            stores = [(st0[0], st0[1], stores[0][2][1] + (cvar - key[0]) / key[2], lc.args[0], st0[4], st0[5], st0[6])]
            loops = [(f.fq, st0[4], cvar, RangeVal(key[0], key[1], key[2]))]
    # the lag loop written `for j, c in enumerate(range(lo, hi, st), start=k)`: position # and item c = lo + # st name the same
    # iteration; rewritten in terms of c it is the loop `for c in range(lo, hi, st)`
    if len(loops) == 1 and len(stores) == 1 and isinstance(loops[0][3], tuple) and loops[0][3] and loops[0][3][0] == "enumerate" and \
            isinstance(loops[0][3][1], RangeVal) and isinstance(loops[0][2], tuple) and len(loops[0][2]) == 2:
        R_ = loops[0][3][1]
        pos_syms = [a for a in (loops[0][2][0].atoms() if isinstance(loops[0][2][0], Rat) else ()) if isinstance(a, Sym) and "loopvar" in a.flags]
        if len(pos_syms) == 1 and isinstance(R_.step, Rat) and not R_.step.is_zero():
            cvar = Rat.sym("c@lag", ("int", "loopvar"))
            sub = lambda v_: v_.subst(lambda a: ((cvar - R_.lo) / R_.step) if a == pos_syms[0] else None) if isinstance(v_, Rat) else v_
            st0 = stores[0]
            stores = [(st0[0], st0[1], sub(st0[2]), sub(st0[3]), st0[4], st0[5], st0[6])]
            loops = [(f.fq, loops[0][1], cvar, R_)]
    if len(rets) != 1 or len(stores) != 1 or len(loops) != 1:
        rep.unknown("T1.lag-definition", f.fq, "expected one return path, one lag loop and one store; found %d/%d/%d"
                    % (len(rets), len(loops), len(stores)), f.where())
    else:
        _, base, idx, val, lineno, op, txt = stores[0]
        loopvar = loops[0][2]
        rng = loops[0][3]
        lv = loopvar.single_atom() if isinstance(loopvar, Rat) else None
        if not isinstance(rng, RangeVal) or lv is None:
            rep.unknown("T1.lag-definition", f.fq, "lag loop is not a range() loop", f.where())
        else:
            fo = ix.func(om.name, "sf_value")
            # parametrise the loop by its trip counter t: loop variable = lo + t*step_of_range, t = 0, 1, ...
            t = Rat.sym("t", ("int", "loopvar"))
            par = rng.lo + t * rng.step
            sub = lambda v: _exact_div(v.subst(lambda a: par if a == lv else None)) if isinstance(v, Rat) else v
            idx_t, val_t = sub(idx), sub(val)
            # T1: the value stored at index k is the mean squared difference at a shift of k*step pixels
            shift = idx_t * step if isinstance(idx_t, Rat) else None
            want = IO.returns(fo, [phase, shift])[0][1] if shift is not None else None
            from ..elem import expand_means
            val_e = expand_means(val_t, {"phase": 2}) if isinstance(val_t, Rat) else val_t
            want_e = expand_means(want, {"phase": 2}) if isinstance(want, Rat) else want
            rep.check(isinstance(idx_t, Rat) and not has_unknown(idx_t) and affine_in(idx_t, t.single_atom()) is not None, "T1.lag-index",
                      f.fq + ": sf[k] is written at an index affine in the trip count", "stored at index %s" % nf(idx_t), "%s:%d" % (f.module.relpath, lineno))
            check_equal(rep, "T1.lag-definition", f.fq + ": sf[k] = mean((phase[:-k*step] - phase[k*step:])**2)", val_e, want_e,
                        "%s:%d" % (f.module.relpath, lineno), what="value stored at index %s" % nf(idx_t, 40))
            check_degree(rep, "T3.quadratic", f.fq + " ~ phase^2", val, "phase", Fr(2), f.where(), "structure function value")
            # the lags are bounded by the extent of the axis the shift runs along (axis 0: phase[:-i] - phase[i:]), with the
            # default number of points as well: a bound taken from the other axis lets lags run past the last row (mean of
            # an empty slice) for arrays with fewer rows than columns
            ext_all = []
            for nb_arg in (nb, None):
                Il = Interp(ix, int_transparent=True)
                Il.returns(f, [phase, nb_arg, step])
                e_ = _alloc_extent(f, Il, phase, nb_arg, step)
                if e_ is not None:
                    ext_all.append(e_)
            names_ = set(a.name for e_ in ext_all for a in e_.atoms() if isinstance(a, Sym) and a.name.startswith("shape(phase)"))
            wrong_ = sorted(n_ for n_ in names_ if not (n_.endswith("[0]") or n_.endswith("[-2]")))
            rep.check(bool(ext_all) and bool(names_) and not wrong_, "T2.lag-range", f.fq + ": the number of lags is bounded by the extent of the shifted (first) axis",
                      "the number of lags is computed from %s while the shift runs along axis 0: for a phase array with fewer rows than "
                      "columns lags exceed the number of rows and their entries are nan (mean of an empty slice)" % (wrong_ or "no extent of the phase"),
                      f.where())
            # T2 coverage of the returned array (in terms of the trip counter)
            ret = rets[0][1]
            alloc = _allocation(ret)
            trips = _exact_div((rng.hi - rng.lo) / rng.step)
            trng = RangeVal(Rat.const(0), trips, Rat.const(1))
            if alloc is None:
                rep.unknown("T2.allocation-coverage", f.fq, "cannot find the allocation of the returned array in %s" % nf(ret, 120), f.where())
            else:
                kind, extent_node = alloc
                extent = _alloc_extent(f, I, phase, nb, step)
                ok, why = coverage(idx_t, t.single_atom(), trng, extent) if extent is not None else (None, "extent not found")
                if kind == "uninit":
                    if ok is True:
                        rep.ok("T2.allocation-coverage", f.fq + ": every element of numpy.empty() result written", why)
                    elif ok is False:
                        rep.violation("T2.allocation-coverage", f.fq + ": numpy.empty element never written",
                                      "the result is allocated with numpy.empty and %s; the property requires value 0 at lag 0" % why,
                                      f.where())
                    else:
                        rep.unknown("T2.allocation-coverage", f.fq, why, f.where())
                elif kind == "zero":
                    # zero-initialised: unwritten elements hold 0, which is the definition's value at lag 0 only
                    ab = affine_in(idx_t, t.single_atom()) if isinstance(idx_t, Rat) else None
                    first = ab[1] if ab else None
                    good = first is not None and (first.equals(Rat.const(1)) or first.equals(Rat.const(0))) and ab[0].equals(Rat.const(1))
                    rep.check(good, "T2.allocation-coverage", f.fq + ": zero-initialised, first written lag index <= 1, every following index once",
                              "first written index is %s, advancing by %s per iteration: lags not written silently read 0"
                              % (nf(first), nf(ab[0]) if ab else None), f.where(),
                              note="sf[0] = 0 by initialisation (mean squared difference at lag 0 is 0)")
                else:
                    rep.unknown("T2.allocation-coverage", f.fq, "allocation kind %s" % kind, f.where())
        rep.sample({"function": f.fq, "stored": txt, "index": nf(idx), "value": nf(val, 300)})

    # ------------------------------------------------------------ temporal power spectrum
    g = ix.func(TP, "calc_slope_temporalps")
    rep.functions_analysed.add(g.fq)
    rep.files_analysed.add(g.module.relpath)
    sd = Rat.sym("slope_data", ("array",))
    I2 = Interp(ix, int_transparent=True)
    r2 = I2.returns(g, [sd])
    if len(r2) != 1 or not isinstance(r2[0][1], tuple) or len(r2[0][1]) != 2:
        rep.unknown("T4.spectrum-definition", g.fq, "expected one path returning (mean, error)", g.where())
    else:
        # frame counts are non-negative integers: n // 2 and int(n / 2) are the same number (int() is transparent here)
        got = tuple(_floordiv_as_int(x) for x in r2[0][1])
        r2 = [(r2[0][0], got)]
        want = tuple(_floordiv_as_int(x) for x in IO.returns(ix.func(om.name, "tps"), [sd])[0][1])
        for k, label in ((0, "mean spectrum"), (1, "standard error")):
            check_degree(rep, "T3.quadratic", "%s[%s] ~ slope_data^2" % (g.fq, label), got[k], "slope_data", Fr(2), g.where(), label)
            check_equal(rep, "T4.spectrum-definition", "%s[%s]" % (g.fq, label), got[k], want[k], g.where(), what=label)
        rep.sample({"function": g.fq, "mean": nf(got[0], 300)})
    h = ix.func(TP, "get_tps_time_axis")
    rep.functions_analysed.add(h.fq)
    fr, nfr = Rat.sym("frame_rate"), Rat.sym("n_frames", ("int",))
    r3 = I2.returns(h, [fr, nfr])
    if len(r3) != 1:
        rep.unknown("T5.frequency-axis", h.fq, "expected one path", h.where())
    else:
        want = _floordiv_as_int(IO.returns(ix.func(om.name, "time_axis"), [fr, nfr])[0][1])
        r3 = [(r3[0][0], _half_of_rfftfreq(_floordiv_as_int(r3[0][1]), nfr))]
        check_equal(rep, "T5.frequency-axis", h.fq + " == fftfreq(n, 1/rate)[:ceil(n/2)]", r3[0][1], want, h.where(), what="frequency axis")
        # same truncation in spectrum and axis
        if len(r2) == 1 and isinstance(r2[0][1], tuple):
            t_axis = _slice_upper(r3[0][1])
            t_spec = _slice_upper(r2[0][1][0])
            if t_axis is None or t_spec is None:
                rep.unknown("T5.same-truncation", "spectrum/axis", "cannot locate the truncating slices", h.where())
            else:
                nsub = Sym("shape(slope_data)[-2]")
                t_spec2 = t_spec.subst(lambda a: nfr if a == nsub else None)
                rep.check(same_value(t_axis, t_spec2), "T5.same-truncation", "spectrum and frequency axis keep the same bins",
                          "spectrum keeps %s bins, axis %s" % (nf(t_spec2), nf(t_axis)), h.where())
    from ..common import purity_obligations
    purity_obligations(rep, ix, [ix.func(SC, "calculate_structure_function"), ix.func(TP, "calc_slope_temporalps"), ix.func(TP, "get_tps_time_axis")],
                       "T6.pure", "the estimate would depend on earlier calls or change the data it is computed from")
    rep.floor("C19 obligations", len(rep.obligations), 9)


def _half_of_rfftfreq(v, n):
    """rfftfreq(n, d)[k] and fftfreq(n, d)[k] are both k/(n d) for k < n/2 (NumPy documentation: the non-negative half comes
    first in both): a slice of rfftfreq that stops at or before n/2 is the same slice of fftfreq"""
    def f(a):
        if isinstance(a, Fn) and a.name == "getitem" and isinstance(a.args[0], Rat) and isinstance(a.args[1], tuple) and len(a.args[1]) == 4 \
                and a.args[1][0] == "slice" and a.args[1][3] is None and isinstance(a.args[1][1], Rat) and a.args[1][1].is_zero():
            b = a.args[0].single_atom()
            hi = a.args[1][2]
            half = [Rat.atom(Fn("int", (n / 2,))), n / 2, Rat.atom(Fn("floordiv", (n, Rat.const(2)))), (n + 1) / 2,
                    Rat.atom(Fn("floordiv", (n + 1, Rat.const(2))))]
            if isinstance(b, Fn) and b.name == "rfftfreq" and same_value(b.args[0], n) and isinstance(hi, Rat) and any(same_value(hi, h_) for h_ in half):
                return Rat.atom(Fn("getitem", (Rat.atom(Fn("fftfreq", b.args)), a.args[1])))
        return None
    return v.subst(f) if isinstance(v, Rat) else v


def _floordiv_as_int(v):
    """a // b  ->  a / b under the int()-transparent convention of this driver (non-negative frame counts)"""
    if isinstance(v, tuple):
        return tuple(_floordiv_as_int(x) for x in v)
    if not isinstance(v, Rat):
        return v

    def f(a):
        if isinstance(a, Fn) and a.name == "floordiv" and len(a.args) == 2 and all(isinstance(x, Rat) for x in a.args):
            return _floordiv_as_int(a.args[0]) / _floordiv_as_int(a.args[1])
        if isinstance(a, Fn) and a.name == "getitem" and isinstance(a.args[0], Rat):
            idx = a.args[1]
            def fi(x):
                if isinstance(x, Rat):
                    return _floordiv_as_int(x)
                if isinstance(x, tuple):
                    return tuple(fi(y) for y in x)
                return x
            return Rat.atom(Fn("getitem", (_floordiv_as_int(a.args[0]), fi(idx))))
        return None
    return v.subst(f)


def _slice_upper(v):
    for a in find_atoms(v, lambda a: isinstance(a, Fn) and a.name == "getitem"):
        idx = a.args[1]
        items = idx if isinstance(idx, tuple) and idx and idx[0] != "slice" else (idx,)
        for it in items:
            if isinstance(it, tuple) and it and it[0] == "slice" and isinstance(it[2], Rat):
                return it[2]
    return None


def _exact_div(v):
    """floordiv(a, b) -> a / b where the quotient is a polynomial with integer coefficients in integer symbols
    (exact division: the floor of an integer is itself)"""
    from .c18 import is_int_valued
    if not isinstance(v, Rat):
        return v

    def f(a):
        if isinstance(a, Fn) and a.name in ("floordiv",) and len(a.args) == 2 and all(isinstance(x, Rat) for x in a.args):
            q = _exact_div(a.args[0]) / _exact_div(a.args[1])
            if is_int_valued(q):
                return q
        if isinstance(a, Fn) and a.name in ("int", "floor") and len(a.args) == 1 and isinstance(a.args[0], Rat):
            q = _exact_div(a.args[0])
            if is_int_valued(q):
                return q
        return None
    return v.subst(f)


def _allocation(ret):
    """kind of the array the loop stores into: 'uninit' | 'zero'"""
    if not isinstance(ret, Rat):
        return None
    a = ret.single_atom()
    if isinstance(a, Fn) and a.name == "loopstore":
        a = a.args[0].single_atom()
    while isinstance(a, Fn) and a.name == "setitem":
        base = a.args[0]
        if isinstance(base, Rat) and base.is_zero():
            return "zero", None
        b = base.single_atom() if isinstance(base, Rat) else None
        if isinstance(b, Fn) and b.name == "uninit":
            return "uninit", None
        a = b
    return None


def _alloc_extent(f, I, *args):
    """extent passed to the allocation call (numpy.empty / zeros) of the returned array, re-evaluated."""
    for (fq, callee, cargs, ckw, lineno, _cnf) in I.call_log:
        if fq == f.fq and callee.split(".")[-1] in ("empty", "zeros", "full", "ones") and cargs:
            e = cargs[0]
            if isinstance(e, (tuple, list)) and e:
                e = e[0]
            if isinstance(e, Rat):
                return e
    return None
