"""C12 - Zernike indexing, modes, normalisations (clauses decidable from code shape).

Z1  every numpy / scipy attribute chain used by zernike.py and pupil.py exists in
    the installed library (a missing one makes every call raise)
Z2  zernike_nm == Noll's definition: sqrt(n+1) R_n^0 for m = 0, sqrt(2(n+1)) R_n^|m|
    cos(m theta + rot) for m > 0, ... sin(|m| theta + rot) for m < 0, on the grid
    (k + 1/2 - N/2)/(N/2), clipped to r <= 1 and multiplied by circle(N/2, N)   (Z7)
Z3  zernIndex == Noll's formula; the sign of m is + for even j and - for odd j
    (with zernike_nm: even <-> cosine, odd <-> sine)
Z4  radial polynomial == sum_i (-1)^i (n-i)! / (i! ((n+m)/2-i)! ((n-m)/2-i)!) r^(n-2i),
    i = 0 .. (n-m)/2
Z5  zernikeArray: list and count dispatch call zernike_noll with the same trailing
    arguments; index j is stored at j-1 for j = 1..maxJ (resp. J[i] at i); every
    element of the numpy.empty result is written; p2v / rms normalise each mode by a
    function of that mode only  =>  list build == matching slices of the count build
Z6  phaseFromZernikes == sum_z Zs[z] * zCoeffs[z] over all coefficients (degree 1),
    norm and rot forwarded
Z8  the gamma-matrix rule bodies agree with Noll's derivative rules (a)-(d) on every case of
    the finite comparison abstraction (see c12_gammas.py)
Not decided: bijectivity of the Noll map, orthonormality / RMS / P2V values, the mode
ordering inside makegammas, gamma matrices versus numerical gradients.
"""
import ast
import importlib
from fractions import Fraction as Fr

from ..common import get_index, nf, check_equal, same_value, check_degree
from ..index import norm_text, dotted
from ..interp import Interp, has_unknown, unknown_atoms, RangeVal
from ..plf import Rat, Sym, Fn, find_atoms
from ..report import AnalysisError
from .c19 import coverage

LEVEL = "other"
ZER = "aotools.functions.zernike"
PUP = "aotools.functions.pupil"

ORACLE = '''
import math
import numpy
from .functions.zernike import zernikeRadialFunc, zernIndex, zernike_nm, zernike_noll, zernikeArray
from .functions.pupil import circle


def noll_mode(n, m, N, rot):
    c = (numpy.arange(N) - N / 2. + 0.5) / (N / 2.)
    X, Y = numpy.meshgrid(c, c)
    R = numpy.sqrt(X ** 2 + Y ** 2)
    theta = numpy.arctan2(Y, X)
    if m == 0:
        Z = numpy.sqrt(n + 1) * zernikeRadialFunc(n, 0, R)
    elif m > 0:
        Z = numpy.sqrt(2 * (n + 1)) * zernikeRadialFunc(n, m, R) * numpy.cos(m * theta + rot)
    else:
        Z = numpy.sqrt(2 * (n + 1)) * zernikeRadialFunc(n, abs(m), R) * numpy.sin(abs(m) * theta + rot)
    return Z * numpy.less_equal(R, 1.0) * circle(N / 2., N)


def noll_index(j):
    n = int((-1. + numpy.sqrt(8 * (j - 1) + 1)) / 2.)
    p = j - (n * (n + 1)) / 2.
    k = n % 2
    return n, int((p + k) / 2.) * 2 - k


def radial(n, m, r):
    R = 0
    for i in range(0, int((n - m) / 2) + 1):
        R = R + r ** (n - 2 * i) * (-1) ** i * math.factorial(n - i) / (
            math.factorial(i) * math.factorial(int(0.5 * (n + m) - i)) * math.factorial(int(0.5 * (n - m) - i)))
    return R


def by_noll(j, N, rot):
    n, m = zernIndex(j)
    return zernike_nm(n, m, N, rot)


def pupil(N):
    return circle(N / 2., N)


def rms_divisor(Z, N):
    return numpy.sqrt(numpy.sum(Z ** 2) / numpy.sum(circle(N / 2., N)))


def p2v_divisor(Z):
    return Z.max() - Z.min()


def phase(zCoeffs, size, norm, rot):
    Zs = zernikeArray(len(zCoeffs), size, norm=norm, rot=rot)
    out = 0
    for z in range(len(zCoeffs)):
        out = out + Zs[z] * zCoeffs[z]
    return out
'''


def lib_attr_exists(dotted_name):
    parts = dotted_name.split(".")
    try:
        obj = importlib.import_module(parts[0])
    except Exception:
        return True, ""       # not a library we can inspect here
    cur = parts[0]
    for a in parts[1:]:
        if hasattr(obj, a):
            obj = getattr(obj, a)
        else:
            try:
                obj = importlib.import_module(cur + "." + a)
            except Exception:
                return False, "%s has no attribute '%s'" % (cur, a)
        cur += "." + a
    return True, ""


def ext_chains(ix, mod):
    """maximal attribute chains on imported library names used anywhere in the module: (dotted, function, node)"""
    out = []
    for f in mod.all_functions():
        loc = ix.local_names(f)
        seen = set()
        for n in ast.walk(f.node):
            if isinstance(n, ast.Attribute):
                # only maximal chains
                seen.add(id(n.value))
        for n in ast.walk(f.node):
            if isinstance(n, ast.Attribute) and id(n) not in seen:
                b = ix.resolve_expr(mod, n, loc)
                if b is not None and b.kind == "ext" and b.target.split(".")[0] in ("numpy", "scipy", "math", "numba"):
                    out.append((b.target, f, n))
    return out


def run(rep, tier, root=None):
    ix = get_index(root)
    om = ix.virtual("_oracle_c12", ORACLE)
    rep.trusted_base += ["Noll (1976) definitions written as an analyser-side oracle (sa/props/c12.py)",
                         "existence of library attributes is read from the installed NumPy/SciPy (getattr, no aotools import)"]
    rep.assumptions += ["n and m have the same parity (int((n-m)/2) = (n-m)/2); N integer",
                        "orthonormality, unit RMS/P2V, bijectivity and the gamma matrices are numerical/arithmetical and not decided"]
    rep.explanation = ("The Zernike module is compared, function by function, with Noll's definitions as normal forms (callee calls "
                       "kept opaque so that each function is checked against its own definition); dispatch, storage indices and "
                       "allocation coverage of zernikeArray are index rules; library attribute chains are resolved in the installed "
                       "libraries.")
    rep.rule_text = "Z1..Z6, one obligation per (rule, function/branch or attribute chain)"
    zm, pm = ix.module(ZER), ix.module(PUP)
    rep.files_analysed.update([zm.relpath, pm.relpath])

    # ---------------------------------------------------------------- Z1
    n_chain = 0
    for mod in (zm, pm):
        for d, f, node in ext_chains(ix, mod):
            n_chain += 1
            ok, why = lib_attr_exists(d)
            if ok:
                rep.ok("Z1.library-attribute", "%s: %s" % (f.fq, d), "exists", False)
            else:
                rep.violation("Z1.library-attribute", "%s: %s" % (f.fq, d),
                              "%s does not exist in the installed library (%s): every call of %s raises AttributeError"
                              % (d, why, f.name), f.where(node))
    rep.floor("library attribute chains in zernike.py/pupil.py", n_chain, 20)
    # cross-reference for the rest of the package (notes only)
    other = []
    for mn, mod in sorted(ix.modules.items()):
        if mod in (zm, pm) or mn == "aotools._version" or mod.path.startswith("<oracle"):
            continue
        for d, f, node in ext_chains(ix, mod):
            ok, why = lib_attr_exists(d)
            if not ok:
                other.append("%s: %s (%s)" % (f.fq, d, why))
    if other:
        rep.note("library attributes missing elsewhere in the package (outside C12's anchors): %s" % sorted(set(other)))

    def F(name):
        f = ix.func(ZER, name)
        rep.functions_analysed.add(f.fq)
        return f
    fq = lambda n: "%s:%s" % (ZER, n)
    n, m, N, rot, j = Rat.sym("n", ("int",)), Rat.sym("m", ("int",)), Rat.sym("N", ("int",)), Rat.sym("rot"), Rat.sym("j", ("int",))

    # ---------------------------------------------------------------- Z2 / Z7
    f = F("zernike_nm")
    I = Interp(ix, opaque={fq("zernikeRadialFunc")})
    IO = Interp(ix, opaque={fq("zernikeRadialFunc")})
    got = I.paths(f, [n, m, N, rot])
    want = IO.paths(ix.func(om.name, "noll_mode"), [n, m, N, rot])

    def branch(cnf):
        """sign of m asserted by the evaluated branch conditions of a path"""
        zero = pos = neg = None
        for val, truth in cnf:
            a = val.single_atom() if isinstance(val, Rat) else None
            if not (isinstance(a, Fn) and a.name == "cmp"):
                continue
            op, l, r_ = a.args
            if same_value(r_, m) and isinstance(l, Rat) and l.is_zero():
                l, r_ = r_, l
                op = {"<": ">", ">": "<", "<=": ">=", ">=": "<="}.get(op, op)
            if not (same_value(l, m) and isinstance(r_, Rat) and r_.is_zero()):
                continue
            if op == "==":
                zero = truth
            elif op == "!=":
                zero = not truth
            elif op == ">":
                pos = truth
            elif op == "<":
                neg = truth
            elif op == ">=":
                neg = not truth
            elif op == "<=":
                pos = not truth
        if zero:
            return "m == 0"
        if pos or (neg is False and zero is False):
            return "m > 0"
        if neg or (pos is False and zero is False):
            return "m < 0"
        return None

    def with_sign(v, b):
        """|m| is m on the m > 0 paths and -m on the m < 0 paths"""
        if not isinstance(v, Rat) or b == "m == 0":
            return v
        rep_ = m if b == "m > 0" else -m
        return v.subst(lambda a: rep_ if (isinstance(a, Fn) and a.name == "abs" and len(a.args) == 1 and same_value(a.args[0], m)) else None)
    CASES3 = ("m == 0", "m > 0", "m < 0")

    def cases_of(cnf):
        """the sign cases of m a path can be taken in, from its atomic conditions comparing m with 0"""
        poss = set(CASES3)
        for val, truth in cnf:
            a = val.single_atom() if isinstance(val, Rat) else None
            if not (isinstance(a, Fn) and a.name == "cmp"):
                continue
            op, l, r_ = a.args
            if same_value(r_, m) and isinstance(l, Rat) and l.is_zero():
                l, r_ = r_, l
                op = {"<": ">", ">": "<", "<=": ">=", ">=": "<="}.get(op, op)
            if not (same_value(l, m) and isinstance(r_, Rat) and r_.is_zero()):
                continue
            for case in list(poss):
                sg = {"m == 0": 0, "m > 0": 1, "m < 0": -1}[case]
                holds_ = {"==": sg == 0, "!=": sg != 0, ">": sg > 0, "<": sg < 0, ">=": sg >= 0, "<=": sg <= 0}.get(op)
                if holds_ is not None and holds_ != truth:
                    poss.discard(case)
        return poss

    def in_case(v, b):
        """the value specialised to a sign case: m = 0, or |m| = +-m"""
        if not isinstance(v, Rat):
            return v
        sg = {"m == 0": 0, "m > 0": 1, "m < 0": -1}[b]

        def choose(a):
            # conditional expressions on the sign of m are decided by the case
            if isinstance(a, Fn) and a.name == "where3" and isinstance(a.args[0], Rat) and isinstance(a.args[0].single_atom(), Fn) \
                    and a.args[0].single_atom().name == "cmp":
                op, l, r_ = a.args[0].single_atom().args
                if same_value(r_, m) and isinstance(l, Rat) and l.is_zero():
                    l, r_ = r_, l
                    op = {"<": ">", ">": "<", "<=": ">=", ">=": "<="}.get(op, op)
                if same_value(l, m) and isinstance(r_, Rat) and r_.is_zero():
                    t_ = {"==": sg == 0, "!=": sg != 0, ">": sg > 0, "<": sg < 0, ">=": sg >= 0, "<=": sg <= 0}.get(op)
                    if t_ is not None:
                        pick = a.args[1] if t_ else a.args[2]
                        return pick.subst(choose) if isinstance(pick, Rat) else None
            return None
        v = v.subst(choose)
        if b == "m == 0":
            return v.subst(lambda a: Rat.const(0) if a == m.single_atom() else None)
        return with_sign(v, b)
    wb = {}
    for c, cnf, v in want:
        for b in cases_of(cnf):
            wb[b] = v
    covered = set()
    if set(wb) != set(CASES3):
        raise AnalysisError("C12 oracle noll_mode does not cover the three sign cases")
    for c, cnf, v in got:
        for b in sorted(cases_of(cnf)):
            covered.add(b)
            check_equal(rep, "Z2.mode-definition", "%s[%s | %s] == Noll mode (normalisation, cos/sin, clipping, pupil)" % (f.fq, b, "; ".join(c) or "-"),
                        in_case(v, b), in_case(wb[b], b), f.where(), what="Zernike mode")
    if covered != set(CASES3):
        rep.unknown("Z2.mode-definition", f.fq, "the paths do not cover m == 0 / m > 0 / m < 0: %s" % [c for c, cnf, v in got], f.where())
    gpos = [v for c, cnf, v in got if "m > 0" in cases_of(cnf)]
    if gpos:
        rep.sample({"function": f.fq, "m>0": nf(gpos[0], 400)})

    # ---------------------------------------------------------------- Z3
    f = F("zernIndex")
    I = Interp(ix)
    got = I.paths(f, [j])
    wn, wm = Interp(ix).returns(ix.func(om.name, "noll_index"), [j])[0][1]
    jmod = Rat.atom(Fn("mod", (j, Rat.const(2))))

    def holds(val, case):
        """truth of one atomic branch condition in the case m == 0 / (m != 0, j even) / (m != 0, j odd); None = either,
        'unknown' = not understood"""
        a = val.single_atom() if isinstance(val, Rat) else None
        if not (isinstance(a, Fn) and a.name == "cmp"):
            return "unknown"
        op_, l, r_ = a.args[0], a.args[1], a.args[2]
        if isinstance(l, Rat) and l.is_const() and not (isinstance(r_, Rat) and r_.is_const()):
            l, r_ = r_, l
            op_ = {"<": ">", ">": "<", "<=": ">=", ">=": "<="}.get(op_, op_)
        if not (isinstance(r_, Rat) and r_.is_const()):
            return "unknown"
        c_ = complex(r_.const_value()).real
        if same_value(l, jmod) and op_ in ("==", "!=") and c_ in (0, 1):
            if case == "zero":
                return None
            par = 0 if case == "even" else 1
            return (par == c_) == (op_ == "==")
        if c_ == 0 and isinstance(l, Rat) and not same_value(l, jmod):
            # a test of the function's own azimuthal order against 0 (whatever formula it computes it with: the value it
            # returns is compared with Noll's below)
            neg = same_value(l, -wm) and not same_value(l, wm)
            zero = case == "zero"               # |m| >= 0: m > 0 is m != 0
            table = {"==": zero, "!=": not zero, ">": (not zero) and not neg, "<": (not zero) and neg, ">=": zero or not neg, "<=": zero or neg}
            return table.get(op_, "unknown")
        return "unknown"
    covered, bad = set(), False
    for c, cnf, v in got:
        if not (isinstance(v, (tuple, list)) and len(v) == 2):
            bad = True
            continue
        for case in ("zero", "even", "odd"):
            hs = [(holds(val, case), truth) for val, truth in cnf]
            if any(h == "unknown" for h, t_ in hs):
                bad = True
                continue
            if any(h is not None and h != t_ for h, t_ in hs):
                continue                # the path is not taken in this case
            covered.add(case)
            tagc = "%s[%s | %s]" % (f.fq, {"zero": "m == 0", "even": "j even", "odd": "j odd"}[case], "; ".join(c) or "-")
            check_equal(rep, "Z3.noll-index", tagc + ": n == int((sqrt(8j-7)-1)/2)", v[0], wn, f.where(), what="radial order")
            if case == "zero":
                rep.check(same_value(v[1], wm) or same_value(v[1], -wm), "Z3.noll-index", tagc + ": |m| formula",
                          "azimuthal order is %s" % nf(v[1], 160), f.where())
            elif case == "even":
                check_equal(rep, "Z3.sign-convention", tagc + ": m = +|m| (cosine)", v[1], wm, f.where(), what="azimuthal order")
            else:
                check_equal(rep, "Z3.sign-convention", tagc + ": m = -|m| (sine)", v[1], -wm, f.where(), what="azimuthal order")
    if bad or covered != {"zero", "even", "odd"}:
        rep.unknown("Z3.noll-index", f.fq, "expected paths m == 0 / j even / j odd returning [n, m]", f.where())

    # ---------------------------------------------------------------- Z4
    f = F("zernikeRadialFunc")
    I = Interp(ix, int_transparent=True)
    r = Rat.sym("r", ("array",))
    got = I.returns(f, [n, m, r])
    want = Interp(ix, int_transparent=True).returns(ix.func(om.name, "radial"), [n, m, r])[0][1]
    if len(got) != 1:
        rep.unknown("Z4.radial-polynomial", f.fq, "expected one path", f.where())
    else:
        check_equal(rep, "Z4.radial-polynomial", f.fq + " == sum_i (-1)^i (n-i)!/(i! ((n+m)/2-i)! ((n-m)/2-i)!) r^(n-2i)", got[0][1], want,
                    f.where(), what="radial polynomial")

    # ---------------------------------------------------------------- zernike_noll
    f = F("zernike_noll")
    op = {fq("zernIndex"), fq("zernike_nm")}
    got = Interp(ix, opaque=op).returns(f, [j, N, rot])
    want = Interp(ix, opaque=op).returns(ix.func(om.name, "by_noll"), [j, N, rot])[0][1]
    if len(got) != 1:
        rep.unknown("Z5.by-noll-index", f.fq, "expected one path", f.where())
    else:
        check_equal(rep, "Z5.by-noll-index", f.fq + " == zernike_nm(*zernIndex(j), N, rot)", got[0][1], want, f.where(), what="mode by Noll index")

    # ---------------------------------------------------------------- Z5 dispatch
    f = F("zernikeArray")
    I = Interp(ix, opaque={fq("zernike_noll")}, int_transparent=True, round_transparent=True)
    J = Rat.sym("J")
    rets = I.returns(f, [J, N, "noll", rot])
    stores = [s for s in I.store_log if s[0] == f.fq and s[5] == "="]
    loops = [l for l in I.loop_log if l[0] == f.fq]
    allocs = [c for c in I.call_log if c[0] == f.fq and c[1].split(".")[-1] in ("empty", "zeros")]
    if len(stores) != 2 or len(loops) != 2 or len(allocs) != 2:
        rep.unknown("Z5.dispatch", f.fq, "expected two build loops (list / count) with one store each; found %d/%d/%d"
                    % (len(stores), len(loops), len(allocs)), f.where())
    else:
        call = lambda a: Rat.atom(Fn("call:" + fq("zernike_noll"), (a, N, rot)))
        kinds = {}
        for s, l, a in zip(stores, loops, allocs):
            lv, rng = l[2], l[3]
            val, idx = s[3], s[2]
            ext = a[2][0][0] if a[2] and isinstance(a[2][0], (tuple, list)) else None
            # the loop's own counter t (range variable, or the position in an enumerate / direct iteration) and the slot the
            # mode is stored in, idx = t + b: as a function of the slot k the stored mode must be zernike_noll(J[k]) (list)
            # or zernike_noll(k + 1) (count)
            ts = sorted(set(x for x in (idx.atoms() if isinstance(idx, Rat) else ()) if isinstance(x, Sym) and "loopvar" in x.flags),
                        key=lambda x: x.name)
            t = Rat.atom(ts[0]) if len(ts) == 1 else None
            b = (idx - t) if t is not None else None
            kind = None
            if t is not None and b.is_const() and isinstance(val, Rat):
                val_k = val.subst(lambda x: (t - b) if x == ts[0] else None)
                if same_value(val_k, call(Rat.atom(Fn("getitem", (J, t))))):
                    kind = "list"
                elif same_value(val_k, call(t + 1)):
                    kind = "count"
            if kind is None:
                rep.violation("Z5.dispatch", "%s: stored mode %s" % (f.fq, nf(val, 100)),
                              "a build branch stores %s at index %s: not zernike_noll(J[k], N, rot) or zernike_noll(k + 1, N, rot) in slot k, with the "
                              "same trailing arguments as the other branch" % (nf(val, 160), nf(idx, 60)), "%s:%d" % (f.module.relpath, s[4]))
                continue
            kinds[kind] = True
            rep.ok("Z5.storage-index", "%s[%s]: mode of %s stored at %s" % (
                f.fq, kind, "J[i]" if kind == "list" else "j", "i" if kind == "list" else "j-1"), "slot k holds the mode of %s" % (
                "J[k]" if kind == "list" else "k + 1"))
            loop_node = next((n_ for n_ in ast.walk(f.node) if isinstance(n_, ast.For) and n_.lineno == l[1]), None)
            it_node = loop_node.iter if loop_node is not None else None
            if isinstance(it_node, ast.Call) and norm_text(it_node.func) == "enumerate" and it_node.args:
                it_node = it_node.args[0]
            if isinstance(ext, Rat) and isinstance(rng, RangeVal):
                okc, why = coverage(idx, ts[0], rng, ext)
                if okc is None:
                    rep.unknown("Z5.allocation-coverage", "%s[%s]" % (f.fq, kind), why, f.where())
                else:
                    rep.check(okc, "Z5.allocation-coverage", "%s[%s]: every mode slot of numpy.empty() written" % (f.fq, kind), why, f.where(), note=why)
            elif isinstance(it_node, ast.Name) and it_node.id == s[1] and b.is_zero():
                rep.ok("Z5.allocation-coverage", "%s[%s]: every mode slot of numpy.empty() written" % (f.fq, kind),
                       "the loop iterates over the items of the allocated array itself and writes item k in iteration k")
            elif isinstance(it_node, ast.Name) and isinstance(J, Rat) and isinstance(J.single_atom(), Sym) and it_node.id == J.single_atom().name \
                    and b.is_zero() and isinstance(ext, Rat) and (same_value(ext, Rat.atom(Fn("len", (J,)))) or
                                                                  same_value(ext, Interp(ix).shape_elem(J, 0)) or same_value(ext, Rat.atom(Fn("shape", (J, 0))))):
                rep.ok("Z5.allocation-coverage", "%s[%s]: every mode slot of numpy.empty() written" % (f.fq, kind),
                       "the loop enumerates the index list and writes slot k in iteration k; the array has len(list) slots")
            else:
                rep.unknown("Z5.allocation-coverage", "%s[%s]" % (f.fq, kind), "allocation extent / loop range not recognised", f.where())
        rep.check(set(kinds) == {"list", "count"}, "Z5.dispatch", f.fq + ": list and count branch both call zernike_noll(index, N, rot)",
                  "recognised build branches: %s" % sorted(kinds), f.where())
    # normalisation divisors: rms over the same pupil that clips the modes, p2v = max - min of the mode itself
    for norm_name, oname in (("rms", "rms_divisor"), ("p2v", "p2v_divisor")):
        In = Interp(ix, opaque={fq("zernike_noll")}, int_transparent=True, round_transparent=True)
        In.returns(f, [Rat.sym("J"), N, norm_name, rot])
        divs = [s_ for s_ in In.store_log if s_[0] == f.fq and s_[5] == "Div"]
        if not divs:
            rep.violation("Z5.normalisation", "%s[norm=%r]: modes are divided by their %s" % (f.fq, norm_name, norm_name),
                          "no normalising division is performed for norm=%r" % norm_name, f.where())
            continue
        for s_ in divs:
            tgt_base, idx_, val_ = s_[1], s_[2], s_[3]
            # the mode being normalised: Zs[z] as read inside the divisor
            modes = [a for a in find_atoms(val_, lambda a: isinstance(a, Fn) and a.name == "getitem") if same_value(a.args[1], idx_)]
            if not modes:
                rep.unknown("Z5.normalisation", "%s[norm=%r]" % (f.fq, norm_name), "cannot find the mode inside its divisor", f.where())
                continue
            Zm = Rat.atom(modes[0])
            args_ = [Zm, N] if oname == "rms_divisor" else [Zm]
            want_ = Interp(ix).returns(ix.func(om.name, oname), args_)[0][1]
            check_equal(rep, "Z5.normalisation", "%s[norm=%r]: divisor == %s" % (f.fq, norm_name,
                        "sqrt(sum(Z^2)/sum(circle(N/2, N)))" if norm_name == "rms" else "max(Z) - min(Z)"), val_, want_,
                        "%s:%d" % (f.module.relpath, s_[4]), what="normalisation divisor")
    # per-mode normalisation
    for n_ in ast.walk(f.node):
        if isinstance(n_, ast.AugAssign) and isinstance(n_.target, ast.Subscript) and isinstance(n_.op, ast.Div):
            tgt = norm_text(n_.target)
            names = set()
            for x in ast.walk(n_.value):
                if isinstance(x, ast.Subscript) and isinstance(x.value, ast.Name) and x.value.id == norm_text(n_.target.value):
                    names.add(norm_text(x))
            bare = [x for x in ast.walk(n_.value) if isinstance(x, ast.Name) and x.id == norm_text(n_.target.value)]
            sub = [x for x in ast.walk(n_.value) if isinstance(x, ast.Subscript) and isinstance(x.value, ast.Name)
                   and x.value.id == norm_text(n_.target.value)]
            rep.check(names <= {tgt} and len(bare) == len(sub), "Z5.per-mode-normalisation",
                      "%s: %s" % (f.fq, norm_text(n_)[:70]),
                      "mode %s is normalised by a quantity that depends on other modes (%s): list build != slices of count build"
                      % (tgt, sorted(names)), f.where(n_))

    # ---------------------------------------------------------------- Z6
    f = F("phaseFromZernikes")
    op = {fq("zernikeArray")}
    zc, size, norm = Rat.sym("zCoeffs", ("array",)), Rat.sym("size", ("int",)), Rat.sym("norm")
    got = Interp(ix, opaque=op).returns(f, [zc, size, norm, rot])
    want = Interp(ix, opaque=op).returns(ix.func(om.name, "phase"), [zc, size, norm, rot])[0][1]
    if len(got) != 1:
        rep.unknown("Z6.linear-combination", f.fq, "expected one path", f.where())
    else:
        from ..common import canon_iteration_sums

        def length_of(x):
            # zernikeArray(n, ...) with an integer count has n modes (Z5 count branch); a coefficient vector has len() items
            a_ = x.single_atom() if isinstance(x, Rat) else None
            if isinstance(a_, Fn) and a_.name == "call:" + fq("zernikeArray") and a_.args and isinstance(a_.args[0], Rat):
                n0 = a_.args[0].single_atom()
                if (isinstance(n0, Fn) and n0.name in ("len", "shape")) or (isinstance(n0, Sym) and n0.name.startswith("shape(")):
                    return a_.args[0]
            if isinstance(a_, Sym):
                # len(x) and x.shape[0] have one normal form (the interpreter's shape_elem)
                return Interp(ix).shape_elem(x, 0) if "array" in a_.flags else Rat.atom(Fn("len", (x,)))
            return None
        check_equal(rep, "Z6.linear-combination", f.fq + " == sum_z Zs[z]*zCoeffs[z], Zs = zernikeArray(len, size, norm, rot)",
                    canon_iteration_sums(got[0][1], length_of), want,
                    f.where(), what="phase from coefficients")
    # ---------------------------------------------------------------- Z8 gamma matrices
    from . import c12_gammas
    c12_gammas.check(rep, ix, F("makegammas"))
    # ---------------------------------------------------------------- Z9 the mode functions depend on their arguments only
    from ..common import purity_obligations
    purity_obligations(rep, ix, [F(n) for n in ("zernike_noll", "zernike_nm", "zernikeRadialFunc", "zernIndex", "zernikeArray",
                                                "phaseFromZernikes", "makegammas")],
                       "Z9.pure", "the mode returned for (j, N, rot) would depend on which modes were requested before")
    rep.floor("C12 obligations", len(rep.obligations), 30)
