"""C20 - purity: no public function modifies its arguments; no hidden state.

P1  inter-procedural may-mutate analysis (FX): for every public function /
    method and every parameter, no in-place sink is reachable from the
    parameter object or a view of it (directly, via out=, via attribute stores,
    via a repo callee, or later through self.<attr> that aliases a constructor
    argument).
P3  batch clause for the trailing-axes functions (c20_batch.py): nothing on the
    result slice reads a leading axis.
P2  hidden state: no function rebinds or mutates a module-level object, no
    memoisation decorator, no mutated mutable default, no function / class
    attribute used as a store.
"""
import ast

from ..common import get_index, memo_findings, cache_excuse
from ..fx import FX, MEMO_DECORATORS
from ..index import norm_text
from ..report import AnalysisError

LEVEL = "proof"

# positive control: a tiny module that must make the rule fire on every run
CONTROL_SRC = '''
import numpy
_cache = {}
def bad_inplace(a, b):
    v = a.T[1:]
    v -= 1
    numpy.fill_diagonal(b.reshape(3, 3), 0)
    return a
def bad_state(x):
    _cache[x] = 1
    return len(_cache)
def good(a):
    a = a - a.min()
    a[0] = 1
    c = numpy.array(a)
    c += 1
    return c
'''


def control():
    """Run the FX rules on the embedded snippet; returns set of flagged (func, param)."""
    import os
    import shutil
    import tempfile
    from ..index import RepoIndex
    d = tempfile.mkdtemp(prefix="c20ctl_")
    try:
        os.makedirs(os.path.join(d, "aotools"))
        with open(os.path.join(d, "aotools", "__init__.py"), "w") as fh:
            fh.write("from .ctl import *\n")
        with open(os.path.join(d, "aotools", "ctl.py"), "w") as fh:
            fh.write(CONTROL_SRC)
        ix = RepoIndex(d, min_modules=1)
        fx = FX(ix)
        out = set()
        for f in ix.public_functions():
            s = fx.summary(f)
            for p in s.mutates:
                out.add((f.name, p))
            for g in s.global_mut:
                out.add((f.name, "G:" + g))
        return out
    finally:
        shutil.rmtree(d, ignore_errors=True)


def run(rep, tier, root=None):
    ix = get_index(root)
    fx = FX(ix)
    rep.trusted_base += ["numpy view / in-place tables in sa/fx.py (each entry with its reason)",
                         "calls into numpy/scipy/matplotlib/numba that are not in the in-place tables do not modify their arguments"]
    rep.assumptions += ["no exec/eval/getattr-by-string/ctypes in aotools (checked below)",
                        "a parameter documented as int/float/str/bool/tuple or with such a default is an immutable scalar",
                        "batch clause ('stack call = per-item call'): decided for the trailing-axes functions (P3, table in "
                        "c20_batch.py); the ndim-dispatching centroiders are decided by C15 (H2); other functions take single items"]
    rep.explanation = ("May-alias/may-mutate abstract interpretation of every function body with per-branch states and "
                       "loop fixpoints; summaries propagated over the resolved call graph to a fixpoint. One obligation "
                       "per (public function, parameter): the set of in-place sinks reachable from the parameter object "
                       "or any view of it is empty; plus hidden-state obligations per function.")
    rep.rule_text = ("obligation = (public function, parameter) with mutates(p) = {} ; non-trivial = the parameter has at "
                     "least one alias edge, subscript/attribute use or is passed to a repo callee")
    for m in ix.modules.values():
        rep.files_analysed.add(m.relpath)

    # positive control (rules whose clean-tree count is zero must still be able to fire)
    ctl = control()
    need = {("bad_inplace", "a"), ("bad_inplace", "b"), ("bad_state", "G:_cache")}
    if not need <= ctl or any(f == "good" for f, _ in ctl):
        raise AnalysisError("C20 positive control failed: flagged %s" % sorted(ctl))
    rep.extra["positive_control"] = sorted("%s:%s" % x for x in ctl)

    # dynamic-code escape hatches would invalidate the analysis
    for f in ix.all_functions():
        for n in ast.walk(f.node):
            if isinstance(n, ast.Call) and isinstance(n.func, ast.Name) and n.func.id in ("exec", "eval", "setattr", "__import__"):
                rep.unknown("P0.dynamic-code", f.fq, "dynamic construct %s() defeats the static alias analysis" % n.func.id, f.where(n))

    public = ix.public_functions()
    rep.floor("public functions", len(public), 95)
    n_params = 0
    for f in public:
        rep.functions_analysed.add(f.fq)
        s = fx.summary(f)
        ana = None
        params = [p for p in f.params + f.kwonly if not (p == "self" and f.cls is not None)]
        for p in params:
            n_params += 1
            evs = s.mutates.get(p, [])
            if not evs:
                nontriv = _uses_param(f, p)
                rep.ok("P1.no-arg-mutation", "%s(%s)" % (f.fq, p), "no in-place sink reaches the argument", nontriv)
                continue
            seen = set()
            for ev in evs:
                key = "%s(%s): %s" % (f.fq, p, ev.stmt_text()[:120])
                if key in seen:
                    continue
                seen.add(key)
                rep.violation("P1.no-arg-mutation", key,
                              "argument `%s` may be modified in place (%s; origin %s)" % (p, ev.how, "%s(%s)" % ev.origin),
                              ev.where(), {"function": f.fq, "param": p, "sink": ev.stmt_text(), "how": ev.how,
                                           "kind": ev.kind})
        if len(rep.samples) < 12 and params:
            rep.sample({"function": f.fq, "params": params,
                        "mutates": sorted(s.mutates), "returns_alias_of": sorted(s.returns_alias)})
    rep.floor("public parameters", n_params, 250)

    # constructor arguments stored on self and modified by any method of the class
    for mname in sorted(ix.modules):
        m = ix.modules[mname]
        for c in m.classes.values():
            methods = c.all_methods()
            bound = {}      # attr -> set of ctor params it aliases
            init = methods.get("__init__")
            for meth in methods.values():
                sm = fx.summary(meth)
                for a, orgs in sm.attr_bind.items():
                    for o in orgs:
                        if o[0] in ("P", "V") and meth is init:
                            bound.setdefault(a, set()).add(o[1])
            for a, ps in sorted(bound.items()):
                hit = False
                for meth in methods.values():
                    sm = fx.summary(meth)
                    for ev in sm.attr_mut.get(a, []):
                        if ev.kind != "data":
                            continue
                        hit = True
                        rep.violation("P1.ctor-arg-mutation",
                                      "%s.%s: self.%s aliases constructor argument %s: %s"
                                      % (c.fq, meth.name, a, sorted(ps), ev.stmt_text()[:100]),
                                      "constructor argument %s is modified in place later through self.%s (%s)"
                                      % (sorted(ps), a, ev.how), ev.where())
                if not hit:
                    rep.ok("P1.ctor-arg-mutation", "%s: self.%s <- %s" % (c.fq, a, sorted(ps)),
                           "stored constructor argument is never modified in place by any method")

    # P2 hidden state
    for f in ix.all_functions():
        s = fx.summary(f)
        bad = False
        for g, nodes in s.global_rebind.items():
            bad = True
            rep.violation("P2.module-state", "%s: global %s" % (f.fq, g),
                          "function rebinds module-level name `%s`" % g, f.where(nodes[0]))
        for g, evs in s.global_mut.items():
            ev = evs[0]
            why = cache_excuse(ix, f, g)
            if why is None:
                rep.ok("P2.module-state", "%s: %s is a complete-key cache" % (f.fq, g),
                       "keyed stores only, key contains every input of the stored value, stored objects never modified nor handed out")
                continue
            bad = True
            rep.violation("P2.module-state", "%s: mutates module object %s: %s" % (f.fq, g, ev.stmt_text()[:80]),
                          "function modifies module-level object `%s` (%s); %s" % (g, ev.how, why), ev.where())
        for msg, where in memo_findings(ix, f):
            bad = True
            rep.violation("P2.memoisation", "%s: memoised: %s" % (f.fq, msg[:100]), msg, where)
        for p, dflt in f.defaults.items():
            if isinstance(dflt, (ast.List, ast.Dict, ast.Set, ast.Call, ast.ListComp)) and p in s.mutates:
                bad = True
                rep.violation("P2.mutable-default", "%s(%s=%s)" % (f.fq, p, norm_text(dflt)),
                              "mutable default argument is modified in place: state survives between calls", f.where())
        for n in ast.walk(f.node):
            if isinstance(n, (ast.Assign, ast.AugAssign)):
                tg = n.targets if isinstance(n, ast.Assign) else [n.target]
                for t in tg:
                    if isinstance(t, ast.Attribute) and isinstance(t.value, ast.Name) and t.value.id != "self":
                        b = ix.resolve_expr(f.module, t.value, ix.local_names(f))
                        if b is not None and b.kind in ("func", "class", "module"):
                            bad = True
                            rep.violation("P2.attribute-store", "%s: %s" % (f.fq, norm_text(n)[:80]),
                                          "stores state on a %s object" % b.kind, f.where(n))
        # the process-wide random state is hidden state shared by everything: a function that draws from numpy.random.<fn> /
        # random.<fn> returns different results for equal arguments and changes what later callers of the global RNG see
        from .c06 import rng_sites
        _ctor, _glob, _clock = rng_sites(ix, f)
        for n, d in _glob:
            bad = True
            rep.violation("P2.global-rng", "%s: %s" % (f.fq, norm_text(n)[:70]),
                          "%s draws from the process-wide random state: two calls with equal arguments return different results, the "
                          "result depends on what else has drawn from or reseeded the global generator, and the call advances it for "
                          "everybody else (no seed or generator can be passed in)" % d, f.where(n))
        if not bad:
            rep.ok("P2.no-hidden-state", f.fq, "no module/class/function state written, no memoisation, no global random state", False)
    # P2.instance-config: an attribute a constructor sets once and no method ever re-assigns is the object's configuration; a
    # method that modifies it in place (directly or through an alias) makes its own second call start from different state
    n_cls = 0
    for mod_ in ix.modules.values():
        for cls_ in getattr(mod_, "classes", {}).values():
            init_ = cls_.find_method("__init__")
            if init_ is None:
                continue
            n_cls += 1
            cfg = set(fx.summary(init_).attr_writes)
            later_, muts_ = set(), []
            for name_, meth_ in cls_.all_methods().items():
                if meth_ is init_:
                    continue
                sm_ = fx.summary(meth_)
                later_ |= sm_.attr_writes
                for a_, evs_ in sm_.attr_mut.items():
                    muts_ += [(a_, meth_, ev_) for ev_ in evs_ if ev_.kind == "data"]
            # methods the constructor itself runs (set-up steps) may fill what the constructor allocated
            setup_ = set()
            for n_ in ast.walk(init_.node):
                if isinstance(n_, ast.Call) and isinstance(n_.func, ast.Attribute) and isinstance(n_.func.value, ast.Name) and n_.func.value.id == "self":
                    setup_.add(n_.func.attr)
            hits_ = [(a_, m_, ev_) for a_, m_, ev_ in muts_ if a_ in cfg and a_ not in later_ and m_.name not in setup_]
            for a_, m_, ev_ in hits_:
                rep.violation("P2.instance-config", "%s: %s modifies self.%s" % (m_.fq, ev_.stmt_text()[:60], a_),
                              "self.%s is set by the constructor and never re-assigned, and %s modifies it in place (%s): the same call on the "
                              "same object gives a different result the second time" % (a_, m_.name, ev_.how), ev_.where())
            if not hits_:
                rep.ok("P2.instance-config", cls_.fq + ": no method modifies in place what only the constructor assigns", "", False)
    rep.floor("P2 classes with a constructor", n_cls, 3)
    # P3 batch clause for trailing-axes functions
    from . import c20_batch
    nb = c20_batch.check(rep, ix)
    c20_batch.check_dispatch(rep, ix)
    rep.floor("P3 axis-bearing constructs", nb, 30)
    # module-level mutable containers written by functions were covered above; note RNG consumers
    rng_users = sorted(f.fq for f in ix.all_functions() if fx.summary(f).rng_global)
    rep.note("functions consuming NumPy's global random stream (documented randomness, not hidden state): %s" % rng_users)
    alias_ret = sorted("%s->%s" % (f.fq, sorted(fx.summary(f).returns_alias)) for f in public if fx.summary(f).returns_alias)
    rep.note("public functions that may return an alias of an argument: %s" % alias_ret)
    rep.extra["fx_rounds"] = fx.rounds
    rep.extra["public_functions"] = len(public)
    rep.extra["public_parameters"] = n_params


def _uses_param(f, p):
    for n in ast.walk(f.node):
        if isinstance(n, ast.Name) and n.id == p and isinstance(n.ctx, ast.Load):
            return True
    return False
