"""C12.Z8 - gamma (derivative) matrices follow Noll's rules (a)-(d).

The loop bodies of makegammas touch the azimuthal orders and the Noll indices
only through comparisons (m == 0, |m_j - m_i| == 1, m_j == m_i +- 1, parity of the
Noll index).  That makes the entry gam[i, j] a function of a finite abstraction

    (m_i == 0, m_j == 0, parity(i+1), parity(j+1), class of m_j - m_i in {+1, -1, other})

times the symbolic magnitude sqrt((n_i+1)(n_j+1)).  The rule enumerates every
feasible abstract case, evaluates the body's if-chain on it (predicates decided
on the abstract values, assigned expressions normalised by PLF with n symbolic)
and compares the resulting coefficient with Noll (1976):
  (a) magnitude sqrt((n+1)(n'+1)), times sqrt 2 if m = 0 or m' = 0
  (b) parity: d/dx: both m, m' != 0 -> same parity of j, j'; m = 0 -> j' even;
      m' = 0 -> j even.   d/dy: opposite parity; m = 0 -> j' odd; m' = 0 -> j odd
  (c) non-zero only if |m' - m| = 1
  (d) d/dx all positive; d/dy negative iff (m' = m+1 and j odd) or (m' = m-1 and j even),
      both m, m' != 0
(the transcription was cross-checked once, during development, against finite-
difference gradients of the generated modes up to radial order 8).
"""
import ast
import math

from ..common import nf
from ..index import norm_text
from ..interp import Interp, Ctx, State
from ..plf import Rat, Sym, Fn, rpow

SQ2 = math.sqrt(2.0)


def noll_entry(axis, mi, mj, I, J):
    """coefficient of sqrt((n_i+1)(n_j+1)) for row Noll index I (mode differentiated), column J"""
    if abs(mj - mi) != 1:
        return 0.0
    mag = SQ2 if (mi == 0 or mj == 0) else 1.0
    pi, pj = I % 2, J % 2           # 1 = odd Noll index (sine), 0 = even (cosine)
    if axis == "x":
        if mi == 0:
            ok = pj == 0
        elif mj == 0:
            ok = pi == 0
        else:
            ok = pi == pj
        return mag if ok else 0.0
    if mi == 0:
        ok = pj == 1
    elif mj == 0:
        ok = pi == 1
    else:
        ok = pi != pj
    if not ok:
        return 0.0
    sign = 1.0
    if mi != 0 and mj != 0:
        if mj == mi + 1 and pi == 1:
            sign = -1.0
        elif mj == mi - 1 and pi == 0:
            sign = -1.0
    return sign * mag


CASES = []
for (mi, mj) in ((0, 0), (0, 1), (0, 2), (1, 0), (2, 0), (2, 3), (2, 1), (2, 2), (2, 4), (1, 2), (3, 2)):
    for i in (4, 5):
        for j in (2, 3):
            CASES.append((mi, mj, i, j))


class _Unsupported(Exception):
    pass


def ev_pred(e, env):
    """tiny evaluator for the integer / boolean expressions used in the rule conditions"""
    if isinstance(e, ast.Constant) and isinstance(e.value, (int, float, bool)):
        return e.value
    if isinstance(e, ast.Name) and e.id in env:
        return env[e.id]
    if isinstance(e, ast.Subscript) and isinstance(e.value, ast.Name) and e.value.id in env and isinstance(env[e.value.id], dict):
        k = ev_pred(e.slice, env)
        if k in env[e.value.id]:
            return env[e.value.id][k]
        raise _Unsupported("index %s" % norm_text(e))
    if isinstance(e, ast.BinOp):
        a, b = ev_pred(e.left, env), ev_pred(e.right, env)
        if isinstance(e.op, ast.Add):
            return a + b
        if isinstance(e.op, ast.Sub):
            return a - b
        if isinstance(e.op, ast.Mod):
            return a % b
        if isinstance(e.op, ast.Mult):
            return a * b
        raise _Unsupported(norm_text(e))
    if isinstance(e, ast.UnaryOp) and isinstance(e.op, ast.Not):
        return not ev_pred(e.operand, env)
    if isinstance(e, ast.UnaryOp) and isinstance(e.op, ast.USub):
        return -ev_pred(e.operand, env)
    if isinstance(e, ast.BoolOp):
        vals = [ev_pred(v, env) for v in e.values]
        return all(vals) if isinstance(e.op, ast.And) else any(vals)
    if isinstance(e, ast.Compare):
        left = ev_pred(e.left, env)
        for op, c in zip(e.ops, e.comparators):
            right = ev_pred(c, env)
            ok = {ast.Eq: left == right, ast.NotEq: left != right, ast.Lt: left < right, ast.LtE: left <= right,
                  ast.Gt: left > right, ast.GtE: left >= right}.get(type(op))
            if ok is None:
                raise _Unsupported(norm_text(e))
            if not ok:
                return False
            left = right
        return True
    if isinstance(e, ast.Call) and norm_text(e.func) in ("abs", "numpy.abs", "int") and len(e.args) == 1:
        v = ev_pred(e.args[0], env)
        return abs(v) if norm_text(e.func) != "int" else int(v)
    if isinstance(e, ast.Call) and norm_text(e.func) in ("numpy.fmod",) and len(e.args) == 2:
        return ev_pred(e.args[0], env) % ev_pred(e.args[1], env)
    raise _Unsupported(norm_text(e))


def run_body(stmts, env, state, names, iv, jv, interp, f):
    """abstractly execute one inner loop body for one abstract case.  `state` maps matrix names (their [i, j] entry) and
    scalar temporaries to normal forms; conditions are decided by ev_pred on the case."""
    nsym = Rat.sym("n", ("array",))
    ni, nj = Rat.sym("n_i"), Rat.sym("n_j")
    gi = Fn("getitem", (nsym, Rat.const(env["i"])))
    gj = Fn("getitem", (nsym, Rat.const(env["j"])))

    def entry_name(t):
        """matrix name if t is  NAME[iv, jv]"""
        if isinstance(t, ast.Subscript) and isinstance(t.value, ast.Name) and t.value.id in names:
            if norm_text(t.slice).replace(" ", "") in ("%s,%s" % (iv, jv), "(%s,%s)" % (iv, jv)):
                return t.value.id
            raise _Unsupported("store into %s at %s (not the loop's own [%s, %s])" % (t.value.id, norm_text(t.slice), iv, jv))
        return None

    class _Entries(ast.NodeTransformer):
        """reads of NAME[iv, jv] become reads of the abstract entry"""
        def visit_Subscript(self, node):
            if isinstance(node.value, ast.Name) and node.value.id in names and isinstance(node.ctx, ast.Load):
                nm = entry_name(node)
                return ast.copy_location(ast.Name(id="__entry_" + nm, ctx=ast.Load()), node)
            return self.generic_visit(node)

    def value(expr):
        import copy as _copy
        ctx = Ctx(f, None, 0)
        ctx.locals = {"n", "m", "i", "j"} | set(state)
        e2 = _Entries().visit(_copy.deepcopy(expr))
        ast.fix_missing_locations(e2)
        envv = {"n": nsym, iv: Rat.const(env["i"]), jv: Rat.const(env["j"]), "i": Rat.const(env["i"]), "j": Rat.const(env["j"])}
        for k_, v_ in state.items():
            if v_ is not None:
                envv["__entry_" + k_ if k_ in names else k_] = v_
        v = interp.ev(e2, envv, ctx)
        if not isinstance(v, Rat):
            raise _Unsupported("value %s" % norm_text(expr))
        return v.subst(lambda a: ni if a == gi else (nj if a == gj else None))

    def block(sts):
        for st in sts:
            if isinstance(st, ast.If):
                block(st.body if ev_pred(st.test, env) else st.orelse)
            elif isinstance(st, ast.Assign) and len(st.targets) == 1:
                t = st.targets[0]
                nm = entry_name(t)
                if nm is not None:
                    state[nm] = value(st.value)
                elif isinstance(t, ast.Name):
                    # a named predicate / integer of the case (parity flags, index arithmetic) lives with the case, a named
                    # coefficient with the entries
                    try:
                        pv = ev_pred(st.value, env)
                    except _Unsupported:
                        pv = None
                    if isinstance(pv, (bool, int)) and not isinstance(st.value, ast.Constant):
                        env[t.id] = pv
                        state.pop(t.id, None)
                    else:
                        state[t.id] = value(st.value)
                        env.pop(t.id, None)
                else:
                    raise _Unsupported("statement %s" % norm_text(st)[:60])
            elif isinstance(st, ast.AugAssign):
                t = st.target
                nm = entry_name(t) or (t.id if isinstance(t, ast.Name) else None)
                if nm is None or state.get(nm) is None:
                    raise _Unsupported("in-place update of %s before it is assigned" % norm_text(t))
                rhs = value(st.value)
                state[nm] = interp.binop(st.op, state[nm], rhs)
            elif isinstance(st, ast.Pass):
                pass
            elif isinstance(st, ast.Expr) and isinstance(st.value, ast.Constant):
                pass
            else:
                raise _Unsupported("statement %s" % norm_text(st)[:60])
    block(stmts)


def check(rep, ix, f):
    loops = []
    mats = set()
    for n in f.node.body:
        if isinstance(n, ast.For) and len(n.body) == 1 and isinstance(n.body[0], ast.For):
            inner = n.body[0]
            tgts = set()
            for x in ast.walk(inner):
                if isinstance(x, (ast.Assign, ast.AugAssign)):
                    t = x.targets[0] if isinstance(x, ast.Assign) else x.target
                    if isinstance(t, ast.Subscript) and isinstance(t.value, ast.Name):
                        tgts.add(t.value.id)
            if tgts:
                loops.append((n, inner, tgts))
                mats |= tgts
    # which matrix is x and which is y: the function returns array([gamx, gamy])
    ret = [n for n in ast.walk(f.node) if isinstance(n, ast.Return)]
    order = []
    if ret and isinstance(ret[-1].value, ast.Call) and ret[-1].value.args and isinstance(ret[-1].value.args[0], (ast.List, ast.Tuple)):
        order = [norm_text(e) for e in ret[-1].value.args[0].elts]
    if not loops or len(order) != 2 or not set(order) <= mats:
        rep.unknown("Z8.gamma-rules", f.fq, "cannot relate the matrices filled by double loops %s to the returned pair %s" % (sorted(mats), order), f.where())
        return
    interp = Interp(ix)
    S = rpow((Rat.sym("n_i") + 1) * (Rat.sym("n_j") + 1), 0.5)
    covered = {nm: False for nm in order}
    for outer, inner, tg in loops:
        iv, jv = norm_text(outer.target), norm_text(inner.target)
        full = norm_text(outer.iter).replace(" ", "") == "range(nzmax)" and norm_text(inner.iter).replace(" ", "") == "range(%s+1)" % iv
        if not full and tg & set(order):
            rep.violation("Z8.gamma-loops", "%s: loop over %s" % (f.fq, sorted(tg)),
                          "loops are `for %s in %s: for %s in %s`: not all entries j' <= j are visited" % (iv, norm_text(outer.iter), jv, norm_text(inner.iter)),
                          f.where(outer))
        for nm in tg:
            if nm in covered and full:
                covered[nm] = True
    for nm in order:
        rep.check(covered[nm], "Z8.gamma-loops", "%s: gamma-%s filled for all j' <= j" % (f.fq, "x" if order.index(nm) == 0 else "y"),
                  "no double loop over range(nzmax) x range(i+1) assigns %s" % nm, f.where())
    bad = {"x": [], "y": []}
    n_cases = 0
    try:
        for (mi, mj, i, j) in CASES:
            state = {nm: None for nm in mats}
            for outer, inner, tg in loops:
                iv, jv = norm_text(outer.target), norm_text(inner.target)
                env = {"m": {i: mi, j: mj}, "i": i, "j": j, iv: i, jv: j}
                run_body(inner.body, env, state, mats, iv, jv, interp, f)
            n_cases += 1
            for axis, nm in zip(("x", "y"), order):
                v = state.get(nm)
                got = None
                if isinstance(v, Rat):
                    if v.is_zero():
                        got = 0.0
                    else:
                        r = v.ratio_to(S)
                        if r is None:
                            raise _Unsupported("entry %s is not a multiple of sqrt((n_i+1)(n_j+1))" % nf(v, 80))
                        got = complex(r).real
                want = noll_entry(axis, mi, mj, i + 1, j + 1)
                if got is None or abs(got - want) > 1e-9:
                    bad[axis].append((mi, mj, (i + 1) % 2, (j + 1) % 2, got, want))
    except _Unsupported as e:
        rep.unknown("Z8.gamma-rules", f.fq, "rule body uses a construct outside the comparison abstraction: %s" % e, f.where())
        return
    for axis in ("x", "y"):
        if bad[axis]:
            for (mi, mj, pi, pj, got, want) in bad[axis][:6]:
                rep.violation("Z8.gamma-rules", "%s: gamma-%s entry for m=%d, m'=%d, j %s, j' %s" % (f.fq, axis, mi, mj, "odd" if pi else "even", "odd" if pj else "even"),
                              "d/d%s of a mode with m=%d (Noll index %s) on a mode with m'=%d (index %s): the code gives %s x sqrt((n+1)(n'+1)), "
                              "Noll's rules give %s" % (axis, mi, "odd" if pi else "even", mj, "odd" if pj else "even",
                                                       "%.4g" % got if got is not None else "no value", "%.4g" % want), f.where())
        else:
            rep.ok("Z8.gamma-rules", "%s: gamma-%s agrees with Noll's rules on all %d abstract cases" % (f.fq, axis, n_cases))
    rep.sample({"gamma_cases": len(CASES)})
