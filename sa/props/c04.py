"""C04 - infinite phase screen rows follow the exact conditional von Karman law.

Each method of the screen classes is analysed on its own with every self
attribute symbolic and compared with its specification (oracle text evaluated by
the same interpreter); the constructor's call order then composes them:

K1/K2   positions = concat(stencil_positions, X_positions) (stencil first) and the
        covariance blocks zz=[:n,:n] xx=[n:,n:] zx=[:n,n:] xz=[n:,:n], n = n_stencils
K3      A = Cov_xz . inv(Cov_zz)          (cho_solve(cho_factor(M), identity) == inv(M))
K4/K5   B = U . diag(sqrt(w)),  (U, w, _) = svd(Cov_xx - A . Cov_zx)
K6      row = A . Z + B . b,  Z = screen[(coords[:,0], coords[:,1])],  b ~ N(0,1)^nx_size
K7      Fried: row = A . (Z - rho) + B . b + rho with one rho = screen[reference_coord]
K8      X coordinates (-1, arange(nx_size)), positions = coordinates * pixel_scale
        (for X and for the stencil: gather coordinates == covariance coordinates)
K9      separations[i, j] = sqrt((x2-x1)^2 + (y2-y1)^2) in both kernels
K10     Cov = phase_covariance(separations, r0, L0)
K11     von Karman stencil = first n_columns rows
K12     the constructor runs the steps in an order in which every attribute a step
        reads has been assigned before
Lemma (algebra): K3 => A Cov_zz = Cov_xz; K4+K5 => A Cov_zz A^T + B B^T = Cov_xx;
K7 => adding a constant to the screen adds it to the new row.
Not decided: conditioning / Cholesky failure, stationarity as a statistical fact,
that the Fried stencil geometry is Fried's.
"""
import ast

from ..common import get_index, nf, check_equal, same_value, purity_obligations, merged_paths, canon_matrix_forms
from ..index import norm_text
from ..interp import Interp, Obj, has_unknown, unknown_atoms
from ..plf import Rat, Sym, Fn, find_atoms
from ..report import AnalysisError

LEVEL = "other"
MOD = "aotools.turbulence.infinitephasescreen"
TURB = "aotools.turbulence.turb:phase_covariance"
FTS = "aotools.turbulence.phasescreen:ft_phase_screen"

ORACLE = '''
import numpy


def sep(x1, y1, x2, y2):
    return numpy.sqrt((x2 - x1) ** 2 + (y2 - y1) ** 2)
'''


def A(n, *flags):
    return Rat.sym("self." + n, ("attr",) + flags)


def run_method(ix, cls, name, args=(), opaque=(), force=None, presets=None):
    m = cls.find_method(name)
    if m is None:
        raise AnalysisError("%s.%s not found" % (cls.fq, name))
    I = Interp(ix, opaque=set(opaque))
    if force:
        I.force = force
    o = Obj(cls)
    for k, v in (presets or {}).items():
        o.attrs[k] = v
    paths = I.paths(m, list(args), self_obj=o)
    return m, I, o, paths


def row_synthesis_rules(rep, ix, cls, cname, tag, nx):
    """K6 / K7: the new row is A.Z + B.b (Fried: A.(Z - rho) + B.b + rho) with Z the values of the *current* screen at the stencil
    coordinates and b one fresh draw from the instance generator (also run by C05: the recursion has the von Karman covariance as
    its stationary law only if every step reads the rows the previous step produced)"""
    m, I, o, paths = run_method(ix, cls, "get_new_row", presets={"_R": Rat.sym("self._R", ("attr", "rng"))})
    rep.functions_analysed.add(m.fq)
    scr = A("_scrn")
    coords = A("stencil_coords")
    full = ("slice", Rat.const(0), None, None)
    Z = Rat.atom(Fn("getitem", (scr, (Rat.atom(Fn("getitem", (coords, (full, Rat.const(0))))), Rat.atom(Fn("getitem", (coords, (full, Rat.const(1)))))))))
    if len(paths) != 1 or not isinstance(paths[0][2], Rat):
        rep.unknown("K6.row-synthesis", "%s.get_new_row" % tag, "expected one path", m.where())
    else:
        v = _strip_row_shape(paths[0][2], nx)
        draws = find_atoms(v, lambda a: isinstance(a, Fn) and a.name == "draw")
        okd = len(draws) == 1 and draws[0].args[1] == "normal" and same_value(draws[0].args[2], Rat.const(0)) and \
            same_value(draws[0].args[3], Rat.const(1)) and same_value(draws[0].args[4], nx) and \
            same_value(draws[0].args[0], Rat.sym("self._R", ("attr", "rng")))
        rep.check(okd, "K6.innovation", "%s.get_new_row: b = one draw of N(0,1)^nx_size from the instance generator" % tag,
                  "innovation draws: %s" % [repr(d)[:100] for d in draws], m.where())
        if len(draws) == 1:
            b = Rat.atom(draws[0])
            Am, Bm = A("A_mat"), A("B_mat")
            if cname == "PhaseScreenKolmogorov":
                rho = Rat.atom(Fn("getitem", (scr, A("reference_coord"))))
                want = Rat.atom(Fn("dot", (Am, Z - rho))) + Rat.atom(Fn("dot", (Bm, b))) + rho
                check_equal(rep, "K7.fried-row", "%s.get_new_row == A.(Z - rho) + B.b + rho, rho = screen[reference_coord]" % tag, v, want,
                            m.where(), what="new row")
            else:
                want = Rat.atom(Fn("dot", (Am, Z))) + Rat.atom(Fn("dot", (Bm, b)))
                check_equal(rep, "K6.row-synthesis", "%s.get_new_row == A.Z + B.b, Z = screen[(coords[:,0], coords[:,1])]" % tag, v, want,
                            m.where(), what="new row")
            rep.sample({"class": tag, "new_row": nf(v, 400)})



def run(rep, tier, root=None):
    ix = get_index(root)
    om = ix.virtual("_oracle_c04", ORACLE)
    rep.trusted_base += ["scipy.linalg.cho_solve(cho_factor(M), I) = M^-1; numpy.linalg.svd of a symmetric PSD matrix gives U diag(w) U^T",
                         "algebra lemma of the docstring / Assemat & Wilson (2006): A = Cxz Czz^-1, B B^T = Cxx - A Czx"]
    rep.assumptions += ["construction succeeds (Cholesky); constants of phase_covariance are C08's subject"]
    rep.explanation = ("Every method of PhaseScreen / PhaseScreenVonKarman / PhaseScreenKolmogorov is reduced to the normal forms of the "
                       "attributes it assigns, with all attributes it reads symbolic, and compared with its specification; the order of "
                       "the steps in each constructor is checked against their read/write sets, so that the identities compose.")
    rep.rule_text = "K1..K12, one obligation per (rule, concrete class, method)"
    mod = ix.module(MOD)
    rep.files_analysed.add(mod.relpath)
    nx = A("nx_size", "int")
    ps = A("pixel_scale")

    for cname in ("PhaseScreenVonKarman", "PhaseScreenKolmogorov"):
        cls = ix.cls(MOD, cname)
        tag = cls.fq

        def M(name):
            m = cls.find_method(name)
            if m is None:
                raise AnalysisError("%s.%s missing" % (tag, name))
            rep.functions_analysed.add(m.fq)
            return m

        # ---- K8 X coordinates
        m, I, o, paths = run_method(ix, cls, "set_X_coords")
        rep.functions_analysed.add(m.fq)
        xc, xp = o.attrs.get("X_coords"), o.attrs.get("X_positions")
        zero = Rat.const(0)
        full = ("slice", Rat.const(0), None, None)
        from ..elem import element
        kk = Rat.sym("k", ("int", "loopvar"))
        e0 = element(xc, (kk, Rat.const(0))) if isinstance(xc, Rat) else None
        e1 = element(xc, (kk, Rat.const(1))) if isinstance(xc, Rat) else None
        if xc is not None and (e0 is None or e1 is None):
            rep.unknown("K8.new-row-coordinates", "%s.set_X_coords" % tag, "cannot read the coordinate table element-wise: %s" % nf(xc, 160), m.where())
        else:
            okx = xc is not None and same_value(e0, Rat.const(-1)) and same_value(e1, kk)
            rep.check(okx, "K8.new-row-coordinates", "%s.set_X_coords: X[k] = (-1, k)" % tag,
                      "new-row coordinates are X[k] = (%s, %s) (expected row -1, column k): the new row is not placed directly before row 0"
                      % (nf(e0, 80), nf(e1, 80)), m.where())
        # the table has nx_size rows: allocated so, or stacked from columns of that length
        allocs = [c for c in I.call_log if c[0] == m.fq and c[1].split(".")[-1] in ("zeros", "empty")]
        rows_ok = len(allocs) == 1 and same_value(allocs[0][2][0], (nx, Rat.const(2)))
        if not allocs and isinstance(xc, Rat):
            cs = find_atoms(xc, lambda a: isinstance(a, Fn) and a.name == "column_stack")
            ar = find_atoms(xc, lambda a: isinstance(a, Fn) and a.name == "arange")
            rows_ok = len(cs) == 1 and len(cs[0].args[0]) == 2 and len(ar) == 1 and same_value(ar[0].args, (Rat.const(0), nx, Rat.const(1)))
        if not allocs and not (isinstance(xc, Rat) and find_atoms(xc, lambda a: isinstance(a, Fn) and a.name == "column_stack")):
            allocs = [(a_[0], a_[1], a_[2]) for a_ in I.alloc_log if a_[0] == m.fq and a_[1].split(".")[-1] in ("full", "ones", "zeros", "empty")]
            rows_ok = len(allocs) == 1 and bool(allocs[0][2]) and same_value(allocs[0][2][0], (nx, Rat.const(2)))
        if not allocs and not (isinstance(xc, Rat) and find_atoms(xc, lambda a: isinstance(a, Fn) and a.name == "column_stack")):
            # neither an allocation nor a stack of columns: the construction of the table is not one the rule can read
            rep.unknown("K8.new-row-coordinates", "%s.set_X_coords: coordinate table has shape (nx_size, 2)" % tag,
                        "the table is neither allocated by zeros / empty nor stacked from columns: %s" % nf(xc, 160), m.where())
        else:
            rep.check(rows_ok, "K8.new-row-coordinates",
                      "%s.set_X_coords: coordinate table has shape (nx_size, 2)" % tag, "allocation %s" % [nf(c[2][0]) for c in allocs], m.where())
        rep.check(xp is not None and xc is not None and same_value(xp, xc * ps), "K8.positions-scaled",
                  "%s.set_X_coords: X_positions = X_coords * pixel_scale" % tag, "X_positions = %s" % nf(xp, 160), m.where())

        # ---- K8/K11 stencil coordinates
        m, I, o, paths = run_method(ix, cls, "set_stencil_coords")
        rep.functions_analysed.add(m.fq)
        sc, sp, ns, stn = (o.attrs.get(k) for k in ("stencil_coords", "stencil_positions", "n_stencils", "stencil"))
        ok = sc is not None and stn is not None and same_value(canon_matrix_forms(sc), canon_matrix_forms(_where_T(stn)))
        rep.check(ok, "K8.stencil-coordinates", "%s.set_stencil_coords: coords = array(where(stencil == 1)).T" % tag,
                  "stencil_coords = %s" % nf(sc, 200), m.where())
        rep.check(sp is not None and sc is not None and same_value(sp, sc * ps), "K8.positions-scaled",
                  "%s.set_stencil_coords: stencil_positions = stencil_coords * pixel_scale" % tag,
                  "stencil_positions = %s: the covariances are computed for other points than the ones gathered from the screen" % nf(sp, 200),
                  m.where())
        rep.check(ns is not None and sc is not None and (same_value(ns, Rat.atom(Fn("len", (sc,)))) or same_value(ns, Rat.atom(Fn("shape", (sc, 0))))), "K1.block-size",
                  "%s.set_stencil_coords: n_stencils = len(stencil_coords)" % tag, "n_stencils = %s" % nf(ns, 120), m.where())
        if cname == "PhaseScreenVonKarman":
            want_st = Rat.atom(Fn("setitem", (Rat.const(0), ("slice", Rat.const(0), A("n_columns", "int"), None), Rat.const(1))))
            al = [c for c in I.call_log if c[0] == m.fq and c[1].split(".")[-1] == "zeros"]
            rep.check(stn is not None and same_value(canon_matrix_forms(stn), want_st) and len(al) == 1 and
                      same_value(al[0][2][0], (A("stencil_length", "int"), nx)), "K11.vk-stencil",
                      "%s: stencil = first n_columns rows of a (stencil_length, nx_size) grid" % tag,
                      "stencil = %s on %s" % (nf(stn, 120), [nf(c[2][0]) for c in al]), m.where())

        # ---- K2/K9 separations (both kernels)
        for force, label in ((None, "numba kernel"), ({"numba": False}, "python fallback")):
            m, I, o, paths = run_method(ix, cls, "calc_seperations", force=force)
            rep.functions_analysed.add(m.fq)
            # the separations are square roots: the array that receives them must be floating whatever the dtype of the
            # coordinates (integer pixel scales give integer position arrays)
            for c_ in I.call_log:
                if c_[0] == m.fq and c_[1].split(".")[-1] in ("zeros", "empty", "ones", "full", "zeros_like", "empty_like"):
                    dt = c_[3].get("dtype") if isinstance(c_[3], dict) else None
                    if dt is None and c_[1].split(".")[-1] not in ("zeros_like", "empty_like"):
                        rep.ok("K9.allocation-dtype", "%s.calc_seperations[%s]: separation matrix is float64 by default" % (tag, label))
                    else:
                        from .c14 import _is_float_dtype
                        rep.check(dt is not None and _is_float_dtype(dt), "K9.allocation-dtype",
                                  "%s.calc_seperations[%s]: separation matrix has a floating dtype" % (tag, label),
                                  "the separation matrix is allocated with dtype %s: with integer coordinates (integer pixel_scale) the "
                                  "distances sqrt(2), sqrt(5), ... are truncated and the covariances are evaluated at wrong separations"
                                  % (nf(dt, 60) if isinstance(dt, Rat) else dt,), m.where())
            st = [s for s in I.store_log if s[1] in ("seperations", "self.seperations") and s[5] == "="]
            want_pos = Rat.atom(Fn("concat", ((A("stencil_positions"), A("X_positions")), 0)))
            if len(st) != 1 or not isinstance(st[0][2], tuple) or len(st[0][2]) != 2:
                rep.unknown("K9.separations", "%s.calc_seperations[%s]" % (tag, label), "expected one store into the separation matrix", m.where())
                continue
            idx, val = st[0][2], st[0][3]
            lps = [l for l in I.loop_log if l[0] in (m.fq, MOD + ":calc_seperations_fast")]
            # element accessors of positions[i], positions[j]
            pos_atoms = find_atoms(val, lambda a: isinstance(a, Fn) and a.name == "concat")
            rep.check(len(pos_atoms) >= 1 and all(same_value(Rat.atom(a), want_pos) for a in pos_atoms), "K2.stencil-then-new-row",
                      "%s.calc_seperations[%s]: positions = [stencil ; X]" % (tag, label),
                      "positions are %s: the block cuts zz/xx/zx/xz assume the stencil points first" % [repr(a)[:100] for a in pos_atoms], m.where())
            P = Rat.sym("P", ("array",))
            v2 = val.subst(lambda a: P if (isinstance(a, Fn) and a.name == "concat") else None)
            i_, j_ = idx
            i2 = i_.subst(lambda a: P if (isinstance(a, Fn) and a.name == "concat") else None) if isinstance(i_, Rat) else i_
            j2 = j_.subst(lambda a: P if (isinstance(a, Fn) and a.name == "concat") else None) if isinstance(j_, Rat) else j_
            e = lambda k, c: Rat.atom(Fn("getitem", (Rat.atom(Fn("getitem", (P, k))), Rat.const(c))))
            ia, ja = _index_of(i2), _index_of(j2)
            fo = ix.func(om.name, "sep")
            want = Interp(ix).returns(fo, [e(ia, 0), e(ia, 1), e(ja, 0), e(ja, 1)])[0][1] if ia is not None and ja is not None else None
            rep.check(want is not None and same_value(v2, want), "K9.separations",
                      "%s.calc_seperations[%s]: s[i, j] = sqrt((x_j - x_i)^2 + (y_j - y_i)^2)" % (tag, label),
                      "separation stored at %s is %s" % (nf(idx, 80), nf(v2, 200)), m.where())

        # ---- K1/K10 covariance blocks
        m, I, o, paths = run_method(ix, cls, "make_covmats", opaque={TURB})
        rep.functions_analysed.add(m.fq)
        n = A("n_stencils", "int")
        cm = o.attrs.get("cov_mat")
        want_cm = Rat.atom(Fn("call:" + TURB, (A("seperations"), A("r0"), A("L0"))))
        rep.check(cm is not None and same_value(cm, want_cm), "K10.covariance", "%s.make_covmats: phase_covariance(separations, r0, L0)" % tag,
                  "covariance matrix is %s" % nf(cm, 200), m.where())
        lo = lambda: ("slice", Rat.const(0), n, None)
        hi = lambda: ("slice", n, None, None)
        for attr, idx_, what in (("cov_mat_zz", (lo(), lo()), "[:n, :n]"), ("cov_mat_xx", (hi(), hi()), "[n:, n:]"),
                                 ("cov_mat_zx", (lo(), hi()), "[:n, n:]"), ("cov_mat_xz", (hi(), lo()), "[n:, :n]")):
            got = o.attrs.get(attr)
            want = Rat.atom(Fn("getitem", (cm, idx_))) if cm is not None else None
            rep.check(got is not None and want is not None and same_value(got, want), "K1.blocks", "%s.make_covmats: %s = cov%s" % (tag, attr, what),
                      "%s = %s" % (attr, nf(got, 160)), m.where())

        # ---- K3 A matrix
        m, I, o, paths = run_method(ix, cls, "makeAMatrix")
        rep.functions_analysed.add(m.fq)
        a_ = o.attrs.get("A_mat")
        want = Rat.atom(Fn("dot", (A("cov_mat_xz"), Rat.atom(Fn("inv", (A("cov_mat_zz"),))))))
        rep.check(a_ is not None and same_value(a_, want), "K3.A-matrix",
                  "%s.makeAMatrix: A = Cov_xz . inv(Cov_zz) on every path that does not raise" % tag,
                  "A = %s: only the exact inverse gives A Cov_zz = Cov_xz (a pseudo-inverse / regularised fallback of an ill-conditioned "
                  "Cov_zz does not, and the row recursion built from it is unstable)" % nf(a_, 260), m.where())

        # ---- K4/K5 B matrix
        m, I, o, paths = run_method(ix, cls, "makeBMatrix")
        rep.functions_analysed.add(m.fq)
        b_ = o.attrs.get("B_mat")
        bbt = A("cov_mat_xx") - Rat.atom(Fn("dot", (A("A_mat"), A("cov_mat_zx"))))
        want = Rat.atom(Fn("dot", (Rat.atom(Fn("svd_u", (bbt,))), Rat.atom(Fn("diagmat", (Rat.atom(Fn("svd_w", (bbt,))) ** 0.5,))))))
        b_ = canon_matrix_forms(b_) if b_ is not None else None
        rep.check(b_ is not None and same_value(b_, want), "K5.B-matrix", "%s.makeBMatrix: B = U . diag(sqrt(w)), svd(Cov_xx - A . Cov_zx)" % tag,
                  "B = %s" % nf(b_, 260), m.where(), detail={"expected": nf(want, 260)})
        al = [c for c in I.call_log if c[0] == m.fq and c[1].split(".")[-1] == "zeros"]
        # only where the diagonal factor is built in an allocated square array does its size need checking
        rep.check(not al or (len(al) == 1 and same_value(al[0][2][0], (nx, nx))), "K5.B-matrix", "%s.makeBMatrix: diagonal matrix is nx_size x nx_size" % tag,
                  "diagonal factor allocated as %s" % [nf(c[2][0]) for c in al], m.where())

        row_synthesis_rules(rep, ix, cls, cname, tag, nx)

        # ---- K12 constructor order
        init = M("__init__")
        order_rule(rep, ix, cls, init)
    # ---- K10 the covariance function itself is the von Karman law on every path (constants: C08)
    from .c08 import NOT_POINTWISE
    fpc = ix.func("aotools.turbulence.turb", "phase_covariance")
    rep.functions_analysed.add(fpc.fq)
    rr, r0_, L0_ = Rat.sym("r", ("array",)), Rat.sym("r0"), Rat.sym("L0")
    cv = merged_paths(Interp(ix), fpc, [rr, r0_, L0_])
    if not isinstance(cv, Rat) or has_unknown(cv):
        rep.unknown("K10.covariance-law", fpc.fq, "cannot normalise the covariance function", fpc.where())
    else:
        npw = [a for a in cv.atoms() if isinstance(a, Fn) and a.name in NOT_POINTWISE]
        st = cv.single_term()
        kvs = [a for a, e in (st[1] if st else ()) if isinstance(a, Fn) and a.name == "kv"]
        rep.check(not npw and st is not None and len(kvs) == 1, "K10.covariance-law",
                  fpc.fq + ": one elementwise closed form k (L0/r0)^(5/3) x^(5/6) K_5/6(x) for every separation",
                  "the covariance is not a single elementwise Bessel law for all separations (%s): the stencil and the new row can span "
                  "separations on which Cov is then not the von Karman covariance" % (sorted(set(a.name for a in npw)) or nf(cv, 200)), fpc.where())
    # ... at the true separations: evaluated in double precision.  A and B come from differences C(0) - C(r) of nearly
    # equal covariances; a single-precision covariance makes them wrong by per cents for pixel_scale << L0 and the row
    # recursion unstable (the Cholesky test on Cov_zz still passes)
    from ..common import narrowing_casts
    nc_ = narrowing_casts(fpc)
    for node_, text_ in nc_:
        rep.violation("K10.precision", "%s: %s" % (fpc.fq, text_),
                      "%s: the covariance handed to make_covmats has single precision, so A Cov_zz = Cov_xz and A Cov_zz A^T + B B^T = Cov_xx "
                      "hold for a perturbed covariance only (relative error of the innovation variance up to 14 %% at pixel_scale/L0 = 5e-5), "
                      "B B^T can be indefinite and the extruded screen diverges" % text_, fpc.where(node_))
    if not nc_:
        rep.ok("K10.precision", fpc.fq + ": the covariance is evaluated in double precision")
    # ---- K14 the innovation is independent of the existing screen: one generator stream per instance
    fps = ix.func("aotools.turbulence.phasescreen", "ft_phase_screen")
    spos = fps.params.index("seed") if "seed" in fps.params else None
    for cname in ("PhaseScreenVonKarman", "PhaseScreenKolmogorov"):
        cls = ix.cls(MOD, cname)
        m, I_, o, paths = run_method(ix, cls, "make_initial_screen", opaque={fps.fq})
        R = o.attrs.get("_R")
        scr = o.attrs.get("_scrn")
        calls = find_atoms(scr, lambda a: isinstance(a, Fn) and a.name == "call:" + fps.fq) if isinstance(scr, Rat) else []
        if spos is None or len(calls) != 1 or R is None:
            rep.unknown("K14.independent-innovation", cls.fq + ".make_initial_screen", "cannot find the generator / the call that draws the initial screen", m.where())
            continue
        arg = calls[0].args[spos]
        seed_atom = A("random_seed")
        raw = isinstance(arg, Rat) and not same_value(arg, R) and seed_atom.single_atom() in arg.atoms(True)
        rep.check(not raw, "K14.independent-innovation", cls.fq + ": initial screen and innovations come from one generator stream",
                  "the initial screen is drawn by a second generator built from the same seed (%s) as the instance generator that draws the "
                  "innovations: both produce the same numbers, so the new rows are correlated with the screen they extend" % nf(arg, 80), m.where())
    # ---- K13 every instance builds its matrices from its own parameters only
    funcs = [f for f in mod.all_functions()]
    purity_obligations(rep, ix, funcs + [fpc], "K13.no-shared-state",
                       "matrices of one screen depend on screens constructed earlier in the process",
                       internal_out_params={(MOD + ":calc_seperations_fast", "seperations")})
    rep.floor("C04 obligations", len(rep.obligations), 40)


def _strip_row_shape(v, nx):
    """the row is returned with shape (1, nx_size): `x.shape = (1, nx)` (metadata store) and `x.reshape(1, nx)` are the same value"""
    a = v.single_atom() if isinstance(v, Rat) else None
    if isinstance(a, Fn) and a.name == "reshape" and isinstance(a.args[0], Rat):
        shp = a.args[1:] if len(a.args) == 3 else (a.args[1] if len(a.args) == 2 and isinstance(a.args[1], tuple) else None)
        if shp is not None and len(shp) == 2 and same_value(tuple(shp), (Rat.const(1), nx)):
            return a.args[0]
    # x[numpy.newaxis, :] of the vector x: the same (1, len(x)) row
    if isinstance(a, Fn) and a.name == "getitem" and isinstance(a.args[0], Rat) and isinstance(a.args[1], tuple) and len(a.args[1]) == 2 \
            and a.args[1][0] is None and _full_slice(a.args[1][1]):
        return a.args[0]
    if isinstance(a, Fn) and a.name == "grid" and len(a.args) == 2 and isinstance(a.args[0], Rat) and a.args[1] == 1:
        return a.args[0]
    return v


def _full_slice(x):
    return isinstance(x, tuple) and len(x) == 4 and x[0] == "slice" and x[2] is None and x[3] is None and \
        (x[1] is None or (isinstance(x[1], Rat) and x[1].is_zero()))


def _where_T(stencil):
    from ..interp import mk_cmp, mk_T
    return mk_T(Rat.atom(Fn("where1", (mk_cmp("==", stencil, Rat.const(1)),))))


def _index_of(v):
    """i of an index expression: plain loop symbol, or getitem(range-like, i)"""
    if not isinstance(v, Rat):
        return None
    a = v.single_atom()
    if isinstance(a, Sym):
        return v
    return v


def order_rule(rep, ix, cls, init):
    """every attribute read by a construction step was assigned by an earlier step (or by __init__ itself)"""
    from ..fx import FX
    fx = _FX.get(id(ix))
    if fx is None:
        fx = _FX[id(ix)] = FX(ix)
    assigned = set()
    ok = True
    for st in init.node.body:
        calls = [n for n in ast.walk(st) if isinstance(n, ast.Call) and isinstance(n.func, ast.Attribute) and
                 isinstance(n.func.value, ast.Name) and n.func.value.id == "self"]
        if isinstance(st, ast.Assign):
            for t in st.targets:
                if isinstance(t, ast.Attribute) and isinstance(t.value, ast.Name) and t.value.id == "self":
                    # reads on the right-hand side
                    for n in ast.walk(st.value):
                        if isinstance(n, ast.Attribute) and isinstance(n.value, ast.Name) and n.value.id == "self" and \
                                n.attr not in assigned and cls.find_method(n.attr) is None:
                            ok = False
                            rep.violation("K12.construction-order", "%s: self.%s read before assignment" % (init.fq, n.attr),
                                          "constructor reads self.%s in `%s` before assigning it" % (n.attr, norm_text(st)[:60]), init.where(st))
                    assigned.add(t.attr)
        for c in calls:
            m = cls.find_method(c.func.attr)
            if m is None:
                continue
            s = fx.summary(m)
            props = set(n for n, mm in cls.all_methods().items())
            missing = sorted(a for a in s.attr_reads if a not in assigned and a not in s.attr_writes and a not in props)
            # attributes both read and written by the step: must be written first inside the step (checked by per-method rules)
            for a in missing:
                ok = False
                rep.violation("K12.construction-order", "%s: step %s reads self.%s before any step assigns it" % (init.fq, m.name, a),
                              "construction step %s() uses self.%s, which no earlier step has assigned: the matrices are built from "
                              "stale or missing data" % (m.name, a), init.where(c))
            assigned |= s.attr_writes
    if ok:
        rep.ok("K12.construction-order", "%s: every construction step reads only attributes assigned by earlier steps" % init.fq)


_FX = {}
