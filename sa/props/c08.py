"""C08 - all closed-form turbulence statistics describe one von Karman model.

Constant and exponent identities between the normal forms of
  phase_covariance (turb.py), structure_function_vk / _kolmogorov
  (slopecovariance.py), stf_vonKarman / stf_kolmogorov (karhunenLoeve.py) and the
  PSD used by the screen generators (phasescreen.py).
Two textbook identities are trusted: x^v K_v(x) -> 2^(v-1) Gamma(v) as x -> 0 with
next term -Gamma(1-v) x^(2v) / (v 2^(v+1)), and the Kolmogorov constant
2 [(24/5) Gamma(6/5)]^(5/6).
"""
import math
from fractions import Fraction as Fr

from ..common import get_index, nf, check_equal, check_degree, same_value, const_close, merged_paths, purity_obligations
from ..interp import Interp, has_unknown
from ..plf import Rat, Sym, Fn, PowA, find_atoms, rpow
from ..report import AnalysisError

LEVEL = "other"
NU = Fr(5, 6)
G = math.gamma
KOLM = 2 * ((24. / 5) * G(6. / 5)) ** (5. / 6)          # 6.88387...
PSD_CONST = G(11. / 6) ** 2 / (2 * math.pi ** (11. / 3)) * ((24. / 5) * G(6. / 5)) ** (5. / 6)     # 0.0228956
# per-identity tolerances for *published* (rounded) constants; measured gaps in DESIGN.md section 2.3
TOL_688 = 1e-3
TOL_023 = 2.5e-2
TOL_EXACT = 1e-12


NOT_POINTWISE = {"paths", "setitem", "triu_indices", "tril_indices", "triu", "tril", "T", "flipud", "fliplr", "flip", "roll",
                 "sort", "loopstore", "loopfinal", "take", "diag_indices", "where3"}


def split_vk(v, sep, what):
    """v = c0*M0 + cK*kv(nu, arg)*MK  ->  dict or error string."""
    t = v.terms()
    if t is None or len(t) != 2:
        return "%s is not of the form a - b*K_v(x): %s" % (what, nf(v, 160))
    const, bess = None, None
    for c, m in t:
        ks = [(a, e) for a, e in m if isinstance(a, Fn) and a.name == "kv"]
        if ks:
            if len(ks) != 1 or ks[0][1] != 1:
                return "Bessel factor is not K_v to the first power"
            bess = (c, tuple(x for x in m if x[0] != ks[0][0]), ks[0][0])
        else:
            const = (c, m)
    if const is None or bess is None:
        return "%s lacks a constant or a Bessel term" % what
    return {"c0": const[0], "m0": Rat({const[1]: 1.0}), "cK": bess[0], "mK": Rat({bess[1]: 1.0}), "kv": bess[2]}


def kv_params(kv_atom, sep, L0):
    """order and a with arg = a * sep / L0"""
    order = kv_atom.args[0].as_fraction() if isinstance(kv_atom.args[0], Rat) else None
    arg = kv_atom.args[1]
    a = (arg * L0 / sep).const_value() if isinstance(arg, Rat) else None
    return order, a


def small_x_limit(cK, mK, a, sep, L0):
    """limit sep->0 of cK*mK*kv(nu, a*sep/L0) when mK ~ sep^nu: cK*mK/sep^nu * (a/L0)^-nu * 2^(nu-1)*Gamma(nu)"""
    rest = mK / rpow(sep, NU)
    if rest.depends_on(sep.single_atom()):
        return None
    return rest * rpow(Rat.const(a) / L0, -NU) * (cK * 2 ** (float(NU) - 1) * G(float(NU)))


def run(rep, tier, root=None):
    ix = get_index(root)
    I = Interp(ix)
    rep.trusted_base += ["lim x^v K_v(x) = 2^(v-1) Gamma(v); next term -Gamma(1-v) x^(2v)/(v 2^(v+1)) (Abramowitz & Stegun 9.6)",
                         "Kolmogorov structure constant 2[(24/5)Gamma(6/5)]^(5/6); PSD constant Gamma(11/6)^2/(2 pi^(11/3)) * (same)^(1)"]
    rep.assumptions += ["published constants (0.17253, 0.0863, 6.88, 0.023) are compared to their closed forms with per-identity "
                        "tolerances 1e-3 / 2.5e-2 as the property says 'to the rounding of the published constants'",
                        "monotonicity, positive semi-definiteness and the Hankel integral itself are not decided"]
    rep.explanation = ("The closed forms are normalised to c*prod(sym^q)*K_v(a*r/L0) terms; the identities D = 2(C(0)-C(r)), D(0)=0, "
                       "saturation, Kolmogorov limit, r0^(-5/3) scaling and agreement of the copies become equalities between "
                       "coefficients, exponents and Bessel parameters of those normal forms - for all r, r0, L0.")
    rep.rule_text = "V1..V7, one obligation per identity"
    r, r0, L0 = Rat.sym("r"), Rat.sym("r0"), Rat.sym("L0")

    def F(mod, name):
        f = ix.func(mod, name)
        rep.functions_analysed.add(f.fq)
        rep.files_analysed.add(f.module.relpath)
        return f

    from ..common import origin_guard
    at_origin = {}          # function -> how it is made evaluable at r = 0: ("guard", value) / ("epsilon", shift) / None

    def one(f, args):
        n_eps = len(I.eps_guards)
        v = merged_paths(I, f, args)
        if not isinstance(v, Rat):
            raise AnalysisError("%s: does not return an arithmetic value" % f.fq)
        away, v0 = origin_guard(v, args[0])
        if v0 is not None:
            at_origin[f.fq] = ("guard", v0)
            return away
        at_origin[f.fq] = ("epsilon", I.eps_guards[n_eps]) if len(I.eps_guards) > n_eps else None
        return v

    fC = F("aotools.turbulence.turb", "phase_covariance")
    fD = F("aotools.turbulence.slopecovariance", "structure_function_vk")
    fK = F("aotools.turbulence.slopecovariance", "structure_function_kolmogorov")
    fKL = F("aotools.functions.karhunenLoeve", "stf_vonKarman")
    fKK = F("aotools.functions.karhunenLoeve", "stf_kolmogorov")
    C = one(fC, [r, r0, L0])
    D = one(fD, [r, r0, L0])
    Dk = one(fK, [r, r0])
    Dkl = one(fKL, [r, L0])
    Dkk = one(fKK, [r])
    # the value for a separation must not depend on the dtype the separations are passed in
    from ..common import result_dtype_hazards
    for f in (fC, fD, fK, fKL, fKK):
        hz = result_dtype_hazards(f, [f.params[0]])
        for node, text in hz:
            rep.violation("V0.result-dtype", "%s: %s" % (f.fq, text[:70]),
                          "%s - separations given as integers (numpy.arange, whole-number lists) give a structure function / covariance "
                          "truncated to integers, which no longer equals the other copy of the law" % text, f.where(node))
        if not hz:
            rep.ok("V0.result-dtype", f.fq + ": result dtype does not follow an integer argument")
    # ... nor on a precision below the double precision of the argument: D = 2 (C(0) - C(r)) is a difference of nearly equal
    # numbers for r << L0
    from ..common import narrowing_casts
    for f in (fC, fD, fK, fKL, fKK):
        nc = narrowing_casts(f)
        for node, text in nc:
            rep.violation("V0.precision", "%s: %s" % (f.fq, text),
                          "%s narrows the computation to single precision: every value carries a relative error of about 1e-7 of the "
                          "variance, which is the size of C(0) - C(r) for separations much smaller than the outer scale - 2 (C(0) - C(r)) "
                          "is 0 or a few per cent off there, covariance matrices of finely sampled points are indefinite" % text, f.where(node))
        if not nc:
            rep.ok("V0.precision", f.fq + ": evaluated in the precision of its argument (no narrowing cast)")
    # the covariance form is the one that is differenced (D = 2 (C(0) - C(r)), B B^T = C_xx - A C_zx): its separations must be
    # promoted to double precision whatever they are passed as, or a float32 array of separations gives the float32 law
    from ..common import promoted_to_double
    okp, nodep, textp = promoted_to_double(fC, fC.params[0])
    rep.check(okp, "V0.precision", fC.fq + ": the separations are promoted to double precision before use",
              "the first use of `%s` is `%s`: float32 (or float16) separations are evaluated in their own precision - the covariance then "
              "differs by 1e-7 relative from the double-precision law, 2 (C(0) - C(r)) is several per cent to 100%% off for small r and "
              "not monotone, and 1e-40 is a float32 denormal (C(0) = nan for large L0)" % (fC.params[0], textp), fC.where(nodep) if nodep is not None else fC.where())
    for f, v in ((fC, C), (fD, D), (fK, Dk), (fKL, Dkl), (fKK, Dkk)):
        rep.sample({"function": f.fq, "normal_form": nf(v)})
        if has_unknown(v):
            rep.unknown("V0.normal-form", f.fq, "unrecognised constructs in %s" % nf(v, 200), f.where())
            return
        npw = [a for a in v.atoms() if isinstance(a, Fn) and a.name in NOT_POINTWISE]
        if npw:
            rep.violation("V0.pointwise", f.fq + ": one elementwise law for every input",
                          "the closed form is not an elementwise function of the separations: it branches on the shape of its input or "
                          "rearranges elements (%s), so the value for a separation depends on where it sits in the array"
                          % sorted(set(a.name for a in npw)), f.where(), {"normal_form": nf(v, 600)})
            return
        rep.ok("V0.normal-form", f.fq, nf(v, 150))

    # ---- phase covariance: single Bessel term
    st = C.single_term()
    kC = None
    if st is None:
        rep.violation("V1.covariance-form", fC.fq, "phase covariance is not k*(L0/r0)^(5/3)*x^(5/6)*K_5/6(x): %s" % nf(C, 200), fC.where())
    else:
        cC, mC = st
        kvs = [a for a, e in mC if isinstance(a, Fn) and a.name == "kv"]
        if len(kvs) != 1:
            rep.violation("V1.covariance-form", fC.fq, "expected exactly one Bessel factor", fC.where())
        else:
            order, a = kv_params(kvs[0], r, L0)
            restC = Rat({tuple(x for x in mC if x[0] != kvs[0]): 1.0})
            want = rpow(L0, Fr(5, 6)) * rpow(r, Fr(5, 6)) * rpow(r0, Fr(-5, 3))
            ok = order == NU and a is not None and const_close(a, 2 * math.pi, TOL_EXACT) and restC.equals(want)
            rep.check(ok, "V1.covariance-form", fC.fq + ": k * L0^(5/6) r^(5/6) r0^(-5/3) K_5/6(2 pi r/L0)",
                      "phase covariance has Bessel order %s, argument factor %s, monomial %s" % (order, a, nf(restC)), fC.where())
            if ok:
                kC = complex(cC).real / (2 * math.pi) ** (5. / 6)       # coefficient of (L0/r0)^(5/3) x^(5/6) K(x)
                B = (2 ** (-5. / 6)) * G(11. / 6) / math.pi ** (8. / 3) * ((24. / 5) * G(6. / 5)) ** (5. / 6)
                rep.check(const_close(kC, B, TOL_EXACT), "V1.covariance-constant",
                          fC.fq + ": 2^(-5/6) Gamma(11/6) pi^(-8/3) [(24/5)Gamma(6/5)]^(5/6)",
                          "covariance constant is %.9g, Assemat & Wilson eq.5 gives %.9g" % (kC, B), fC.where())

    # ---- structure function(s): a - b K
    sv = {}
    for f, v, tag in ((fD, D, "slope-covariance copy"), (fKL, Dkl, "KL copy")):
        d = split_vk(v, r, f.name)
        if isinstance(d, str):
            rep.violation("V2.structure-form", f.fq, d, f.where())
            continue
        order, a = kv_params(d["kv"], r, L0)
        okk = order == NU and a is not None and const_close(a, 2 * math.pi, TOL_EXACT)
        rep.check(okk, "V2.bessel-parameters", f.fq + ": K_5/6(2 pi r/L0)",
                  "Bessel order %s / argument factor %s differ from (5/6, 2 pi)" % (order, a), f.where())
        if not okk:
            continue
        sv[f.name] = d
        lim = small_x_limit(d["cK"], d["mK"], a, r, L0)
        if lim is None:
            rep.violation("V2.zero-at-origin", f.fq, "Bessel term does not carry r^(5/6): D(0) is not finite", f.where())
        else:
            d0 = Rat.const(d["c0"]) * d["m0"] + lim
            rep.check(d0.equals(Rat.const(0), 1e-12) or _relzero(d0, d["c0"]), "V2.zero-at-origin", f.fq + ": D(0) == 0",
                      "D(0) = %s (constant term and small-argument limit of the Bessel term do not cancel)" % nf(d0), f.where(),
                      note="limit uses x^v K_v(x) -> 2^(v-1) Gamma(v)")
        # ... and the function can actually be evaluated there: x^(5/6) K_5/6(x) is 0 * infinity = nan in floating point at
        # exactly r = 0, so the value at the origin has to be supplied (the limit, 0) or the argument kept off 0
        how = at_origin.get(f.fq)
        if how is None:
            rep.violation("V2.evaluable-at-origin", f.fq + ": D(0) is computed, not nan",
                          "at r = 0 the closed form multiplies (r/L0)^(5/6) = 0 by K_5/6(0) = infinity: the result is nan, not the 0 the "
                          "structure function has at zero separation (every array of separations containing an exact 0 - the diagonal of "
                          "a distance matrix, theta = 0 in the Karhunen-Loeve kernel - gets a nan there)", f.where())
        elif how[0] == "guard":
            rep.check(isinstance(how[1], Rat) and how[1].is_zero(), "V2.evaluable-at-origin", f.fq + ": D(0) is computed, not nan",
                      "the value supplied at r = 0 is %s, not the limit 0 of the closed form" % nf(how[1]), f.where(),
                      note="value at r == 0 supplied explicitly (where / piecewise)")
        else:
            rep.ok("V2.evaluable-at-origin", f.fq + ": D(0) is computed, not nan", "the separation is shifted by %g before the Bessel term" % how[1])
        # saturation value and its r0/L0 dependence
        sat = Rat.const(d["c0"]) * d["m0"]
        want_m = rpow(L0, Fr(5, 3)) * (rpow(r0, Fr(-5, 3)) if f is fD else Rat.const(1))
        k = sat.ratio_to(want_m)
        rep.check(k is not None and abs(complex(k).real - 2 * 0.0863) <= TOL_688 * 2 * 0.0863, "V3.saturation",
                  f.fq + ": D(inf) == 2*0.0863 (L0/r0)^(5/3)",
                  "saturation value is %s x (L0/r0)^(5/3); the property states 2*0.0863 = 0.1726 (tol %g)" % (k, TOL_688), f.where(),
                  note="k_D = %s" % k)
        if kC is not None and k is not None:
            twoC0 = 2 * kC * 2 ** (-1. / 6) * G(5. / 6)
            rep.check(abs(complex(k).real - twoC0) <= TOL_688 * twoC0, "V3.saturation-vs-covariance",
                      f.fq + ": D(inf) == 2 C(0)", "D(inf) = %.6g (L0/r0)^(5/3) but 2 C(0) = %.6g (L0/r0)^(5/3)" % (complex(k).real, twoC0),
                      f.where())
            # V1: K-terms of D and of 2(C(0) - C) agree
            kterm = (Rat.const(d["cK"]) * d["mK"]).ratio_to(rpow(L0, Fr(5, 6)) * rpow(r, Fr(5, 6)) *
                                                             (rpow(r0, Fr(-5, 3)) if f is fD else Rat.const(1)))
            wantk = -2 * kC * (2 * math.pi) ** (5. / 6)
            rep.check(kterm is not None and abs(complex(kterm).real - wantk) <= TOL_688 * abs(wantk), "V1.D-equals-2(C0-C)",
                      f.fq + ": Bessel term of D == -2 x Bessel term of C",
                      "Bessel-term coefficient of D is %s, -2 x that of the covariance is %.9g" % (kterm, wantk), f.where())
        # Kolmogorov limit L0 -> inf from the next term of the expansion
        nu = float(NU)
        coefK = complex(d["cK"]).real
        kol = -coefK * (2 * math.pi) ** (-nu) * (G(1 - nu) / (nu * 2 ** (nu + 1))) * (2 * math.pi) ** (2 * nu)
        rep.check(abs(kol - 6.88) <= TOL_688 * 6.88, "V4.kolmogorov-limit", f.fq + ": D -> 6.88 (r/r0)^(5/3) as L0 -> inf",
                  "large-L0 limit of the von Karman structure function is %.5g (r/r0)^(5/3)" % kol, f.where(), note="limit %.6g" % kol)

    # ---- V4 Kolmogorov laws
    for f, v, syms in ((fK, Dk, True), (fKK, Dkk, False)):
        st = v.single_term()
        want = rpow(r, Fr(5, 3)) * (rpow(r0, Fr(-5, 3)) if syms else Rat.const(1))
        k = v.ratio_to(want)
        rep.check(k is not None and abs(complex(k).real - KOLM) <= TOL_688 * KOLM, "V4.kolmogorov-constant",
                  f.fq + ": 6.88 (r/r0)^(5/3)", "Kolmogorov law is %s; expected 2[(24/5)Gamma(6/5)]^(5/6) = %.5g times (r/r0)^(5/3)"
                  % (nf(v), KOLM), f.where(), note="constant %s" % k)

    # ---- V6 r0 scaling
    for f, v in ((fC, C), (fD, D), (fK, Dk)):
        check_degree(rep, "V6.r0-scaling", f.fq + " ~ r0^(-5/3)", v, "r0", Fr(-5, 3), f.where(), f.name)

    # ---- V7 copies agree
    D_at_1 = one(fD, [r, Rat.const(1), L0])
    check_equal(rep, "V7.copies-agree", "karhunenLoeve:stf_vonKarman == slopecovariance:structure_function_vk at r0 = 1",
                Dkl, D_at_1, fKL.where(), what="KL copy of the von Karman structure function")
    # gkl_kernel dispatch: the tag selects the matching structure function
    fg = F("aotools.functions.karhunenLoeve", "gkl_kernel")
    for tag, want in (("kolmogorov", fKK.fq), ("vonKarman", fKL.fq)):
        I2 = Interp(ix)
        args = [Rat.sym("ri"), Rat.sym("nr"), Rat.sym("rad", ("array",)), tag, Rat.sym("outerscale")]
        I2.run(fg, args)
        called = set(fq for fq in I2.functions_seen if ":stf_" in fq)
        rep.check(called == {want}, "V7.kernel-dispatch", "%s(stfunc=%r) -> %s" % (fg.fq, tag, want.split(":")[1]),
                  "kernel built with %s for tag %r" % (sorted(called), tag), fg.where())

    # ---- V5 PSD constant / exponents in both screen generators
    from .c07 import MOD as PS
    Ips = Interp(ix, int_transparent=True)
    for name in ("ft_phase_screen", "ft_sh_phase_screen"):
        f = F(PS, name)
        fixed = {p: None for p in f.params[5:]}
        rets = Ips.returns(f, Ips.symbolic_args(f, fixed=fixed))
        if len(rets) != 1 or not isinstance(rets[0][1], Rat):
            rep.unknown("V5.psd-constant", f.fq, "no single normal form", f.where())
            continue
        psds = find_atoms(rets[0][1], lambda a: isinstance(a, Fn) and a.name == "setitem")
        pows = set()
        consts = set()
        r0deg = set()
        for s in psds:
            base = s.args[0]
            stt = base.single_term() if isinstance(base, Rat) else None
            if stt is None:
                continue
            consts.add(round(complex(stt[0]).real, 12))
            for a, e in stt[1]:
                if isinstance(a, PowA):
                    pows.add(a.exp * e)
                if a == Sym("r0"):
                    r0deg.add(e)
        need = 2 if name.endswith("sh_phase_screen") else 1
        if len(psds) < need:
            rep.unknown("V5.psd-constant", f.fq, "found %d spectra (need %d)" % (len(psds), need), f.where())
            continue
        rep.check(len(consts) == 1 and abs(list(consts)[0] - PSD_CONST) <= TOL_023 * PSD_CONST, "V5.psd-constant",
                  f.fq + ": 0.023 == Gamma(11/6)^2/(2 pi^(11/3)) [(24/5)Gamma(6/5)]^(5/6)",
                  "PSD constants %s; the Hankel transform of the covariance gives %.6f (tol %g)" % (sorted(consts), PSD_CONST, TOL_023),
                  f.where())
        rep.check(pows == {Fr(-11, 6)} and r0deg == {Fr(-5, 3)}, "V5.psd-exponents", f.fq + ": (f^2+L0^-2)^(-11/6) r0^(-5/3)",
                  "PSD exponents: power law %s, r0 %s" % (sorted(pows), sorted(r0deg)), f.where())
    # ---- V8 the closed forms are functions of their arguments only
    purity_obligations(rep, ix, [fC, fD, fK, fKL, fKK, ix.func("aotools.functions.karhunenLoeve", "stf_vonKarman_yao")], "V8.pure",
                       "the same separation array handed to the next formula (or to a second call) is no longer the separations")
    rep.floor("C08 obligations", len(rep.obligations), 25)


def _relzero(d0, scale):
    t = d0.terms()
    if t is None:
        return False
    return all(abs(c) <= 1e-12 * abs(scale) for c, m in t)
