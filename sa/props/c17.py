"""C17 - atmospheric and photometric conversions: inverse pairs, composites,
scaling exponents, published-constant relations.  Decided exactly on power-law
normal forms (PLF) of the function bodies, for all positive real arguments."""
import ast
import math
from fractions import Fraction as Fr

from ..common import get_index, check_equal, check_degree, nf, const_close, merged_paths, purity_obligations
from ..interp import Interp, has_unknown
from ..plf import Rat, Sym, Fn, find_atoms, show
from ..report import AnalysisError
from ..index import norm_text

LEVEL = "proof"
ATM = "aotools.turbulence.atmos_conversions"
AST_ = "aotools.astronomy._astronomy"

# published-constant tolerance for the 0.0581 / 0.314 relations (three 3-digit
# constants are involved: 0.0581, 0.314, 0.423); measured gap on the pinned tree 2.0e-3
TOL_PUBLISHED = 4e-3


def _is_paths(v):
    return isinstance(v, Rat) and any(isinstance(a, Fn) and a.name == "paths" for a in v.atoms())


def run(rep, tier, root=None):
    ix = get_index(root)
    I = Interp(ix)
    rep.trusted_base += ["PLF algebra (sa/plf.py): monomials with rational exponents, log10/10^x rules",
                         "floating rounding of the library arithmetic is excluded"]
    rep.assumptions += ["all arguments positive reals (fractional powers are principal values)",
                        "reductions (.sum/.mean/.var) are linear atoms; single-layer clause substitutes sum(x)=x"]
    rep.explanation = ("Every converter body is reduced to a power-law normal form c*prod(sym^q) (or 10^affine); "
                       "inverse pairs, composites, exponents and the 0.314 relations are then identities between "
                       "normal forms, valid for every positive argument rather than for sampled values.")
    rep.rule_text = "one obligation per identity (I1 inverse pair/direction, I2 composite, I3 exponent, I4 magnitudes, I5 proportionality, I6 single layer, I7 axis, I8 band table)"
    rep.files_analysed.update([ix.module(ATM).relpath, ix.module(AST_).relpath])

    S = lambda n, *fl: Rat.sym(n, fl)
    lam = S("lamda")

    def F(mod, name):
        f = ix.func(mod, name)
        rep.functions_analysed.add(f.fq)
        return f

    def strip_ws(v):
        # band names in the table carry no surrounding whitespace (checked under I8): stripping is the identity on valid bands
        def g(a):
            if isinstance(a, Fn) and a.name in ("str.strip", "str.lstrip", "str.rstrip") and len(a.args) == 1 and isinstance(a.args[0], Rat):
                return a.args[0].subst(g)
            return None
        if isinstance(v, Rat):
            return v.subst(g)
        if isinstance(v, tuple):
            return tuple(strip_ws(x) for x in v)
        return v

    def call(mod, name, *args):
        f = F(mod, name)
        return strip_ws(merged_paths(I, f, args))

    names = ["cn2_to_seeing", "seeing_to_cn2", "cn2_to_r0", "r0_to_cn2", "r0_to_seeing", "seeing_to_r0",
             "coherenceTime", "isoplanaticAngle", "rytov_variance", "r0_from_slopes", "slope_variance_from_r0"]
    forms = {}
    for n in names:
        f = F(ATM, n)
        forms[n] = call(ATM, n, *I.symbolic_args(f))
        rep.sample({"function": f.fq, "normal_form": nf(forms[n])})
        if has_unknown(forms[n]):
            rep.unknown("I0.normal-form", f.fq, "no power-law normal form: %s" % nf(forms[n]), f.where())
        elif _is_paths(forms[n]):
            rep.violation("I0.normal-form", f.fq + ": one law on every path", "the converter computes different laws on different paths: %s" % nf(forms[n], 300), f.where())
        else:
            rep.ok("I0.normal-form", f.fq, nf(forms[n], 120))
    for n in ["photons_per_mag", "photons_per_band", "magnitude_to_flux", "flux_to_magnitude"]:
        f = F(AST_, n)
        forms[n] = call(AST_, n, *I.symbolic_args(f))
        rep.sample({"function": f.fq, "normal_form": nf(forms[n])})
        if has_unknown(forms[n]):
            rep.unknown("I0.normal-form", f.fq, "no normal form: %s" % nf(forms[n]), f.where())
        elif _is_paths(forms[n]):
            rep.violation("I0.normal-form", f.fq + ": one law on every path", "the converter computes different laws on different paths: %s" % nf(forms[n], 300), f.where())
        else:
            rep.ok("I0.normal-form", f.fq, nf(forms[n], 120))

    # ---- I1 inverse pairs, both directions, same wavelength / band symbol
    x = S("x")
    pairs = [("cn2_to_r0", "r0_to_cn2"), ("r0_to_seeing", "seeing_to_r0"), ("cn2_to_seeing", "seeing_to_cn2")]
    for a, b in pairs:
        for f1, f2 in ((a, b), (b, a)):
            comp = call(ATM, f2, call(ATM, f1, x, lam), lam)
            check_equal(rep, "I1.inverse-pair", "%s(%s(x, lamda), lamda) == x" % (f2, f1), comp, x,
                        F(ATM, f2).where(), what="%s o %s" % (f2, f1))
    band = S("waveband")
    for f1, f2 in (("magnitude_to_flux", "flux_to_magnitude"), ("flux_to_magnitude", "magnitude_to_flux")):
        comp = call(AST_, f2, call(AST_, f1, x, band), band)
        check_equal(rep, "I1.inverse-pair", "%s(%s(x, band), band) == x" % (f2, f1), comp, x,
                    F(AST_, f2).where(), what="%s o %s" % (f2, f1))
    # slope variance <-> r0: r0_from_slopes works on the variance of its data; substitute var -> v
    wl, d = S("wavelength"), S("subapDiam")
    r0fs = forms["r0_from_slopes"]

    def drop_stats(v, var_value):
        def f(a):
            if isinstance(a, Fn) and a.name == "var":
                return var_value
            if isinstance(a, Fn) and a.name == "mean":
                return a.args[0].subst(f)
            return None
        return v.subst(f)
    var_atoms = find_atoms(r0fs, lambda a: isinstance(a, Fn) and a.name == "var")
    mean_atoms = find_atoms(r0fs, lambda a: isinstance(a, Fn) and a.name == "mean")
    ok_shape = len(var_atoms) == 1 and len(mean_atoms) == 1 and \
        var_atoms[0].args[0] == Rat.sym("slopes") and var_atoms[0].args[1] == -1
    if ok_shape:
        # ... and it is the per-measurement r0 (the -3/5 power of each variance) that is averaged, not the variances: the power law
        # is not linear, so r0(mean of variances) differs from mean of r0(variance) as soon as the rows have unequal variances
        inner = mean_atoms[0].args[0]
        dg = inner.degree(var_atoms[0]) if isinstance(inner, Rat) else None
        from fractions import Fraction as _Fr
        ok_shape = dg is not None and _Fr(dg).limit_denominator(1000) == _Fr(-3, 5)
    rep.check(ok_shape, "I1.slope-variance-shape", ATM + ":r0_from_slopes:var(axis=-1) then mean",
              "r0_from_slopes must take the variance over the frame axis (-1) and average the per-measurement r0",
              F(ATM, "r0_from_slopes").where(), detail={"found": nf(r0fs)})
    if ok_shape:
        v = S("v")
        inv1 = drop_stats(r0fs, call(ATM, "slope_variance_from_r0", x, wl, d))
        check_equal(rep, "I1.inverse-pair", "r0_from_slopes[var := slope_variance_from_r0(x)] == x", inv1, x,
                    F(ATM, "r0_from_slopes").where(), what="r0_from_slopes o slope_variance_from_r0")
        inv2 = call(ATM, "slope_variance_from_r0", drop_stats(r0fs, v), wl, d)
        check_equal(rep, "I1.inverse-pair", "slope_variance_from_r0(r0_from_slopes[var := v]) == v", inv2, v,
                    F(ATM, "slope_variance_from_r0").where(), what="slope_variance_from_r0 o r0_from_slopes")

    # ---- I2 composites == composition of the elementary ones, lamda forwarded
    cn2, seeing = S("cn2"), S("seeing")
    check_equal(rep, "I2.composite", "cn2_to_seeing == r0_to_seeing o cn2_to_r0", forms["cn2_to_seeing"],
                call(ATM, "r0_to_seeing", call(ATM, "cn2_to_r0", cn2, lam), lam), F(ATM, "cn2_to_seeing").where(),
                what="cn2_to_seeing")
    check_equal(rep, "I2.composite", "seeing_to_cn2 == r0_to_cn2 o seeing_to_r0", forms["seeing_to_cn2"],
                call(ATM, "r0_to_cn2", call(ATM, "seeing_to_r0", seeing, lam), lam), F(ATM, "seeing_to_cn2").where(),
                what="seeing_to_cn2")
    mag, mask, pxl, t = S("mag"), S("mask"), S("pxlScale"), S("expTime")
    want = call(AST_, "magnitude_to_flux", mag, band) * t * Rat.atom(Fn("sum", (mask, None))) * pxl * pxl
    check_equal(rep, "I2.composite", "photons_per_band == magnitude_to_flux * time * area", forms["photons_per_band"],
                want, F(AST_, "photons_per_band").where(), what="photons_per_band")

    # ---- I3 exponents
    for fn_, sym_, deg in [("cn2_to_r0", "lamda", Fr(6, 5)), ("cn2_to_r0", "cn2", Fr(-3, 5)),
                           ("cn2_to_seeing", "lamda", Fr(-1, 5)), ("r0_to_seeing", "r0", Fr(-1)),
                           ("r0_to_seeing", "lamda", Fr(1)),
                           ("slope_variance_from_r0", "wavelength", Fr(2)),
                           ("slope_variance_from_r0", "r0", Fr(-5, 3)),
                           ("slope_variance_from_r0", "subapDiam", Fr(-1, 3)),
                           ("coherenceTime", "lamda", Fr(6, 5)), ("isoplanaticAngle", "lamda", Fr(6, 5)),
                           ("coherenceTime", "cn2", Fr(-3, 5)), ("coherenceTime", "v", Fr(-1)),
                           ("isoplanaticAngle", "cn2", Fr(-3, 5)), ("isoplanaticAngle", "h", Fr(-1)),
                           ("rytov_variance", "lamda", Fr(-7, 6)), ("rytov_variance", "cn2", Fr(1)),
                           ("rytov_variance", "h", Fr(5, 6))]:
        check_degree(rep, "I3.exponent", "%s ~ %s^%s" % (fn_, sym_, deg), forms[fn_], sym_, deg,
                     F(ATM, fn_).where(), what=fn_)
    sv = forms["slope_variance_from_r0"]
    st = sv.single_term()
    rep.check(st is not None and const_close(st[0], 0.162, 1e-12), "I3.slope-law-constant",
              ATM + ":slope_variance_from_r0:0.162", "slope variance law must be 0.162*lambda^2*r0^(-5/3)*d^(-1/3)",
              F(ATM, "slope_variance_from_r0").where(), detail={"found": nf(sv)})

    # ---- I4 five magnitudes = factor 100
    five = Rat.const(5)
    for mod, fn_, args, k in [(AST_, "magnitude_to_flux", ("mag", "waveband"), 0),
                              (AST_, "photons_per_mag", ("mag", "mask", "pixel_scale", "wvlBand", "exposure_time"), 0),
                              (AST_, "photons_per_band", ("mag", "mask", "pxlScale", "expTime", "waveband"), 0)]:
        base = [S(a) for a in args]
        shifted = list(base)
        shifted[k] = base[k] + five
        r = call(mod, fn_, *shifted).ratio_to(call(mod, fn_, *base))
        rep.check(r is not None and const_close(r, 0.01, 1e-12), "I4.five-magnitudes",
                  "%s(m+5)/%s(m) == 1/100" % (fn_, fn_), "five magnitudes must be a factor 100 in flux (found ratio %s)" % r,
                  F(mod, fn_).where())
    # flux_to_magnitude(100 F) = mag - 5
    fl = S("flux")
    diff = call(AST_, "flux_to_magnitude", fl * 100, band) - call(AST_, "flux_to_magnitude", fl, band)
    check_equal(rep, "I4.five-magnitudes", "flux_to_magnitude(100 F) - flux_to_magnitude(F) == -5", diff, Rat.const(-5),
                F(AST_, "flux_to_magnitude").where(), what="magnitude difference for x100 flux")

    # ---- I5 proportional to collecting area and exposure time
    for fn_, tsym, psym in [("photons_per_mag", "exposure_time", "pixel_scale"), ("photons_per_band", "expTime", "pxlScale")]:
        v = forms[fn_]
        check_degree(rep, "I5.proportional", "%s ~ %s^1" % (fn_, tsym), v, tsym, Fr(1), F(AST_, fn_).where(), fn_)
        check_degree(rep, "I5.proportional", "%s ~ %s^2" % (fn_, psym), v, psym, Fr(2), F(AST_, fn_).where(), fn_)
        area = Fn("sum", (Rat.sym("mask"), None))
        check_degree(rep, "I5.proportional", "%s ~ sum(mask)^1" % fn_, v, area, Fr(1), F(AST_, fn_).where(), fn_)

    # ---- I6 single layer: sum over one layer is the identity
    def single_layer(v):
        def f(a):
            if isinstance(a, Fn) and a.name == "sum":
                return a.args[0].subst(f)
            return None
        return v.subst(f)
    vv, hh = S("v"), S("h")
    r0 = call(ATM, "cn2_to_r0", cn2, lam)
    arcsec = 180. * 3600. / math.pi
    for fn_, want, what in [("coherenceTime", r0 / vv * 0.314, "0.314 r0/v"),
                            ("isoplanaticAngle", r0 / hh * 0.314 * arcsec, "0.314 r0/h [arcsec]")]:
        got = single_layer(forms[fn_])
        r = got.ratio_to(want)
        if r is None:
            if has_unknown(got):
                rep.unknown("I6.single-layer", fn_, "cannot normalise %s" % nf(got), F(ATM, fn_).where())
            else:
                rep.violation("I6.single-layer", "%s[single layer] ~ %s" % (fn_, what),
                              "exponents of the single-layer reduction differ from %s" % what,
                              F(ATM, fn_).where(), {"found": nf(got), "expected": nf(want)})
        else:
            rep.check(abs(complex(r) - 1) <= TOL_PUBLISHED, "I6.single-layer",
                      "%s[single layer] == %s (published constants, tol %g)" % (fn_, what, TOL_PUBLISHED),
                      "single-layer value is %.6f x %s" % (complex(r).real, what), F(ATM, fn_).where(),
                      note="ratio %.6f" % complex(r).real, detail={"found": nf(got), "expected": nf(want)})

    # ---- I7 the axis parameter is the axis of the single reduction
    for fn_ in ("coherenceTime", "isoplanaticAngle", "rytov_variance"):
        v = forms[fn_]
        red = find_atoms(v, lambda a: isinstance(a, Fn) and a.name in ("sum", "mean", "max", "min", "flatten", "reshape", "T", "prod"))
        ok = len(red) == 1 and red[0].name == "sum" and red[0].args[1] == Rat.sym("axis")
        rep.check(ok, "I7.axis", "%s: one .sum(axis)" % fn_,
                  "the profile integral must be exactly one sum over the `axis` argument (found %s)"
                  % [repr(a)[:80] for a in red], F(ATM, fn_).where())

    # ---- I7 (stacks): "the integration axis argument gives the same numbers as looping over profiles".  The summand is
    # cn2 * w^p with w the per-layer altitudes / wind speeds: the product is formed by broadcasting, which aligns a 1-D w with
    # the LAST axis of cn2 whatever `axis` says; unless w is aligned with `axis` first (moveaxis / expand_dims / reshape), the
    # weights attach to the profile index for axis != -1
    for fn_ in ("coherenceTime", "isoplanaticAngle", "rytov_variance"):
        fo = F(ATM, fn_)
        wname = fo.params[1]
        aligned = any(isinstance(n_, ast.Call) and norm_text(n_.func).split(".")[-1] in ("moveaxis", "swapaxes", "expand_dims", "reshape", "transpose", "rollaxis")
                      for n_ in ast.walk(fo.node))
        red = [a for a in find_atoms(forms[fn_], lambda a: isinstance(a, Fn) and a.name == "sum")]
        uses_axis = bool(red) and red[0].args[1] == Rat.sym("axis")
        weighted = bool(red) and isinstance(red[0].args[0], Rat) and red[0].args[0].depends_on(Sym(wname)) and red[0].args[0].depends_on(Sym(fo.params[0]))
        rep.check(not (uses_axis and weighted and not aligned), "I7.axis-alignment", "%s: the per-layer weights are aligned with the integration axis" % fn_,
                  "(%s * %s^p).sum(axis): the product broadcasts a 1-D `%s` (one value per layer) against the last axis of %s, not against "
                  "`axis` - for a stack with the layers on another axis the weights attach to the profile index (axis=0, cn2 (5, 5), %s (5,): "
                  "values off by up to a factor 18; cn2 (5, 3): ValueError)" % (fo.params[0], wname, wname, fo.params[0], wname), fo.where())

    # ---- I8 band table
    m = ix.module(AST_)
    tab = None
    for stt in m.tree.body:
        if isinstance(stt, ast.Assign) and any(isinstance(tg, ast.Name) and tg.id == "FLUX_DICTIONARY" for tg in stt.targets):
            tab = stt.value
    if not isinstance(tab, ast.Dict):
        raise AnalysisError("FLUX_DICTIONARY literal not found")
    keys = [k.value for k in tab.keys if isinstance(k, ast.Constant)]
    want_keys = set("UBVRIJHKgriz")
    rep.check(all(isinstance(k_, str) and k_ == k_.strip() for k_ in keys), "I8.band-table", "FLUX_DICTIONARY keys carry no whitespace",
              "band names with surrounding whitespace: %s" % keys, "%s:%d" % (m.relpath, tab.lineno))
    rep.check(set(keys) == want_keys and len(keys) == 12, "I8.band-table", "FLUX_DICTIONARY keys",
              "band table must define exactly the twelve bands %s (found %s)" % (sorted(want_keys), keys),
              "%s:%d" % (m.relpath, tab.lineno))
    for k, v in zip(tab.keys, tab.values):
        good = isinstance(v, (ast.List, ast.Tuple)) and len(v.elts) == 3 and all(
            isinstance(e, ast.Constant) and isinstance(e.value, (int, float)) and e.value > 0 for e in v.elts)
        rep.check(good, "I8.band-table", "FLUX_DICTIONARY[%r]" % getattr(k, "value", "?"),
                  "each band row must be three positive literals", "%s:%d" % (m.relpath, v.lineno))
    # both flux functions index the table consistently: [band][1] (width) and [band][2] (zero point)
    for fn_ in ("magnitude_to_flux", "flux_to_magnitude"):
        rows = find_atoms(forms[fn_], lambda a: isinstance(a, Fn) and a.name == "getitem"
                          and isinstance(a.args[0], Rat) and isinstance(a.args[0].single_atom(), Fn))
        idx = sorted(set(int(complex(a.args[1].const_value()).real) for a in rows if isinstance(a.args[1], Rat) and a.args[1].is_const()))
        rep.check(idx == [1, 2], "I8.table-index", "%s uses FLUX_DICTIONARY[band][1] and [2]" % fn_,
                  "table columns used: %s" % idx, F(AST_, fn_).where())
    # ---- I9 the converters are functions of their arguments only (profiles are reused across calls / stacked vs looped)
    purity_obligations(rep, ix, [F(ATM, n) for n in names] + [F(AST_, n) for n in ("photons_per_mag", "photons_per_band", "magnitude_to_flux", "flux_to_magnitude")],
                       "I9.pure", "a profile array passed again (looping over profiles on a shared grid, repeating a call) gives different numbers")
    # ---- I10 profiles may be integer arrays (altitudes in metres, counts): no integer power of them in their own dtype
    from ..common import integer_power_hazards
    for n_ in names:
        f_ = F(ATM, n_)
        hz = integer_power_hazards(f_, ("cn2", "h", "v", "slopes"))
        for node_, txt_ in hz:
            rep.violation("I10.integer-power", "%s: %s" % (f_.fq, norm_text(node_)[:60]),
                          txt_ + ": for integer-typed profiles (e.g. altitudes from numpy.arange) the power wraps around silently, "
                          "so the conversion is not the stated power law for those inputs", f_.where(node_))
        if not hz:
            rep.ok("I10.integer-power", f_.fq, "no integer power of a profile array in its own dtype", False)
    rep.floor("C17 obligations", len(rep.obligations), 60)
