"""C13 - Karhunen-Loeve functions (the clauses whose truth is in the shape of the code).

Most of C13 is about what an eigen-solver and an interpolator return (orthonormality to grid accuracy, the
diagonalised covariance, the resampling error): none of that can be decided from the source.  Two clauses, and the
wiring every other clause relies on, can:

 "the returned pupil is the annulus indicator", "the Cartesian rendering is zero outside the annulus when masked"
  A1.grid        pcgeom: ax = (column index - (ncp-1)/2) / (nused/2), ay = ax^T           (pixel-centre grid, radius nused/2)
  A2.aperture    geom['ap'] = (ri^2 <= ax^2+ay^2) & (ax^2+ay^2 <= 1)                       (strict or non-strict bounds)
  A4.render      pol2car: masked path = interpolation * geom['ap'], unmasked path = interpolation; linear, 'nearest' edge
  A5.driver      make_kl: kl[i] = pol2car(pc1, gkl_sfi(polar_base, i), mask) for i in range(nmax) into zeros((nmax, dim, dim));
                 pc1 = pcgeom(base nr, base np, dim, base ri, 0); pupil = float(pc1['ap']); variances = base['evals'];
                 gkl_basis hands its own (ri, nr, npp) and the results of gkl_fcom / gkl_azimuthal to the dictionary
 "follows the polar function at each pixel's (r, theta)"
  A3.index-maps  geom['cr'] = clip(cr_of(ax^2+ay^2)), geom['cp'] = clip(cp_of(angle)) with clip bounds inside the table, where
                 cr_of / cp_of are the exact inverses of the polar grid used for synthesis: radii() = sqrt(r2_of(k)),
                 polang() = phi_of(k); cr_of(r2_of(k)) = k and cp_of(phi_of(k)) = k are checked algebraically on every run
  A6.synthesis   gkl_sfi(b, i) = radial column i (x) azimuthal row ord[i], both replicated to the (nr, np) polar grid
 necessary conditions of orthonormality / ordering
  A7.azimuthal   row 0 = 1, odd row i = cos(((i+1)/2) theta), even row i >= 2 = sin((i/2) theta), theta_k = 2 pi k / np
  A8.piston      piston_orth = Cannon (1996) eq. 19 (Helmert matrix): s[0:j+1, j] = 1/sqrt((j+1)(j+2)),
                 s[j+1, j] = -(j+1)/sqrt((j+1)(j+2)), last column 1/sqrt(nr)
  A9.radial-grid gkl_radii^2 is affine in the ring index with step (1-ri^2)/nr (equal-area rings) and an offset inside the
                 first ring
  A10.ordering   gkl_fcom selects a = argsort(-eigenvalues)[:nfunc] (non-increasing) and returns evals = eigenvalues[oind]
                 from the same flattened table
  A11.normalisation  quadrature weight (1-ri^2)/nr on the kernels, eigenvectors scaled by sqrt(2 nr) (orders >= 1) and
                 sqrt(nr) (order 0): unit mean square over the annulus with <cos^2> = 1/2
 Not decided: everything about the values produced by eigh / map_coordinates (orthonormality to grid accuracy, zero mean,
 positivity of the variances, tip = tilt, the resampling error), i.e. most of the property.
"""
import ast
from fractions import Fraction as Fr

from ..common import get_index, nf, check_equal, same_value, purity_obligations
from ..index import norm_text
from ..interp import Interp, has_unknown, RangeVal
from ..plf import Rat, Sym, Fn, PowA, find_atoms, vkey, rpow
from ..report import AnalysisError

LEVEL = "other"
MOD = "aotools.functions.karhunenLoeve"

ORACLE = '''
import numpy as np
from aotools.functions.karhunenLoeve import rebin, pcgeom, pol2car, gkl_sfi, gkl_basis


def r2_of(k, nr, ri):
    return ri**2 + k / nr * (1 - ri**2)


def cr_of(cr2, nr, ri):
    return (cr2 - ri**2) / (1 - ri**2) * nr


def phi_of(k, npp):
    return k / npp * 2.0 * np.pi


def cp_of(phi, npp):
    return (npp / (2 * np.pi)) * phi


def radii(nr, npp, ri):
    return rebin(np.reshape(np.sqrt(r2_of(np.arange(nr), nr, ri)), (nr, 1)), (nr, npp))


def polang(r):
    s = np.shape(r)
    nr = s[0]
    npp = s[1]
    return np.transpose(rebin(np.reshape(phi_of(np.arange(npp), npp), (npp, 1)), (npp, nr)))


def grid(ncp, nused):
    return (np.reshape(np.arange(ncp * ncp), (ncp, ncp)) % ncp - 0.5 * (ncp - 1)) / (0.5 * nused)


def aperture(ax, ay, ri):
    cr2 = ax**2 + ay**2
    return (cr2 >= ri**2) & (cr2 <= 1.)


def angle(ax, ay):
    return (np.arctan2(ay, ax) + 2 * np.pi) % (2 * np.pi)


def sfi(rad_col, az_row, nr, npp):
    return rebin(np.reshape(rad_col, (nr, 1)), (nr, npp)) * rebin(np.reshape(az_row, (1, npp)), (nr, npp))
'''


def _canon_replication(v):
    """one normal form for `a column / a row replicated to the (n, m) grid` (rebin itself is decided by A14.rebin):
         rebin(reshape(x, (n, 1)), (n, m))  and  repeat(reshape(x, (n, 1)), m, axis=1)   ->  bcast(reshape(x, (n, 1)), (n, m))
         rebin(reshape(x, (1, m)), (n, m))  and  repeat(reshape(x, (1, m)), n, axis=0)   ->  bcast(reshape(x, (1, m)), (n, m))
       and, in a product, a column (n, 1) times a row (1, m) already has shape (n, m) by broadcasting, replicated or not:
         bcast(col, (n, m)) * bcast(row, (n, m))  ->  col * row"""
    if not isinstance(v, Rat):
        return v

    def col_row(x):
        a = x.single_atom() if isinstance(x, Rat) else None
        if isinstance(a, Fn) and a.name == "reshape" and len(a.args) == 2 and isinstance(a.args[1], tuple) and len(a.args[1]) == 2:
            n_, m_ = a.args[1]
            if isinstance(m_, Rat) and m_.real_const() == 1 and isinstance(n_, Rat):
                return "col", n_
            if isinstance(n_, Rat) and n_.real_const() == 1 and isinstance(m_, Rat):
                return "row", m_
        return None, None

    def f(a):
        if not isinstance(a, Fn):
            return None
        if a.name.endswith(":rebin") and a.name.startswith("call:") and len(a.args) == 2 and isinstance(a.args[1], tuple) and len(a.args[1]) == 2:
            x = a.args[0].subst(f) if isinstance(a.args[0], Rat) else a.args[0]
            kind, n_ = col_row(x)
            if kind == "col" and same_value(n_, a.args[1][0]) or kind == "row" and same_value(n_, a.args[1][1]):
                return Rat.atom(Fn("bcast", (x, tuple(a.args[1]))))
        if a.name == "repeat" and len(a.args) == 3 and isinstance(a.args[0], Rat) and isinstance(a.args[1], Rat):
            x = a.args[0].subst(f)
            kind, n_ = col_row(x)
            if kind == "col" and a.args[2] in (1, -1):
                return Rat.atom(Fn("bcast", (x, (n_, a.args[1]))))
            if kind == "row" and a.args[2] in (0, -2):
                return Rat.atom(Fn("bcast", (x, (a.args[1], n_))))
        return None
    v = v.subst(f)
    if not v.den_is_one():
        return v
    out = Rat({})
    for mono, coef in v.num.items():
        kinds = {}
        for a, e in mono:
            inner = a.args[0] if isinstance(a, Fn) and a.name == "bcast" else Rat.atom(a)
            kd, n_ = col_row(inner)
            if kd:
                kinds[kd] = n_
        t = Rat.const(coef)
        for a, e in mono:
            if isinstance(a, Fn) and a.name == "bcast" and set(kinds) == {"col", "row"} and \
                    same_value(tuple(a.args[1]), (kinds["col"], kinds["row"])):
                t = t * rpow(a.args[0], e)          # the product of a column and a row has the full shape already
            else:
                t = t * rpow(Rat.atom(a), e)
        out = out + t
    return out


def _strict(v):
    """'<' and '<=' (resp. '>' and '>=') are the same indicator up to the boundary circle"""
    def f(a):
        if isinstance(a, Fn) and a.name == "cmp" and a.args[0] in ("<", ">"):
            return Rat.atom(Fn("cmp", (a.args[0] + "=",) + tuple(x.subst(f) if isinstance(x, Rat) else x for x in a.args[1:])))
        return None
    return v.subst(f) if isinstance(v, Rat) else v


def _assigned(I, fq, name):
    return [e[3] for e in I.assign_log if e[0] == fq and e[1] == name]


def S(n, *flags):
    return Rat.sym(n, flags)


def run(rep, tier, root=None):
    ix = get_index(root)
    om = ix.virtual("_oracle_c13", ORACLE)
    O = lambda n: ix.func(om.name, n)
    F = lambda n: ix.func(MOD, n)
    rep.files_analysed.add(ix.module(MOD).relpath)
    rep.trusted_base += ["scipy.ndimage.map_coordinates(table, [row, col], order=1) interpolates the table bilinearly at fractional indices",
                         "numpy.linalg.eigh returns orthonormal eigenvectors (rebin is decided by A14)",
                         "oracle definitions in sa/props/c13.py (Cannon 1996)"]
    rep.assumptions += ["everything about the values eigh / map_coordinates produce is outside this check (see module docstring)"]
    rep.explanation = ("The geometric and bookkeeping functions of karhunenLoeve.py are reduced to normal forms and compared with "
                       "their definitions; the inverse relation between the polar synthesis grid and the Cartesian look-up indices "
                       "is an algebraic identity between the two definitions; the driver's wiring is read from its call log.")
    rep.rule_text = "A1..A11, one obligation per (rule, function)"
    opq = {MOD + ":rebin"}
    nr, npp, ncp, ncmar = S("nr", "int"), S("npp", "int"), S("ncp", "int"), S("ncmar", "int")
    ri = S("ri", "scalar")
    for n in ("pcgeom", "radii", "polang", "pol2car", "make_kl", "gkl_basis", "gkl_sfi", "gkl_azimuthal", "piston_orth",
              "gkl_radii", "gkl_fcom", "set_pctr"):
        rep.functions_analysed.add(F(n).fq)
    IO = Interp(ix, opaque=opq)
    val = lambda f, a: _one(IO, f, a)

    # ------------------------------------------------------------------ A1 / A2 / A3 pcgeom
    g = F("pcgeom")
    I = Interp(ix, opaque=opq | {MOD + ":setpincs"})
    rets = I.returns(g, [nr, npp, ncp, ri, ncmar])
    if len(rets) != 1 or not isinstance(rets[0][1], dict):
        rep.unknown("A1.grid", g.fq, "expected one path returning the geometry dictionary", g.where())
        geom = None
    else:
        geom = rets[0][1]
    if geom is not None:
        ax_l = _assigned(I, g.fq, "ax")
        ay_l = _assigned(I, g.fq, "ay")
        want_ax = val(O("grid"), [ncp, ncp - 2 * ncmar])
        ax = ax_l[-1] if ax_l else None
        check_equal(rep, "A1.grid", g.fq + ": ax = (column - (ncp-1)/2) / ((ncp - 2 ncmar)/2)", ax, want_ax, g.where(), what="x grid")
        from ..interp import mk_T
        check_equal(rep, "A1.grid", g.fq + ": ay = ax^T", ay_l[-1] if ay_l else None, mk_T(want_ax), g.where(), what="y grid")
        AX, AY = S("ax"), S("ay")
        sub = _abstract(want_ax, AX, AY)
        ap = geom.get("ap")
        check_equal(rep, "A2.aperture", g.fq + ": ap = (ri^2 <= ax^2+ay^2 <= 1)", _strict(sub(ap)), _strict(val(O("aperture"), [AX, AY, ri])),
                    g.where(), what="aperture mask")
        # index maps
        for key, lab, want_inner, top in (("cr", "radial", val(O("cr_of"), [AX ** 2 + AY ** 2, nr, ri]), nr),
                                         ("cp", "azimuthal", val(O("cp_of"), [val(O("angle"), [AX, AY]), npp]), npp)):
            v = sub(geom.get(key))
            a = v.single_atom() if isinstance(v, Rat) else None
            if not (isinstance(a, Fn) and a.name == "clip" and len(a.args) == 3):
                if isinstance(v, Rat) and has_unknown(v):
                    rep.unknown("A3.index-maps", "%s: %s index" % (g.fq, lab), "cannot normalise %s" % nf(v, 160), g.where())
                else:
                    # no clipping at all is acceptable only if the bare map is the inverse map
                    check_equal(rep, "A3.index-maps", "%s: %s index = inverse of the polar grid" % (g.fq, lab), v, want_inner, g.where(),
                                what=lab + " look-up index")
                continue
            inner, lo, hi = a.args
            check_equal(rep, "A3.index-maps", "%s: %s index = inverse of the polar grid" % (g.fq, lab), inner, want_inner, g.where(),
                        what=lab + " look-up index")
            loc = lo.real_const() if isinstance(lo, Rat) else None
            hic = (top - hi).real_const() if isinstance(hi, Rat) else None
            rep.check(loc is not None and loc >= 0 and hic is not None and hic >= 1, "A3.index-maps",
                      "%s: %s index clipped inside the table [0, %s - 1]" % (g.fq, lab, nf(top)),
                      "clip bounds (%s, %s) leave the table [0, %s - 1]" % (nf(lo), nf(hi), nf(top)), g.where())
    # the polar grid used for synthesis, and the algebraic inverse relation
    k = S("k", "int")
    check_equal(rep, "A3.index-maps", "cr_of(r2_of(k)) = k", val(O("cr_of"), [val(O("r2_of"), [k, nr, ri]), nr, ri]), k, what="radial inverse")
    check_equal(rep, "A3.index-maps", "cp_of(phi_of(k)) = k", val(O("cp_of"), [val(O("phi_of"), [k, npp]), npp]), k, what="azimuthal inverse")
    Ir = Interp(ix, opaque=opq)
    check_equal(rep, "A3.index-maps", F("radii").fq + " = sqrt(ri^2 + k (1-ri^2)/nr) replicated", _canon_replication(_one(Ir, F("radii"), [nr, npp, ri])),
                _canon_replication(val(O("radii"), [nr, npp, ri])), F("radii").where(), what="radial coordinate of the polar grid")
    r = S("r")
    check_equal(rep, "A3.index-maps", F("polang").fq + " = 2 pi k / np replicated", _canon_replication(_one(Ir, F("polang"), [r])),
                _canon_replication(val(O("polang"), [r])), F("polang").where(), what="azimuthal coordinate of the polar grid")
    if geom is not None:
        # pcgeom builds its polar points from these two functions with its own (nr, npp, ri)
        calls = [e for e in Interp_calls(ix, g, [nr, npp, ncp, ri, ncmar], opq | {MOD + ":setpincs", MOD + ":radii", MOD + ":polang"})]
        rad = [c for c in calls if c[0] == "radii"]
        rep.check(len(rad) == 1 and same_value(tuple(rad[0][1]), (nr, npp, ri)), "A3.index-maps", g.fq + ": polar grid = radii(nr, npp, ri)",
                  "radii called with %s" % ([nf(x) for x in rad[0][1]] if rad else "nothing"), g.where())

    # ------------------------------------------------------------------ A4 render
    p2c = F("pol2car")
    cg, pol, mask = S("cpgeom"), S("pol"), S("mask")
    Ip = Interp(ix)
    paths = Ip.returns(p2c, [cg, pol, mask])
    gi = lambda key: Rat.atom(Fn("getitem", (cg, key)))
    interp_ = Rat.atom(Fn("map_coordinates", (pol, (gi("cr"), gi("cp")), Rat.const(1), "nearest")))
    def _mask_on(conds):
        """True / False: the path is the one taken when a mask is requested / not requested (the decision may be written
        `mask is not False`, `mask is False`, `mask`, `not mask`; the interpreter records it in its positive spelling)"""
        for x in conds:
            if "mask" not in x:
                continue
            neg = x.startswith("not")
            core = (x[3:] if neg else x).strip().strip("()").replace(" ", "")
            tests_off = core in ("maskisFalse", "mask==False", "maskisNone", "Falseismask")
            return (neg and tests_off) or (not neg and not tests_off)
        return None
    masked = [v for c, v in paths if _mask_on(c) is True]
    unmasked = [v for c, v in paths if _mask_on(c) is False]
    if len(paths) == 2 and len(masked) == 1 and len(unmasked) == 1:
        check_equal(rep, "A4.render", p2c.fq + "[mask]: interpolation * cpgeom['ap']", masked[0], interp_ * gi("ap"), p2c.where(),
                    what="masked rendering")
        check_equal(rep, "A4.render", p2c.fq + "[no mask]: bilinear interpolation at (cr, cp)", unmasked[0], interp_, p2c.where(),
                    what="unmasked rendering")
    else:
        rep.unknown("A4.render", p2c.fq, "expected a masked and an unmasked path, found %d" % len(paths), p2c.where())

    # ------------------------------------------------------------------ A5 driver
    driver(rep, ix)

    # ------------------------------------------------------------------ A6 synthesis
    f = F("gkl_sfi")
    kb, i_ = S("kl_basis"), S("i", "int")
    Is = Interp(ix, opaque=opq)
    ps = [v for c, v in Is.returns(f, [kb, i_]) if v is not None]
    kg = lambda key: Rat.atom(Fn("getitem", (kb, key)))
    col = Rat.atom(Fn("getitem", (kg("rabas"), (("slice", Rat.const(0), None, None), i_))))
    row = Rat.atom(Fn("getitem", (kg("azbas"), (Rat.atom(Fn("getitem", (kg("ord"), i_))), ("slice", Rat.const(0), None, None)))))
    if len(ps) == 1:
        check_equal(rep, "A6.synthesis", f.fq + " = rabas[:, i] (x) azbas[ord[i], :]", _canon_replication(ps[0]),
                    _canon_replication(val(O("sfi"), [col, row, kg("nr"), kg("np")])), f.where(), what="polar function")
    else:
        rep.unknown("A6.synthesis", f.fq, "expected one returning path", f.where())

    # ------------------------------------------------------------------ A7 azimuthal functions
    azimuthal(rep, ix)
    # ------------------------------------------------------------------ A8 piston matrix
    piston(rep, ix)
    # ------------------------------------------------------------------ A9 radial grid
    f = F("gkl_radii")
    v = _one(Interp(ix), f, [ri, nr])
    d = (1 - ri ** 2) / nr
    ok, why = False, "not a square root of an affine function of the ring index"
    a = _sqrt_arg(v)
    if a is not None:
        from .c19 import affine_in
        ar = find_atoms(a, lambda t: isinstance(t, Fn) and t.name == "arange")
        if len(ar) == 1 and same_value(ar[0].args, (Rat.const(0), nr, Rat.const(1))):
            ab = affine_in(a, ar[0])
            if ab is not None:
                slope, off = ab
                c = ((off - ri ** 2) / d)
                cc = c.real_const() if isinstance(c, Rat) else None
                ok = slope.equals(d) and cc is not None and 0 <= cc < 1
                why = "step %s (want (1-ri^2)/nr), first point at ri^2 + %s rings" % (nf(slope), nf(c))
    rep.check(ok, "A9.radial-grid", f.fq + ": r_k^2 = ri^2 + (k + c)(1-ri^2)/nr, 0 <= c < 1 (equal-area rings)", why, f.where(), note=why)

    # ------------------------------------------------------------------ A10 / A11 gkl_fcom
    fcom(rep, ix)

    # ------------------------------------------------------------------ A13 kernel = azimuthal DFT of the structure function
    kernel_rule(rep, ix)
    rebin_rule(rep, ix)

    purity_obligations(rep, ix, [F(n) for n in ("make_kl", "gkl_basis", "gkl_fcom", "gkl_kernel", "gkl_sfi", "pol2car", "pcgeom")],
                       "A12.pure", "the basis returned for (nmax, dim, ri, nr) would depend on earlier calls")
    rep.floor("C13 obligations", len(rep.obligations), 30)


def _uniq(xs, key):
    seen, out = set(), []
    for x in xs:
        k_ = key(x)
        if k_ not in seen:
            seen.add(k_)
            out.append(x)
    return out


def _one(I, f, args):
    vals = [v for c, v in I.returns(f, list(args))]
    if len(vals) != 1:
        return Rat.atom(Fn("?paths", (Rat.const(len(vals)),)))
    return vals[0]


def _abstract(want_ax, AX, AY):
    """substitute the (verified) grid expressions by the symbols ax, ay so that later forms stay readable"""
    from ..interp import mk_T
    t_ax = mk_T(want_ax)

    def sub(v):
        if not isinstance(v, Rat):
            return v
        # the grid is a rational expression: replace its data-carrying atom
        return _replace_subexpr(_replace_subexpr(v, t_ax, AY), want_ax, AX)
    return sub


def _replace_subexpr(v, expr, sym):
    """replace occurrences of `expr` (a Rat that is `c * atom + d` in one array atom) by `sym` through that atom"""
    atoms = [a for a in expr.atoms(False) if not (isinstance(a, Sym))]
    if len(atoms) != 1:
        return v
    a0 = atoms[0]
    from .c19 import affine_in
    ab = affine_in(expr, a0)
    if ab is None or ab[0].is_zero():
        return v
    alpha, beta = ab
    repl = (sym - beta) / alpha

    def f(a):
        if a == a0:
            return repl
        return None
    return v.subst(f)


def _sqrt_arg(v):
    if not isinstance(v, Rat):
        return None
    st = v.single_term()
    if st is None:
        return None
    c, m = st
    if abs(complex(c) - 1) > 1e-12 or len(m) != 1:
        return None
    a, e = m[0]
    if e == Fr(1, 2):
        return a.base if isinstance(a, PowA) else Rat.atom(a)
    if isinstance(a, Fn) and a.name == "sqrt" and e == 1:
        return a.args[0]
    return None


def Interp_calls(ix, f, args, opaque):
    I = Interp(ix, opaque=set(opaque))
    I.returns(f, list(args))
    out = []
    for e in I.call_log:
        if e[0] == f.fq:
            out.append((str(e[1]).split(".")[-1], e[2], e[3]))
    return out


# ----------------------------------------------------------------------------------------------------- A5
def driver(rep, ix):
    F = lambda n: ix.func(MOD, n)
    mk = F("make_kl")
    opq = {MOD + ":" + n for n in ("gkl_basis", "pcgeom", "pol2car", "gkl_sfi")}
    I = Interp(ix, opaque=opq)
    I.force = {"ri == 0": False, "(ri == 0)": False}
    nmax, dim, nr = S("nmax", "int"), S("dim", "int"), S("nr", "int")
    ri, stf, osc, mask = S("ri", "scalar"), "kolmogorov", S("outerscale"), S("mask")
    rets = [(c, v) for c, v in I.returns(mk, [nmax, dim, ri, nr, stf, osc, mask]) if isinstance(v, tuple)]
    if rets and all(same_value(v, rets[0][1]) for c, v in rets):
        rets = rets[:1]         # paths that differ only in diagnostics printed
    if len(rets) != 1 or len(rets[0][1]) != 4:
        rep.unknown("A5.driver", mk.fq, "expected one path returning (kl, variances, pupil, polar base); found %d" % len(rets), mk.where())
        return
    kl, var, pupil, base = rets[0][1]
    npp_l = _assigned(I, mk.fq, "npp")
    npp = npp_l[-1] if npp_l else None
    want_base = Rat.atom(Fn("call:" + F("gkl_basis").fq, (ri, nr, npp, nmax, stf, osc)))
    check_equal(rep, "A5.driver", mk.fq + ": polar base = gkl_basis(ri, nr, npp, nfunc=nmax, stf, outerscale)", base, want_base, mk.where(),
                what="polar basis call")
    bi = lambda key: Rat.atom(Fn("getitem", (want_base, key)))
    pc_l = _assigned(I, mk.fq, "pc1")
    # the margin is free (any constant): the look-up indices and the mask are built from the same geometry
    margin = Rat.const(0)
    pa = pc_l[-1].single_atom() if pc_l and isinstance(pc_l[-1], Rat) else None
    if isinstance(pa, Fn) and pa.name == "call:" + F("pcgeom").fq and len(pa.args) == 5 and isinstance(pa.args[4], Rat) and pa.args[4].is_const():
        margin = pa.args[4]
    want_pc = Rat.atom(Fn("call:" + F("pcgeom").fq, (bi("nr"), bi("np"), dim, bi("ri"), margin)))
    check_equal(rep, "A5.driver", mk.fq + ": geometry = pcgeom(base nr, base np, dim, base ri, constant margin)", pc_l[-1] if pc_l else None, want_pc,
                mk.where(), what="Cartesian geometry")
    check_equal(rep, "A5.driver", mk.fq + ": pupil = geometry['ap'] as float", pupil, Rat.atom(Fn("getitem", (want_pc, "ap"))), mk.where(),
                what="returned pupil")
    check_equal(rep, "A5.driver", mk.fq + ": variances = base['evals']", var, bi("evals"), mk.where(), what="returned variances")
    stores = _uniq([s_ for s_ in I.store_log if s_[0] == mk.fq and s_[1] == "kl"], lambda s_: (vkey(s_[2]), vkey(s_[3]), s_[4]))
    loops = _uniq([l for l in I.loop_log if l[0] == mk.fq], lambda l: (l[1], vkey(l[2])))
    if len(stores) == 1 and len(loops) == 1 and isinstance(loops[0][3], RangeVal):
        _, _, idx, val_, lineno, op, txt = stores[0]
        lv = loops[0][2]
        rng = loops[0][3]
        full = ("slice", Rat.const(0), None, None)
        want_val = Rat.atom(Fn("call:" + F("pol2car").fq, (want_pc, Rat.atom(Fn("call:" + F("gkl_sfi").fq, (want_base, lv))), mask)))
        rep.check((same_value(idx, (lv, full, full)) or same_value(idx, lv) or same_value(idx, (lv, Ellipsis)) or same_value(idx, (lv, full)))
                  and op == "=", "A5.driver", mk.fq + ": mode i stored at kl[i, :, :]",
                  "stored with `%s`" % txt, "%s:%d" % (mk.module.relpath, lineno))
        check_equal(rep, "A5.driver", mk.fq + ": kl[i] = pol2car(geometry, gkl_sfi(base, i), mask)", val_, want_val,
                    "%s:%d" % (mk.module.relpath, lineno), what="rendered mode")
        rep.check(same_value((rng.lo, rng.hi, rng.step), (Rat.const(0), nmax, Rat.const(1))), "A5.driver", mk.fq + ": all nmax modes rendered",
                  "loop runs over range(%s, %s, %s)" % (nf(rng.lo), nf(rng.hi), nf(rng.step)), mk.where())
        al = _uniq([a for a in I.alloc_log if a[0] == mk.fq], lambda a: (a[4], vkey(tuple(a[2]))))
        rep.check(len(al) == 1 and same_value(al[0][2][0] if al[0][2] else None, (nmax, dim, dim)), "A5.driver",
                  mk.fq + ": kl allocated as zeros((nmax, dim, dim))", "allocation %s" % ([nf(x) for x in al[0][2]] if al else None), mk.where())
    elif not stores and isinstance(kl, Rat) and isinstance(kl.single_atom(), Fn) and kl.single_atom().name == "listcomp" and \
            isinstance(kl.single_atom().args[0], Rat) and isinstance(kl.single_atom().args[2], tuple) and len(kl.single_atom().args[2]) == 3:
        # the same driver as one stacked comprehension: kl = stack([pol2car(geometry, gkl_sfi(base, i), mask) for i in range(nmax)])
        lc = kl.single_atom()
        lv = Rat.atom(Sym(lc.args[1], ("int", "loopvar")))
        want_val = Rat.atom(Fn("call:" + F("pol2car").fq, (want_pc, Rat.atom(Fn("call:" + F("gkl_sfi").fq, (want_base, lv))), mask)))
        rep.ok("A5.driver", mk.fq + ": mode i stored at kl[i, :, :]", "stacked comprehension: item i is mode i")
        check_equal(rep, "A5.driver", mk.fq + ": kl[i] = pol2car(geometry, gkl_sfi(base, i), mask)", lc.args[0], want_val, mk.where(), what="rendered mode")
        rep.check(same_value(tuple(lc.args[2]), (Rat.const(0), nmax, Rat.const(1))), "A5.driver", mk.fq + ": all nmax modes rendered",
                  "comprehension runs over range(%s)" % ", ".join(nf(x) for x in lc.args[2]), mk.where())
        rep.ok("A5.driver", mk.fq + ": kl allocated as zeros((nmax, dim, dim))", "stacked comprehension allocates nmax items")
    else:
        rep.unknown("A5.driver", mk.fq, "expected one range loop with one store into kl", mk.where())
    # gkl_basis -> dictionary
    gb = F("gkl_basis")
    opq2 = {MOD + ":" + n for n in ("gkl_radii", "gkl_kernel", "gkl_fcom", "gkl_azimuthal")}
    I2 = Interp(ix, opaque=opq2)
    npp_, nfunc = S("npp", "int"), S("nfunc", "int")
    r2 = [v for c, v in I2.returns(gb, [ri, nr, npp_, nfunc, stf, osc]) if isinstance(v, dict)]
    if not r2 or any(set(v) != set(r2[0]) or any(not same_value(v[k_], r2[0][k_]) for k_ in v) for v in r2):
        rep.unknown("A5.driver", gb.fq, "paths disagree on the dictionary returned", gb.where())
        return
    d = r2[0]
    rad = Rat.atom(Fn("call:" + F("gkl_radii").fq, (ri, nr)))
    ker = Rat.atom(Fn("call:" + F("gkl_kernel").fq, (ri, nr, rad, stf, osc)))
    fc = Rat.atom(Fn("call:" + F("gkl_fcom").fq, (ri, ker, nfunc, False)))
    fcg = lambda j: Rat.atom(Fn("getitem", (fc, Rat.const(j))))
    want = {"nr": nr, "np": npp_, "nfunc": nfunc, "ri": ri, "radp": rad, "evals": fcg(0), "nord": fcg(1), "npo": fcg(2), "ord": fcg(3),
            "rabas": fcg(4), "azbas": Rat.atom(Fn("call:" + F("gkl_azimuthal").fq, (fcg(1), npp_)))}
    for key, w in sorted(want.items()):
        check_equal(rep, "A5.driver", "%s: base[%r]" % (gb.fq, key), d.get(key), w, gb.where(), what="dictionary entry %r" % key)


# ----------------------------------------------------------------------------------------------------- A7
def _parity_simplify(v, var, parity):
    """substitute var := 2q + parity and evaluate floordiv(., 2) exactly"""
    q = Rat.sym("q", ("int",))
    v = v.subst(lambda a: (2 * q + parity) if a == var else None)

    def f(a):
        if isinstance(a, Fn) and a.name == "floordiv" and len(a.args) == 2 and isinstance(a.args[0], Rat) and isinstance(a.args[1], Rat):
            y = a.args[1].real_const()
            x = a.args[0].subst(f)
            if y == 2 and x.den_is_one():
                even, const = Rat({}), 0.0
                for m, c in x.num.items():
                    c = complex(c).real
                    if not m:
                        const += c
                    elif abs(c / 2 - round(c / 2)) < 1e-12:
                        even = even + Rat({m: c / 2})
                    else:
                        return None
                import math
                return even + Rat.const(math.floor(const / 2 + 1e-12))
        return None
    return v.subst(f)


def azimuthal(rep, ix):
    f = ix.func(MOD, "gkl_azimuthal")
    nord, npp = S("nord", "int"), S("npp", "int")
    I = Interp(ix)
    I.returns(f, [nord, npp])
    stores = [s_ for s_ in I.store_log if s_[0] == f.fq]
    loops = [l for l in I.loop_log if l[0] == f.fq]
    full = ("slice", Rat.const(0), None, None)
    theta = Rat.atom(Fn("arange", (Rat.const(0), npp, Rat.const(1)))) * (2 * 3.141592653589793) / npp
    q = Rat.sym("q", ("int",))
    seen = {"const": False, "cos": False, "sin": False}
    for s_ in stores:
        _, base, idx, val_, lineno, op, txt = s_
        where = "%s:%d" % (f.module.relpath, lineno)
        if not (isinstance(idx, tuple) and len(idx) == 2 and same_value(idx[1], full)):
            rep.unknown("A7.azimuthal", f.fq + ": " + txt[:50], "store is not a whole row", where)
            continue
        row = idx[0]
        rc = row.real_const() if isinstance(row, Rat) else None
        if rc == 0:
            seen["const"] = True
            check_equal(rep, "A7.azimuthal", f.fq + ": row 0 = 1", val_, Rat.const(1), where, what="order-0 azimuthal function")
            continue
        lp = [l for l in loops if isinstance(l[2], Rat) and same_value(l[2], row) and l[1] <= lineno]
        lp = sorted(lp, key=lambda l: l[1])[-1:]         # the innermost enclosing loop: the last one starting before the store
        if len(lp) != 1 or not isinstance(lp[0][3], RangeVal):
            rep.unknown("A7.azimuthal", f.fq + ": " + txt[:50], "row index is not the variable of a range loop", where)
            continue
        rng = lp[0][3]
        lo, st = rng.lo.real_const(), rng.step.real_const()
        par_guard = None
        if st == 1 and lo == 1 and same_value(rng.hi, nord):
            # one loop over all rows with the parity decided inside: `if i % 2 == 1: <cos row> else: <sin row>`
            par_guard = _parity_of_branch(f.node, lineno, row.single_atom())
        if par_guard is not None:
            par = par_guard
            got = _parity_simplify(val_, row.single_atom(), par)
            want = Rat.atom(Fn("cos", ((q + 1) * theta,))) if par == 1 else Rat.atom(Fn("sin", (q * theta,)))
            seen["cos" if par == 1 else "sin"] = True
            check_equal(rep, "A7.azimuthal", f.fq + (": odd row i = cos((i+1)/2 theta)" if par else ": even row i = sin(i/2 theta)"), got, want, where,
                        what="azimuthal function")
            continue
        if st != 2 or lo not in (1, 2) or not same_value(rng.hi, nord):
            rep.violation("A7.azimuthal", f.fq + ": rows of `%s`" % txt[:50], "loop range(%s, %s, %s) does not run over the odd (from 1) or "
                          "the even (from 2) rows below nord" % (nf(rng.lo), nf(rng.hi), nf(rng.step)), where)
            continue
        par = int(lo) % 2
        got = _parity_simplify(val_, row.single_atom(), par)
        # odd rows i = 2q+1: cos((q+1) theta); even rows i = 2q: sin(q theta)
        want = Rat.atom(Fn("cos", ((q + 1) * theta,))) if par == 1 else Rat.atom(Fn("sin", (q * theta,)))
        seen["cos" if par == 1 else "sin"] = True
        check_equal(rep, "A7.azimuthal", f.fq + (": odd row i = cos((i+1)/2 theta)" if par else ": even row i = sin(i/2 theta)"), got, want, where,
                    what="azimuthal function")
    missing = [k_ for k_, v_ in seen.items() if not v_]
    rep.check(not missing, "A7.azimuthal", f.fq + ": constant, cosine and sine rows all written", "no store found for the %s rows" % missing, f.where())
    al = [a for a in I.alloc_log if a[0] == f.fq]
    rep.check(len(al) == 1 and same_value(al[0][2][0] if al[0][2] else None, (1 + nord, npp)), "A7.azimuthal", f.fq + ": table allocated as zeros((1 + nord, npp))",
              "allocation %s" % ([nf(x) for x in al[0][2]] if al else None), f.where())


def _parity_of_branch(fnode, lineno, loopsym):
    """1 / 0 / None: the store at `lineno` sits in the branch of `if v % 2 == 1` / `if v % 2 == 0` / `if v % 2` (v the loop
    variable of the enclosing for) that is taken for odd / even v"""
    store = next((n for n in ast.walk(fnode) if isinstance(n, ast.Assign) and n.lineno == lineno), None)
    if store is None:
        return None
    for loop in ast.walk(fnode):
        if not (isinstance(loop, ast.For) and isinstance(loop.target, ast.Name) and any(n is store for n in ast.walk(loop))):
            continue
        v = loop.target.id
        for iff in ast.walk(loop):
            if not isinstance(iff, ast.If):
                continue
            in_body = any(n is store for b in iff.body for n in ast.walk(b))
            in_else = any(n is store for b in iff.orelse for n in ast.walk(b))
            if not (in_body or in_else):
                continue
            t = norm_text(iff.test).replace(" ", "")
            odd_when_true = {"%s%%2==1" % v: True, "%s%%2!=0" % v: True, "%s%%2" % v: True, "%s&1" % v: True,
                             "%s%%2==0" % v: False, "%s%%2!=1" % v: False, "not%s%%2" % v: False}.get(t)
            if odd_when_true is None:
                return None
            return 1 if (odd_when_true == in_body) else 0
    return None


# ----------------------------------------------------------------------------------------------------- A8
def piston(rep, ix):
    f = ix.func(MOD, "piston_orth")
    nr = S("nr", "int")
    I = Interp(ix)
    I.returns(f, [nr])
    stores = [s_ for s_ in I.store_log if s_[0] == f.fq]
    loops = [l for l in I.loop_log if l[0] == f.fq]
    if len(loops) != 1 or not isinstance(loops[0][3], RangeVal) or len(stores) != 3:
        rep.unknown("A8.piston", f.fq, "expected one range loop and three stores (found %d / %d)" % (len(loops), len(stores)), f.where())
        return
    j = loops[0][2]
    rng = loops[0][3]
    rep.check(same_value((rng.lo, rng.hi, rng.step), (Rat.const(0), nr - 1, Rat.const(1))), "A8.piston", f.fq + ": columns j = 0 .. nr-2",
              "loop runs over range(%s, %s, %s)" % (nf(rng.lo), nf(rng.hi), nf(rng.step)), f.where())
    from ..plf import rpow
    norm = rpow((j + 1) * (j + 2), Fr(-1, 2))
    full = ("slice", Rat.const(0), None, None)
    want = [((("slice", Rat.const(0), j + 1, None), j), norm, "s[0:j+1, j] = 1/sqrt((j+1)(j+2))"),
            ((j + 1, j), -(j + 1) * norm, "s[j+1, j] = -(j+1)/sqrt((j+1)(j+2))"),
            ((full, nr - 1), rpow(nr, Fr(-1, 2)), "s[:, nr-1] = 1/sqrt(nr)")]
    for idx_w, val_w, label in want:
        hit = [s_ for s_ in stores if same_value(s_[2], idx_w)]
        if len(hit) != 1:
            rep.violation("A8.piston", f.fq + ": " + label, "no store at that position (stores at %s)" % [nf(s_[2], 60) for s_ in stores], f.where())
            continue
        check_equal(rep, "A8.piston", f.fq + ": " + label, hit[0][3], val_w, "%s:%d" % (f.module.relpath, hit[0][4]), what="matrix entry")
    al = [a for a in I.alloc_log if a[0] == f.fq]
    rep.check(len(al) == 1 and same_value(al[0][2][0] if al[0][2] else None, (nr, nr)), "A8.piston", f.fq + ": zeros((nr, nr))",
              "allocation %s" % ([nf(x) for x in al[0][2]] if al else None), f.where())


# ----------------------------------------------------------------------------------------------------- A14
def rebin_rule(rep, ix):
    """rebin(a, newshape)[i, j, ...] = a[floor(i * old0 / new0), floor(j * old1 / new1), ...] with exactly new_k indices per
    axis (every clause above takes this for granted: radii, polang, gkl_sfi replicate columns / rows with it).  The index
    vectors must be computed in integer arithmetic: a slice / arange / mgrid with the float step old/new has
    ceil(old / (old/new)) elements, which is new + 1 for some sizes (old = 1: new = 49, 98, 103, 107, ..., 425, ...)."""
    f = ix.func(MOD, "rebin")
    rep.functions_analysed.add(f.fq)
    a = S("a", "array")
    n0, n1 = S("n0", "int"), S("n1", "int")
    I = Interp(ix, square=False)
    I.param_flags = {}
    # float-step index grids
    floaty = []
    for n in ast.walk(f.node):
        step = None
        if isinstance(n, ast.Call) and norm_text(n.func).split(".")[-1] == "slice" and len(n.args) == 3:
            step = n.args[2]
        elif isinstance(n, ast.Call) and norm_text(n.func).split(".")[-1] == "arange" and len(n.args) == 3:
            step = n.args[2]
        elif isinstance(n, ast.Slice) and n.step is not None:
            step = n.step
        if step is not None and any(isinstance(x, ast.Div) for x in ast.walk(step)):
            floaty.append((n, step))
    for n, step in floaty:
        rep.violation("A14.rebin", "%s: index grid with step %s" % (f.fq, norm_text(step)),
                      "the indices of an axis are generated with the non-integer step %s: the number of generated indices is "
                      "ceil(extent / step) in floating point, which is one more than the requested size for some sizes (1 -> 49, 98, 425, ...), so "
                      "the replicated table has an extra column (radii(85, 425, ri) is 85 x 426)" % norm_text(step), f.where(n))
    if floaty:
        return
    rets = I.returns(f, [a, (n0, n1)])
    ok = False
    got = None
    if len(rets) == 1 and isinstance(rets[0][1], Rat):
        got = rets[0][1]
        ga = got.single_atom()
        if isinstance(ga, Fn) and ga.name == "getitem" and same_value(ga.args[0], a):
            idx = ga.args[1]
            ia = idx.single_atom() if isinstance(idx, Rat) else None
            comps = list(ia.args) if isinstance(ia, Fn) and ia.name == "ix_" else None
            if comps is not None and len(comps) == 2:
                want = [Rat.atom(Fn("floordiv", (Rat.atom(Fn("arange", (Rat.const(0), n_, Rat.const(1)))) * Rat.sym("shape(a)[%d]" % k_, ("int", "size")), n_)))
                        for k_, n_ in enumerate((n0, n1))]
                from ..elem import canonical_extents
                ok = all(same_value(canonical_extents(c_, {"a": 2}), canonical_extents(w_, {"a": 2})) for c_, w_ in zip(comps, want))
    rep.check(ok, "A14.rebin", f.fq + ": item (i, j) is a[i*old0 // new0, j*old1 // new1], new_k indices per axis, integer arithmetic",
              "rebin returns %s" % (nf(got, 200) if got is not None else "several paths"), f.where())


# ----------------------------------------------------------------------------------------------------- A13
def kernel_rule(rep, ix):
    """gkl_kernel: L[i, j, :] = L[j, i, :] = -1/(4 pi (1 - ri^2)) * (2 pi / nth) * DFT_theta D( 1/2 |r_i e^{i theta} - r_j| ),
    theta_k = 2 pi k / nth on nth = 5 nr samples of the full circle (Cannon 1996, eq. 13): the azimuthal Fourier coefficients
    of the structure-function kernel, for every pair j <= i"""
    f = ix.func(MOD, "gkl_kernel")
    rep.functions_analysed.add(f.fq)
    ri, nr, rad = S("ri", "scalar"), S("nr", "int"), S("rad", "array")
    stfK, stfV = MOD + ":stf_kolmogorov", MOD + ":stf_vonKarman"
    from ..plf import rpow
    for tagname, stf, osc, callee in (("kolmogorov", "kolmogorov", None, stfK), ("vonKarman", "vonKarman", S("outerscale", "scalar"), stfV)):
        I = Interp(ix, opaque={stfK, stfV})
        rets = I.returns(f, [ri, nr, rad, stf, osc])
        stores = _uniq([s_ for s_ in I.store_log if s_[0] == f.fq and s_[1] == "kernel"], lambda s_: (s_[4], vkey(s_[2]), vkey(s_[3])))
        loops = _uniq([l for l in I.loop_log if l[0] == f.fq], lambda l: (l[1], vkey(l[2])))
        tag = "%s[%s]" % (f.fq, tagname)
        if len(loops) != 2 or len(stores) != 2 or not all(isinstance(l[3], RangeVal) for l in loops):
            rep.unknown("A13.kernel", tag, "expected a double loop over (i, j <= i) with the two symmetric stores (%d loops, %d stores)" % (len(loops), len(stores)), f.where())
            continue
        lo_, li_ = sorted(loops, key=lambda l: (nf(l[2]) if isinstance(l[2], Rat) else str(l[2]), l[1]))      # outer loop first (nesting depth)
        i_, j_ = lo_[2], li_[2]
        rep.check(same_value((lo_[3].lo, lo_[3].hi, lo_[3].step), (Rat.const(0), nr, Rat.const(1))) and
                  same_value((li_[3].lo, li_[3].hi, li_[3].step), (Rat.const(0), i_ + 1, Rat.const(1))), "A13.kernel",
                  tag + ": all pairs j <= i < nr", "loops run over range(%s) x range(%s)" % (nf(lo_[3].hi), nf(li_[3].hi)), f.where())
        full = ("slice", Rat.const(0), None, None)
        nth = 5 * nr
        theta = Rat.atom(Fn("arange", (Rat.const(0), nth, Rat.const(1)))) * (2 * 3.141592653589793) / nth
        g = lambda k_: Rat.atom(Fn("getitem", (rad, k_)))
        dist = rpow(g(i_) ** 2 + g(j_) ** 2 - 2 * g(i_) * g(j_) * Rat.atom(Fn("cos", (theta,))), Fr(1, 2)) * 0.5
        sf = Rat.atom(Fn("call:" + callee, (dist,) if osc is None else (dist, osc)))
        want = (-1.0 / (4 * 3.141592653589793)) / (1 - ri ** 2) * (2 * 3.141592653589793 / nth) * \
            Rat.atom(Fn("fft", (sf, ("kw:axis", Rat.const(0)))))
        idx_want = [(i_, j_, full), (j_, i_, full)]
        seen_idx = set()
        for s_ in stores:
            hit = [k_ for k_, w_ in enumerate(idx_want) if same_value(s_[2], w_)]
            if not hit:
                rep.violation("A13.kernel", tag + ": store at %s" % nf(s_[2], 60), "kernel entries are stored at %s, not at [i, j, :] and [j, i, :]" % nf(s_[2], 80),
                              "%s:%d" % (f.module.relpath, s_[4]))
                continue
            seen_idx.add(hit[0])
            got = _fft_canon(s_[3])
            # A15: the squared chord r_i^2 + r_j^2 - 2 r_i r_j cos(theta) is >= 0 in exact arithmetic but is evaluated as a
            # difference: for i == j, theta = 0 it is (r^2 + r^2) - 2 r r, which rounding makes -2.2e-16 for some r; its square
            # root is then nan, the whole kernel row is nan and the eigen-solver fails.  It must be clamped at zero.
            chord = g(i_) ** 2 + g(j_) ** 2 - 2 * g(i_) * g(j_) * Rat.atom(Fn("cos", (theta,)))
            guards = {}

            def unguard(a):
                if isinstance(a, Fn) and a.name in ("maximum", "fmax") and len(a.args) == 2 and all(isinstance(x, Rat) for x in a.args):
                    for x, y in (a.args, a.args[::-1]):
                        if y.is_zero() and same_value(x.subst(unguard), chord):
                            guards[vkey(chord)] = a.name
                            return x.subst(unguard)
                if isinstance(a, Fn) and a.name == "clip" and len(a.args) == 3 and isinstance(a.args[0], Rat) and isinstance(a.args[1], Rat) \
                        and a.args[1].is_zero() and (a.args[2] is None or a.args[2] == "max") and same_value(a.args[0].subst(unguard), chord):
                    guards[vkey(chord)] = "clip"
                    return a.args[0].subst(unguard)
                return None
            got = got.subst(unguard) if isinstance(got, Rat) else got
            roots = [a for a in (got.atoms() if isinstance(got, Rat) else []) if isinstance(a, PowA) and same_value(a.base, chord)]
            if roots:
                rep.check(bool(guards), "A15.chord-radicand", tag + ": L[%s, :]: the squared chord is clamped at zero before the square root"
                          % ("i, j" if hit[0] == 0 else "j, i"),
                          "sqrt(r_i^2 + r_j^2 - 2 r_i r_j cos(theta)) is taken of the bare difference: for i == j and theta = 0 it is "
                          "(r^2 + r^2) - 2 r r, which is -2.2e-16 for some radii (ri = 0.35, nr = 21: r_9; also (0.2, 31), (0.6, 40), "
                          "(0, 57), ...); the kernel row is then nan and make_kl fails (LinAlgError) or returns nan modes",
                          "%s:%d" % (f.module.relpath, s_[4]))
            else:
                rep.unknown("A15.chord-radicand", tag + ": L[%s, :]" % ("i, j" if hit[0] == 0 else "j, i"),
                            "the separation is not written as the square root of r_i^2 + r_j^2 - 2 r_i r_j cos(theta)",
                            "%s:%d" % (f.module.relpath, s_[4]))
            check_equal(rep, "A13.kernel", tag + ": L[%s, :] = fnorm (2 pi/nth) DFT_theta D(|r_i e^{i theta} - r_j| / 2)" % ("i, j" if hit[0] == 0 else "j, i"),
                        got, _fft_canon(want), "%s:%d" % (f.module.relpath, s_[4]), what="kernel row")
        rep.check(seen_idx == {0, 1}, "A13.kernel", tag + ": both [i, j, :] and [j, i, :] are stored (the kernel is symmetric)",
                  "stores found at %s" % [nf(s_[2], 40) for s_ in stores], f.where())
        al = _uniq([a for a in I.alloc_log if a[0] == f.fq], lambda a: (a[4], vkey(tuple(a[2]))))
        rep.check(len(al) == 1 and same_value(al[0][2][0] if al[0][2] else None, (nr, nr, nth)), "A13.kernel", tag + ": zeros((nr, nr, 5 nr))",
                  "allocation %s" % ([nf(x) for x in al[0][2]] if al else None), f.where())


def _fft_canon(v):
    """numpy.fft.fft(x) and numpy.fft.fft(x, axis=0) / axis=-1 of a 1-D sample vector are the same transform"""
    if not isinstance(v, Rat):
        return v

    def f(a):
        if isinstance(a, Fn) and a.name == "fft" and a.args:
            def _triv(x):
                if not (isinstance(x, tuple) and len(x) == 2 and x[0] == "kw:axis"):
                    return False
                c = x[1].real_const() if isinstance(x[1], Rat) else x[1]
                return c in (0, -1)
            rest = [x for x in a.args[1:] if not _triv(x)]
            return Rat.atom(Fn("fft", (a.args[0],) + tuple(rest)))
        return None
    return v.subst(f)


# ----------------------------------------------------------------------------------------------------- A10 / A11
def fcom(rep, ix):
    f = ix.func(MOD, "gkl_fcom")
    ri, ker, nfunc = S("ri", "scalar"), S("kernels"), S("nfunc", "int")
    I = Interp(ix, opaque={MOD + ":piston_orth"})
    rets = [v for c, v in I.returns(f, [ri, ker, nfunc]) if isinstance(v, tuple)]
    nr = Rat.sym("shape(kernels)[0]", ("int", "size"))
    alt = Rat.sym("shape(kernels)[-3]", ("int", "size"))
    canon = lambda v: v.subst(lambda a: nr if a == alt.single_atom() else None) if isinstance(v, Rat) else v
    A_ = lambda n: [canon(x) for x in _assigned(I, f.fq, n)]
    # A11 constants
    fk = A_("fktom")
    rep.check(len(fk) == 1 and isinstance(fk[0], Rat) and fk[0].equals((1 - ri ** 2) / nr), "A11.normalisation",
              f.fq + ": quadrature weight (1 - ri^2)/nr", "fktom = %s" % (nf(fk[0]) if fk else None), f.where())
    eig = lambda v: find_atoms(v, lambda a: isinstance(a, Fn) and "eigh" in a.name) if isinstance(v, (Rat, tuple)) else []
    st = [s_ for s_ in I.store_log if s_[0] == f.fq and s_[1] == "kers"]
    from ..plf import rpow
    ok0 = okn = False
    msg0 = msgn = "no store into the eigenvector table found"
    for s_ in st:
        idx, val_ = s_[2], canon(s_[3])
        third = idx[2] if isinstance(idx, tuple) and len(idx) == 3 else None
        if isinstance(third, Rat) and third.real_const() == 0:
            # order 0: sqrt(nr) * (v1 . s)^T
            sc = _scalar_factor(val_)
            ok0 = sc is not None and sc.equals(rpow(nr, Fr(1, 2)))
            msg0 = "order-0 eigenvectors scaled by %s" % (nf(sc) if sc is not None else nf(val_, 80))
        elif isinstance(third, Rat) and not third.is_const():
            sc = _scalar_factor(val_)
            okn = sc is not None and sc.equals(rpow(2 * nr, Fr(1, 2)), 1e-9)
            msgn = "higher-order eigenvectors scaled by %s" % (nf(sc) if sc is not None else nf(val_, 80))
            # the eigenproblem is solved for weight * kernel of that order
            e_ = eig(val_)
            arg = e_[0].args[0] if e_ else None
            w_ok = False
            if isinstance(arg, Rat):
                sc2 = _scalar_factor(arg)
                w_ok = sc2 is not None and sc2.equals((1 - ri ** 2) / nr)
            rep.check(w_ok, "A11.normalisation", f.fq + ": eigenproblem of weight * kernel (orders >= 1)",
                      "eigh is applied to %s" % nf(arg, 120), "%s:%d" % (f.module.relpath, s_[4]))
    rep.check(ok0, "A11.normalisation", f.fq + ": order-0 radial functions scaled by sqrt(nr)", msg0, f.where(), note=msg0)
    rep.check(okn, "A11.normalisation", f.fq + ": radial functions of order >= 1 scaled by sqrt(2 nr)", msgn, f.where(), note=msgn)
    # A10 ordering
    a_l = A_("a")
    ev_l = A_("evals")
    evs_l = A_("evs")
    good = False
    why = "selection index not found"
    if a_l and isinstance(a_l[-1], Rat):
        at = a_l[-1].single_atom()
        if isinstance(at, Fn) and at.name == "getitem" and isinstance(at.args[0], Rat):
            inner = at.args[0].single_atom()
            sl = at.args[1]
            if isinstance(inner, Fn) and inner.name == "argsort" and isinstance(inner.args[0], Rat):
                table = -inner.args[0]
                good = same_value(sl, ("slice", Rat.const(0), nfunc, None)) and bool(evs_l) and same_value(table, evs_l[-1])
                why = "a = argsort(%s)[%s]" % (nf(inner.args[0], 80), nf(sl, 40))
    rep.check(good, "A10.ordering", f.fq + ": a = argsort(-eigenvalues)[:nfunc] (largest first)", why, f.where(), note=why)
    good2 = False
    why2 = "returned eigenvalues not found"
    if ev_l and evs_l and isinstance(ev_l[-1], Rat):
        at = ev_l[-1].single_atom()
        if isinstance(at, Fn) and at.name == "getitem":
            good2 = same_value(at.args[0], evs_l[-1])
            why2 = "evals = (%s)[...]" % nf(at.args[0], 80)
    rep.check(good2 and bool(rets) and all(same_value(canon(r[0]), ev_l[-1]) for r in rets), "A10.ordering",
              f.fq + ": returned variances are read from the sorted table through the selection", why2, f.where(), note=why2)


def _scalar_factor(v):
    """v = scalar * (one array atom): the scalar, else None"""
    if not isinstance(v, Rat):
        return None
    ts = v.terms()
    if ts is None or not ts:
        return None
    arr = None
    out = Rat({})
    for c, m in ts:
        heavy = [(a, e) for a, e in m if isinstance(a, Fn) and a.name not in ("shape", "len", "size") or
                 (isinstance(a, Sym) and not any(fl in a.flags for fl in ("scalar", "int", "size")))]
        if len(heavy) != 1 or heavy[0][1] != 1:
            return None
        if arr is None:
            arr = heavy[0][0]
        elif arr != heavy[0][0]:
            return None
        out = out + Rat({tuple(x for x in m if x[0] != arr): c})
    return out
