"""C03 - covariance construction is independent of process count and scheduling.

Structural argument (every fact re-derived from /repo on each run):
O1  the workers are run through an order-preserving collective (Pool.map / starmap /
    builtin map); the mapped function forwards its tuple unchanged to wfs_covariance
O2  results are consumed positionally in producer order: the loop nest that builds
    the argument list and the one that consumes the results have identical headers
    in identical order; the counter starts at 0 where the list is (re)created and
    is incremented exactly once per innermost iteration, unconditionally
O3  the worker and everything reachable from it is pure (FX: no module state, no
    RNG, no clock, no mutation of its arguments)
O4  the 8-tuple built for the pool equals, element by element, the argument list of
    the direct call in the single-process copy
O5  the assembly statements of the two copies are the same operations in the same
    order (identical expression trees after inlining locals), hence bit-identical
O6  both copies allocate a zeroed float32 (2T, 2T) accumulator at the start of every
    build
O7  no state is carried between builds: every self attribute read during a build is
    configuration (assigned only in __init__, never written or mutated later) or is
    assigned afresh earlier in the same build; in-place updates act on copies
O8  the only use of the thread count is the dispatch between the two copies (and
    the pool size)
Trusted: multiprocessing.Pool.map returns results in submission order whatever
the completion order.
"""
import ast

from ..common import get_index, nf, same_value
from ..fx import FX
from ..index import norm_text, dotted
from ..interp import Interp, Obj, has_unknown
from ..plf import Rat, Sym, Fn, find_atoms
from ..report import AnalysisError

LEVEL = "proof"
MOD = "aotools.turbulence.slopecovariance"
ORDERED = {"map", "starmap"}
UNORDERED = {"imap_unordered", "apply_async", "map_async", "starmap_async", "imap", "submit", "as_completed"}


def loops_enclosing(fnode, target):
    """list of For nodes (outermost first) enclosing `target` inside fnode"""
    path = []

    def rec(node, stack):
        if node is target:
            path.extend(stack)
            return True
        for ch in ast.iter_child_nodes(node):
            if rec(ch, stack + ([node] if isinstance(node, (ast.For, ast.While)) else [])):
                return True
        return False
    rec(fnode, [])
    return path


def header(loop):
    return (norm_text(loop.target), norm_text(loop.iter)) if isinstance(loop, ast.For) else ("while", norm_text(loop.test))


def inline_locals(expr, defs):
    """expression with local names replaced by their (unique) defining expressions"""
    class T(ast.NodeTransformer):
        def visit_Name(self, n):
            if isinstance(n.ctx, ast.Load) and n.id in defs:
                return self.visit(ast.parse(defs[n.id], mode="eval").body)
            return n
    return norm_text(T().visit(ast.parse(norm_text(expr), mode="eval").body))


def assembly(innermost_body):
    """(local defs in order, [(target slice text, op, value text)]) of the assembly statements"""
    defs = {}
    stores = []
    for st in innermost_body:
        if isinstance(st, ast.Assign) and len(st.targets) == 1 and isinstance(st.targets[0], ast.Name):
            defs[st.targets[0].id] = inline_locals(st.value, defs)
        elif isinstance(st, ast.AugAssign) and isinstance(st.target, ast.Subscript):
            stores.append((inline_locals(st.target, defs), norm_text(st.target.value), type(st.op).__name__,
                           inline_locals(st.value, defs), st))
    return defs, stores


def run(rep, tier, root=None):
    ix = get_index(root)
    fx = FX(ix)
    rep.trusted_base += ["multiprocessing.Pool.map / starmap return results in the order of the submitted iterable (Python documentation)",
                         "FX tables (sa/fx.py) for purity of the worker"]
    rep.assumptions += ["pickling the arguments to worker processes preserves their values (float64 / int arrays)"]
    rep.explanation = ("The schedule-independence argument is decomposed into eight structural facts (ordered collective, positional "
                       "consumption in producer order, pure worker, same arguments, same operation trees, fresh accumulator, no "
                       "carried attributes, dispatch only), each decided on the syntax tree / resolved call graph / effect summaries; "
                       "together with the Pool.map ordering contract they give bit-identity for every worker count, completion order "
                       "and rebuild history.")
    rep.rule_text = "O1..O8; one obligation per fact instance (loop header pair, tuple element, store, attribute)"
    cls = ix.cls(MOD, "CovarianceMatrix")
    rep.files_analysed.add(cls.module.relpath)
    sp = cls.find_method("_make_covariance_matrix")
    mp = cls.find_method("_make_covariance_matrix_mp")
    top = cls.find_method("make_covariance_matrix")
    init = cls.find_method("__init__")
    if not (sp and mp and top and init):
        raise AnalysisError("CovarianceMatrix build methods not found")
    for f in (sp, mp, top, init):
        rep.functions_analysed.add(f.fq)

    # ---------------------------------------------------------------- O1
    calls = [n for n in ast.walk(mp.node) if isinstance(n, ast.Call) and isinstance(n.func, ast.Attribute)
             and (n.func.attr in ORDERED or n.func.attr in UNORDERED)]
    pool_calls = []
    for n in calls:
        recv = n.func.value
        if isinstance(recv, ast.Name):
            for a in ast.walk(mp.node):
                if isinstance(a, (ast.Assign, ast.With)):
                    pass
            src = _binding_of(mp.node, recv.id)
            if src is not None and _is_pool(ix, mp, src):
                pool_calls.append(n)
    if len(pool_calls) != 1:
        rep.unknown("O1.ordered-collective", mp.fq, "expected exactly one collective call on a multiprocessing pool, found %d" % len(pool_calls), mp.where())
        return
    pc = pool_calls[0]
    if pc.func.attr in UNORDERED:
        rep.violation("O1.ordered-collective", "%s: pool.%s" % (mp.fq, pc.func.attr),
                      "results are collected with %s, which does not return a list in submission order: the positional "
                      "consumption below then depends on worker completion order / is not a list of results" % pc.func.attr, mp.where(pc))
    else:
        rep.ok("O1.ordered-collective", "%s: pool.%s" % (mp.fq, pc.func.attr), "order-preserving")
    wb = ix.resolve_expr(mp.module, pc.args[0], ix.local_names(mp)) if pc.args else None
    if wb is None or wb.kind != "func":
        rep.unknown("O1.worker", mp.fq, "mapped function does not resolve to a repo function", mp.where(pc))
        return
    worker = wb.target
    rep.functions_analysed.add(worker.fq)
    wc = ix.func(MOD, "wfs_covariance")
    I = Interp(ix, opaque={wc.fq})
    tup = tuple(Rat.sym("a%d" % i) for i in range(len(wc.params)))
    wr = I.returns(worker, [tup]) if pc.func.attr == "map" else I.returns(worker, list(tup))
    want = Rat.atom(Fn("call:" + wc.fq, tup))
    rep.check(len(wr) == 1 and same_value(wr[0][1], want), "O1.worker", worker.fq + "(args) == wfs_covariance(*args)",
              "the pool worker does not forward its argument tuple unchanged to wfs_covariance: %s" % (nf(wr[0][1], 200) if wr else None),
              worker.where())

    # ---------------------------------------------------------------- O2
    res_assign = _stmt_containing(mp.node, pc)
    res_name = norm_text(res_assign.targets[0]) if isinstance(res_assign, ast.Assign) else None
    sub = pc.args[1] if len(pc.args) > 1 else None
    P = None
    args_name = None
    g = _gather(sub)
    if isinstance(sub, ast.Name):
        args_name = sub.id
    elif g is not None:
        args_name, P = g
    # the list that is consumed positionally: the results themselves, or a re-indexing of them
    Q = None
    consumed = res_name
    if res_name is not None:
        for n in ast.walk(mp.node):
            if isinstance(n, ast.Assign) and n is not res_assign:
                g2 = _gather(n.value)
                if g2 is not None and g2[0] == res_name:
                    consumed, Q = norm_text(n.targets[0]), g2[1]
    if P is not None or Q is not None:
        defs = {norm_text(n.targets[0]): norm_text(n.value) for n in ast.walk(mp.node) if isinstance(n, ast.Assign) and len(n.targets) == 1}
        qdef = defs.get(Q, Q) if Q else None
        inverse_ok = Q is not None and P is not None and qdef is not None and \
            qdef.replace(" ", "") in ("numpy.argsort(%s)" % P, "numpy.argsort(%s,kind='stable')" % P, "%s.argsort()" % P)
        if inverse_ok:
            rep.ok("O2.dispatch-permutation", mp.fq + ": results are scattered back with the inverse of the dispatch permutation")
        elif P is not None and Q is None:
            rep.violation("O2.dispatch-permutation", mp.fq + ": tasks are submitted in order `%s` but results are consumed in loop order" % P,
                          "the argument list is re-ordered by `%s` before pool.map, and the results (which come back in *that* order) are "
                          "consumed positionally as if they were in loop order" % P, mp.where(pc))
        elif P is not None and Q == P:
            rep.violation("O2.dispatch-permutation", mp.fq + ": `%s` applied to the results again instead of its inverse" % P,
                          "tasks are submitted as [args[n] for n in %s], so result k belongs to pair %s[k]; [results[n] for n in %s] applies "
                          "the same permutation a second time, which restores loop order only if the permutation is its own inverse "
                          "(e.g. equal sensors); other layouts hand a block the result of a different sensor pair" % (P, P, P), mp.where(pc))
        else:
            rep.unknown("O2.dispatch-permutation", mp.fq, "results are re-indexed (%s / %s) in a way the rule cannot relate to the dispatch order" % (P, Q), mp.where(pc))
    appends = [n for n in ast.walk(mp.node) if isinstance(n, ast.Call) and isinstance(n.func, ast.Attribute)
               and n.func.attr == "append" and norm_text(n.func.value) == args_name]
    consumers = [n for n in ast.walk(mp.node) if isinstance(n, ast.Subscript) and norm_text(n.value) == consumed
                 and isinstance(n.ctx, ast.Load) and not _inside_listcomp(mp.node, n)]
    # Two ways to decide that results are read back in submission order: the syntactic discipline of a for/append producer
    # and a counter-indexed consumer (below), or - for any other spelling (comprehensions, iterators, zip) - the
    # interpreter's sequence semantics, which resolves a positional read to the call made for *this* iteration only when
    # producer and consumer nests are identical (checked after O4/O5 on the resolved block updates).
    syntactic = res_name is not None and len(appends) == 1 and len(consumers) == 1
    prod_loops = cons_loops = []
    if syntactic:
        prod_loops = loops_enclosing(mp.node, appends[0])
        cons_loops = loops_enclosing(mp.node, consumers[0])
        init_args = [n for n in ast.walk(mp.node) if isinstance(n, ast.Assign) and norm_text(n.targets[0]) == args_name]
        if len(init_args) != 1:
            syntactic = False
    if syntactic:
        outer = loops_enclosing(mp.node, init_args[0])
        po = prod_loops[len(outer):]
        co = cons_loops[len(outer):]
        rep.check([header(l) for l in prod_loops[:len(outer)]] == [header(l) for l in outer] and
                  [header(l) for l in cons_loops[:len(outer)]] == [header(l) for l in outer],
                  "O2.same-scope", mp.fq + ": list creation, map call and consumption share the same enclosing loops",
                  "producer loops %s / consumer loops %s / list creation loops %s" % ([header(l) for l in prod_loops], [header(l) for l in cons_loops],
                                                                                    [header(l) for l in outer]), mp.where(init_args[0]))
        rep.check(len(po) == len(co) and len(po) > 0, "O2.positional-consumption", mp.fq + ": producer and consumer nests have the same depth",
                  "producer nest depth %d, consumer nest depth %d" % (len(po), len(co)), mp.where())
        for k, (a, b) in enumerate(zip(po, co)):
            rep.check(header(a) == header(b), "O2.positional-consumption", "%s: loop level %d: `for %s in %s` on both sides" % ((mp.fq, k) + header(a)),
                      "producer iterates `for %s in %s` but consumer `for %s in %s`: results are read in a different order than they were "
                      "submitted" % (header(a) + header(b)), mp.where(b))
        idx = consumers[0].slice
        cnt = norm_text(idx) if isinstance(idx, ast.Name) else None
        if cnt is None:
            # enumerate-style consumption is accepted when the index is the enumerate counter of a single flat loop
            rep.unknown("O2.counter", mp.fq, "results are indexed by %s, not by a counter variable" % norm_text(idx), mp.where(consumers[0]))
        else:
            writes = [n for n in ast.walk(mp.node) if isinstance(n, (ast.Assign, ast.AugAssign)) and
                      norm_text(n.targets[0] if isinstance(n, ast.Assign) else n.target) == cnt]
            inits = [n for n in writes if isinstance(n, ast.Assign)]
            incs = [n for n in writes if isinstance(n, ast.AugAssign)]
            ok_init = len(inits) == 1 and norm_text(inits[0].value) == "0" and \
                [header(l) for l in loops_enclosing(mp.node, inits[0])] == [header(l) for l in outer] and \
                inits[0].lineno > res_assign.lineno - 10 ** 6
            rep.check(ok_init, "O2.counter", mp.fq + ": counter reset to 0 where the result list is produced",
                      "counter initialisations: %s (must be `= 0` once, at the nesting level where the list is created)" % [norm_text(n) for n in inits],
                      mp.where(inits[0]) if inits else mp.where())
            inner = co[-1] if co else None
            ok_inc = len(incs) == 1 and inner is not None and incs[0] in inner.body and isinstance(incs[0].op, ast.Add) and \
                norm_text(incs[0].value) == "1"
            rep.check(ok_inc, "O2.counter", mp.fq + ": counter += 1 exactly once per innermost iteration, unconditionally",
                      "counter increments: %s (must be one top-level `+= 1` in the innermost consumer loop)" % [norm_text(n) for n in incs],
                      mp.where(incs[0]) if incs else mp.where())
            if ok_inc:
                use_line = consumers[0].lineno
                rep.check(use_line < incs[0].lineno, "O2.counter", mp.fq + ": result read before the counter advances",
                          "the counter is advanced before the result is read", mp.where(incs[0]))


    # ---------------------------------------------------------------- O3
    reach = _reachable(ix, fx, worker)
    for f in reach:
        rep.functions_analysed.add(f.fq)
        s = fx.summary(f)
        bad = []
        if s.global_mut or s.global_rebind:
            bad.append("writes module state %s" % sorted(list(s.global_mut) + list(s.global_rebind)))
        if s.rng_global:
            bad.append("uses the global RNG")
        if s.clock:
            bad.append("reads a clock / OS entropy")
        if s.mutates:
            bad.append("modifies its argument(s) %s" % sorted(s.mutates))
        gl = _reads_mutable_globals(ix, f)
        if gl:
            bad.append("reads module-level mutable object(s) %s" % gl)
        rep.check(not bad, "O3.pure-worker", f.fq + " is pure", "; ".join(bad), f.where())

    # ---------------------------------------------------------------- O4 / O5 via normal forms (interpreter logs), O6 syntax
    from ..interp import Obj
    from ..plf import vkey

    def logs_of(meth, extra_args):
        Ic = Interp(ix, opaque={wc.fq, worker.fq})
        oc = Obj(cls)
        Ic.paths(meth, list(extra_args), self_obj=oc)
        return Ic
    Isp = logs_of(sp, [])
    Imp = logs_of(mp, [Rat.sym("threads", ("int",))])
    # O4: the argument tuple each copy hands to wfs_covariance (values, not spellings: locals are substituted)
    sp_calls = [c for c in Isp.call_log if c[0] == sp.fq and c[1].split(".")[-1] == "wfs_covariance"]
    mp_tuples = [c[2][0] for c in Imp.call_log if c[0] == mp.fq and c[1].endswith(".append") and c[2] and isinstance(c[2][0], tuple)
                 and len(c[2][0]) == len(wc.params)]
    if len(mp_tuples) != 1:
        # no for/append producer: read the tuple from the per-pair call the block updates were resolved to
        srcs = []
        for s_ in Imp.store_log:
            if s_[0] == mp.fq and s_[1] == "self.covariance_matrix" and isinstance(s_[3], Rat):
                for a_ in find_atoms(s_[3], lambda t: isinstance(t, Fn) and t.name == "call:" + worker.fq):
                    if not any(a_ == b_ for b_ in srcs):
                        srcs.append(a_)
        mp_tuples = [a_.args[0] for a_ in srcs if a_.args and isinstance(a_.args[0], tuple) and len(a_.args[0]) == len(wc.params)]
        if not mp_tuples:
            mp_tuples = [tuple(a_.args) for a_ in srcs if len(a_.args) == len(wc.params)]
    if len(sp_calls) != 1 or len(mp_tuples) != 1:
        rep.unknown("O4.same-arguments", mp.fq, "expected one direct wfs_covariance call and one argument tuple handed to the pool (%d/%d)"
                    % (len(sp_calls), len(mp_tuples)), mp.where())
    else:
        a_sp = Isp.bind_args(wc, sp_calls[0][2], sp_calls[0][3], None) if sp_calls[0][3] else list(sp_calls[0][2])
        a_mp = list(mp_tuples[0])
        rep.check(len(a_sp) == len(a_mp) == len(wc.params), "O4.same-arguments", "both copies pass %d arguments" % len(wc.params),
                  "single-process call has %d arguments, pool tuple %d, wfs_covariance takes %d" % (len(a_sp), len(a_mp), len(wc.params)), mp.where())
        for k, (x, y) in enumerate(zip(a_sp, a_mp)):
            rep.check(same_value(x, y), "O4.same-arguments", "argument %d (%s)" % (k, wc.params[k] if k < len(wc.params) else "?"),
                      "single-process copy passes %s, pool copy passes %s" % (nf(x, 80), nf(y, 80)), mp.where())
    # O5: the same block updates, in the same order, over the same iteration space
    def updates(Ic, meth):
        out = []
        for s_ in Ic.store_log:
            if s_[0] == meth.fq and s_[1] == "self.covariance_matrix":
                out.append((s_[2], s_[5], _abstract_pair(s_[3]), s_[4], s_[6]))
        return out

    def _abstract_pair(v):
        """the per-pair result (the direct call / the positional read of the pool results) -> one placeholder"""
        if not isinstance(v, Rat):
            return v
        PAIR = Rat.sym("<pair>", ("array",))

        def f(a):
            if isinstance(a, Fn) and a.name in ("call:" + wc.fq, "call:" + worker.fq):
                return PAIR
            if isinstance(a, Fn) and a.name == "getitem" and isinstance(a.args[0], Rat):
                inner = a.args[0].single_atom()
                if isinstance(inner, Fn) and (inner.name.startswith("?method_map") or inner.name.startswith("?method_starmap")
                                              or inner.name in ("map", "seqmap")):
                    return PAIR
                if isinstance(inner, Sym) and inner.name == "self.cov_mats":
                    return PAIR
            return None
        return v.subst(f)
    u1, u2 = updates(Isp, sp), updates(Imp, mp)
    rep.check(len(u1) == len(u2) and len(u1) >= 4, "O5.same-operations", "both copies perform the same number of block updates",
              "single-process copy has %d block updates, pool copy %d" % (len(u1), len(u2)), mp.where())
    for k, (x, y) in enumerate(zip(u1, u2)):
        same = same_value(x[0], y[0]) and x[1] == y[1] and same_value(x[2], y[2])
        rep.check(same, "O5.same-operations", "block update %d: %s" % (k, x[4][:70]),
                  "the two copies do not perform the same operations in the same order:\n    single: [%s] %s= %s\n    pool:   [%s] %s= %s"
                  % (nf(x[0], 120), x[1], nf(x[2], 160), nf(y[0], 120), y[1], nf(y[2], 160)), "%s:%d" % (mp.module.relpath, y[3]))
    # iteration space of the updates: the loops enclosing them, as (depth, range) normal forms
    def space(Ic, meth, upd):
        if not upd:
            return None
        node = next((n for n in ast.walk(meth.node) if isinstance(n, (ast.AugAssign, ast.Assign)) and n.lineno == upd[0][3]), None)
        if node is None:
            return None
        lines = [l.lineno for l in loops_enclosing(meth.node, node)]
        out = []
        for ln in lines:
            ent = [l for l in Ic.loop_log if l[0] == meth.fq and l[1] == ln]
            if not ent and any(u[0] == meth.fq and u[1] == ln for u in getattr(Ic, "unrolled_log", ())):
                continue        # a loop over a literal tuple: straight-line code, not part of the iteration space
            if not ent:
                return None
            it = ent[0][3]
            out.append(vkey((it.lo, it.hi, it.step)) if hasattr(it, "lo") else repr(it))
        return out
    if not syntactic:
        resolved = bool(u2) and all(isinstance(y[2], Rat) and not has_unknown(y[2]) and
                                    any(isinstance(a_, Sym) and a_.name == "<pair>" for a_ in y[2].atoms(True)) for y in u2)
        if resolved:
            rep.ok("O2.positional-consumption", mp.fq + ": every block update reads the result of the call made for its own (layer, pair)",
                   "resolved by the interpreter's sequence semantics: producer and consumer nests enumerate the same pairs in the same order")
        else:
            rep.unknown("O2.positional-consumption", mp.fq, "results are neither read by a counter over a for/append list nor resolvable as a "
                        "positional read of a sequence produced by an identical loop nest", mp.where())
    s1, s2 = space(Isp, sp, u1), space(Imp, mp, u2)
    rep.check(s1 is not None and s1 == s2, "O5.same-order", "both copies accumulate layer-major over the same pair order",
              "iteration spaces differ: single-process %s, pool consumer %s" % (s1, s2), sp.where())
    # O6
    for f in (sp, mp):
        al = [n for n in f.node.body if isinstance(n, ast.Assign) and norm_text(n.targets[0]) == "self.covariance_matrix"]
        first_loop = next((n for n in f.node.body if isinstance(n, (ast.For, ast.While))), None)
        txt = norm_text(al[0].value).replace(" ", "") if al else ""
        ok = len(al) == 1 and first_loop is not None and al[0].lineno < first_loop.lineno and \
            txt.startswith("numpy.zeros((2*self.total_subaps,2*self.total_subaps)") and "float32" in txt
        if not ok and len(al) == 1 and first_loop is not None and al[0].lineno < first_loop.lineno and "float32" in txt:
            # the same allocation with the extent in a local (`n = 2 * self.total_subaps`): read from the interpreter's allocation log
            I_ = Isp if f is sp else Imp
            T2 = 2 * Rat.sym("self.total_subaps", ("attr",))
            zs = [a_ for a_ in I_.alloc_log if a_[0] == f.fq and a_[1].split(".")[-1] == "zeros" and a_[4] == al[0].lineno]
            ok = len(zs) == 1 and bool(zs[0][2]) and isinstance(zs[0][2][0], (tuple, list)) and len(zs[0][2][0]) == 2 and \
                all(isinstance(q, Rat) and q.equals(T2) for q in zs[0][2][0])
        rep.check(ok, "O6.fresh-accumulator", f.fq + ": zeroed float32 (2T, 2T) accumulator allocated before the layer loop",
                  "accumulator initialisation is `%s`" % (norm_text(al[0]) if al else "missing"), f.where(al[0]) if al else f.where())

    # ---------------------------------------------------------------- O7
    build = [top, sp, mp]
    s_init = fx.summary(init)
    written_later = set()
    mutated = {}
    for name, meth in cls.all_methods().items():
        if meth is init:
            continue
        sm = fx.summary(meth)
        written_later |= sm.attr_writes
        for a, evs in sm.attr_mut.items():
            mutated.setdefault(a, []).extend(evs)
    per_build = set()
    for meth in build:
        per_build |= fx.summary(meth).attr_writes
    reads = set()
    for meth in build:
        reads |= fx.summary(meth).attr_reads
    for a in sorted(reads):
        if a in per_build:
            continue
        is_cfg = a in s_init.attr_writes and a not in written_later
        mut = [ev for ev in mutated.get(a, []) if ev.kind == "data"]
        if is_cfg and not mut:
            rep.ok("O7.config-immutable", "%s.%s" % (cls.fq, a), "assigned in __init__ only, never modified")
        elif not is_cfg and a not in s_init.attr_writes:
            meth_names = set(cls.all_methods())
            if a in meth_names:
                continue
            rep.violation("O7.config-immutable", "%s.%s" % (cls.fq, a), "attribute read during a build is never assigned in __init__ or earlier in the build", top.where())
        else:
            ev = mut[0] if mut else None
            rep.violation("O7.config-immutable", "%s.%s" % (cls.fq, a),
                          "configuration attribute self.%s is %s after construction: a later build starts from different state"
                          % (a, "modified in place (%s)" % ev.how if ev else "re-assigned by a non-constructor method"),
                          ev.where() if ev else top.where())
    # per-build attributes: assigned before any read, in statement order of the build
    order_ok = _assigned_before_read(rep, ix, fx, cls, top, per_build)
    # in-place updates during a build must not reach stored attributes through aliases
    for meth in build:
        sm = fx.summary(meth)
        for a, evs in sm.attr_mut.items():
            for ev in evs:
                if ev.kind != "data" or a == "covariance_matrix":
                    continue
                if ev.origin[0] == "VA":
                    rep.violation("O7.no-aliased-update", "%s: %s modifies self.%s" % (meth.fq, ev.stmt_text()[:70], a),
                                  "an in-place update reaches the stored attribute self.%s (%s): the value used by later layers / later "
                                  "builds is no longer the one computed from the configuration" % (a, ev.how), ev.where())
    if not any(o["rule"] == "O7.no-aliased-update" for o in rep.obligations):
        rep.ok("O7.no-aliased-update", cls.fq + ": in-place updates during a build act on fresh copies only")

    # ---------------------------------------------------------------- O8
    uses = []
    for meth in cls.all_methods().values():
        for n in ast.walk(meth.node):
            if isinstance(n, ast.Attribute) and isinstance(n.value, ast.Name) and n.value.id == "self" and n.attr == "threads" \
                    and isinstance(n.ctx, ast.Load):
                uses.append((meth, n))
    ok8 = True
    for meth, n in uses:
        st = _stmt_containing(meth.node, n)
        if isinstance(st, ast.If) and any(x is n for x in ast.walk(st.test)):
            bodies = [norm_text(b) for b in st.body + st.orelse]
            good = meth is top and all(("self._make_covariance_matrix" in b) for b in bodies) and len(bodies) == 2
            if not good:
                ok8 = False
                rep.violation("O8.dispatch-only", "%s: if %s" % (meth.fq, norm_text(st.test)),
                              "the thread count selects more than which assembly copy runs", meth.where(st))
        elif isinstance(st, ast.Expr) and "_make_covariance_matrix_mp" in norm_text(st):
            continue
        else:
            ok8 = False
            rep.violation("O8.dispatch-only", "%s: %s" % (meth.fq, norm_text(st)[:70]),
                          "the thread count influences the computation outside the dispatch", meth.where(st))
    tn = mp.params[1] if len(mp.params) > 1 else None
    if tn:
        for n in ast.walk(mp.node):
            if isinstance(n, ast.Name) and n.id == tn and isinstance(n.ctx, ast.Load):
                st = _stmt_containing(mp.node, n)
                if not (isinstance(st, (ast.Assign, ast.With)) and "Pool(" in norm_text(st)):
                    ok8 = False
                    rep.violation("O8.dispatch-only", "%s: %s" % (mp.fq, norm_text(st)[:70]),
                                  "the worker count is used outside the pool construction", mp.where(st))
    if ok8:
        rep.ok("O8.dispatch-only", cls.fq + ": thread count only selects the copy / sizes the pool")
    rep.sample({"producer_loops": [header(l) for l in prod_loops], "consumer_loops": [header(l) for l in cons_loops], "o2_form": "syntactic" if syntactic else "sequence semantics",
                "worker": worker.fq, "reachable_from_worker": [f.fq for f in reach]})
    rep.floor("C03 obligations", len(rep.obligations), 35)


def _gather(node):
    """[A[n] for n in P]  ->  (A, P) as source text"""
    if isinstance(node, ast.ListComp) and len(node.generators) == 1 and not node.generators[0].ifs and \
            isinstance(node.generators[0].target, ast.Name) and isinstance(node.elt, ast.Subscript) and \
            isinstance(node.elt.slice, ast.Name) and node.elt.slice.id == node.generators[0].target.id:
        return norm_text(node.elt.value), norm_text(node.generators[0].iter)
    return None


def _inside_listcomp(fnode, node):
    for n in ast.walk(fnode):
        if isinstance(n, ast.ListComp) and any(x is node for x in ast.walk(n)):
            return True
    return False


def _rename_pair(body, stores, src_node):
    """replace the locals unpacked from the per-pair tuple by <pair>[k]"""
    names = None
    for st in body:
        if isinstance(st, ast.Assign) and any(n is src_node for n in ast.walk(st.value)) and isinstance(st.targets[0], (ast.Tuple, ast.List)):
            names = [norm_text(e) for e in st.targets[0].elts]
    if not names:
        return stores
    out = []
    import re
    for a, b, c, d in stores:
        for k, nm in enumerate(names):
            pat = re.compile(r"\b%s\b" % re.escape(nm))
            a = pat.sub("<pair>[%d]" % k, a)
            d = pat.sub("<pair>[%d]" % k, d)
        out.append((a, b, c, d))
    return out


def _binding_of(fnode, name):
    src = None
    for n in ast.walk(fnode):
        if isinstance(n, ast.Assign) and any(isinstance(t, ast.Name) and t.id == name for t in n.targets):
            src = n.value
        elif isinstance(n, ast.With):
            for it in n.items:
                if isinstance(it.optional_vars, ast.Name) and it.optional_vars.id == name:
                    src = it.context_expr
    return src


def _is_pool(ix, f, expr):
    if not isinstance(expr, ast.Call):
        return False
    b = ix.resolve_expr(f.module, expr.func, set())
    if b is not None and b.kind == "ext" and b.target.split(".")[0] in ("multiprocessing", "concurrent") and \
            b.target.split(".")[-1] in ("Pool", "ThreadPool", "ProcessPoolExecutor", "ThreadPoolExecutor"):
        return True
    d = dotted(expr.func) or ""
    return d.endswith(".Pool")


def _stmt_containing(fnode, node):
    best = None
    for st in ast.walk(fnode):
        if isinstance(st, ast.stmt) and st is not fnode:
            for n in ast.walk(st):
                if n is node:
                    if best is None or st.lineno >= best.lineno:
                        best = st
    return best


def _reachable(ix, fx, f):
    seen, todo = [], [f]
    while todo:
        g = todo.pop()
        if g in seen:
            continue
        seen.append(g)
        for n, b in fx.summary(g).calls:
            if b is not None and b.kind == "func" and b.target not in seen:
                todo.append(b.target)
    return seen


def _reads_mutable_globals(ix, f):
    out = []
    loc = ix.local_names(f)
    ns = ix.namespace(f.module.name)
    for n in ast.walk(f.node):
        if isinstance(n, ast.Name) and isinstance(n.ctx, ast.Load) and n.id not in loc:
            b = ns.get(n.id)
            if b is not None and b.kind == "value" and isinstance(b.target, (ast.List, ast.Dict, ast.Set, ast.Call)):
                if isinstance(b.target, ast.Call):
                    # a module constant computed by a call (`_G = gamma(5. / 6)`): a closed scalar term is a number, not an object
                    try:
                        folded = Interp(ix)._module_constant(b, n.id, b.target)
                    except Exception:
                        folded = None
                    if isinstance(folded, Rat) and not any(isinstance(a_, Fn) and a_.name in ("array", "zeros", "empty", "ones", "arange", "linspace", "listcomp")
                                                           for a_ in folded.atoms()):
                        continue
                out.append(n.id)
    return sorted(set(out))


def _assigned_before_read(rep, ix, fx, cls, top, per_build):
    """Walk the build in execution order (blocks recursively, self-method calls descended into); every read of a
    per-build attribute must be dominated by a plain assignment to it in the same build."""
    state = {"ok": True}

    def self_attr(n):
        return isinstance(n, ast.Attribute) and isinstance(n.value, ast.Name) and n.value.id == "self"

    def expr_reads(node):
        return set(n.attr for n in ast.walk(node) if self_attr(n) and isinstance(n.ctx, ast.Load)) & per_build

    def flag(meth, st, a):
        state["ok"] = False
        rep.violation("O7.fresh-per-build", "%s: self.%s read before it is assigned in this build" % (meth.fq, a),
                      "per-build attribute self.%s is read (%s) before the build assigns it on this path: its value comes from a "
                      "previous build" % (a, norm_text(st).split("\n")[0][:70]), meth.where(st))

    def calls_in(node):
        out = []
        for n in ast.walk(node):
            if isinstance(n, ast.Call) and isinstance(n.func, ast.Attribute) and self_attr(n.func):
                m = cls.find_method(n.func.attr)
                if m is not None:
                    out.append(m)
        return out

    def simple(meth, st, assigned, stack):
        """non-compound statement: reads (value side, call args), then callee bodies, then its own attribute assignment"""
        val_nodes = []
        tgt_attrs = []
        if isinstance(st, ast.Assign):
            val_nodes.append(st.value)
            for t in st.targets:
                if self_attr(t):
                    tgt_attrs.append(t.attr)
                else:
                    val_nodes.append(t)
        elif isinstance(st, ast.AugAssign):
            val_nodes += [st.value, st.target]
            if self_attr(st.target):
                val_nodes.append(ast.Attribute(value=st.target.value, attr=st.target.attr, ctx=ast.Load()))
        else:
            val_nodes.append(st)
        for vn in val_nodes:
            for a in sorted(expr_reads(vn) - assigned):
                flag(meth, st, a)
            for m in calls_in(vn):
                if m not in stack:
                    assigned |= block(m, m.node.body, set(assigned), stack + [m])
        # an augmented store into self.x[...] reads self.x
        assigned |= set(tgt_attrs)
        return assigned

    def block(meth, stmts, assigned, stack):
        for st in stmts:
            if isinstance(st, (ast.For, ast.While)):
                hdr = st.iter if isinstance(st, ast.For) else st.test
                for a in sorted(expr_reads(hdr) - assigned):
                    flag(meth, st, a)
                block(meth, st.body, set(assigned), stack)          # zero iterations possible: nothing gained afterwards
                if st.orelse:
                    assigned = block(meth, st.orelse, assigned, stack)
            elif isinstance(st, ast.If):
                for a in sorted(expr_reads(st.test) - assigned):
                    flag(meth, st, a)
                for m in calls_in(st.test):
                    if m not in stack:
                        assigned |= block(m, m.node.body, set(assigned), stack + [m])
                a1 = block(meth, st.body, set(assigned), stack)
                a2 = block(meth, st.orelse, set(assigned), stack)
                assigned = a1 & a2
            elif isinstance(st, ast.With):
                assigned = block(meth, st.body, assigned, stack)
            elif isinstance(st, ast.Try):
                a1 = block(meth, st.body, set(assigned), stack)
                for h in st.handlers:
                    block(meth, h.body, set(assigned), stack)
                assigned = a1 if not st.handlers else assigned
            elif isinstance(st, ast.Return):
                if st.value is not None:
                    for a in sorted(expr_reads(st.value) - assigned):
                        flag(meth, st, a)
            else:
                assigned = simple(meth, st, assigned, stack)
        return assigned
    block(top, top.node.body, set(), [top])
    if state["ok"]:
        rep.ok("O7.fresh-per-build", cls.fq + ": per-build attributes %s are assigned before use in every build" % sorted(per_build))
    return state["ok"]
