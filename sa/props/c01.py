"""C01 - slope covariance matrix (clauses decidable from code shape).

tile     the four block updates of each assembly copy tile the 2n_i x 2n_j block of
         the pair (i, j) at offsets (2 S_i, 2 S_j), S = n_subaps[:w].sum(): "all x
         then all y, per sensor"
kind     each quadrant receives the covariance of the slope kinds it stands for
         ((x,x) <- xx, (y,y) <- yy, (x,y) <- xy, (y,x) <- yx), decided by comparing the
         per-pair functions with the finite-difference definition below
noperm   no index-permuting call (flip, rot90, roll, transpose, reversed slice) sits
         between the per-pair result and the block it is added to: rows/columns of
         both are ordered by sub-aperture index
stencil  compute_covariance_xx/yy/xy == D(a-d) + D(b-c) - D(a-c) - D(b-d) with
         a,b = p1 +- d1/2 e1, c,d = p2 +- d2/2 e2 (the 1/2 and (lambda/2pi)^2/(d1 d2) are
         in the scale), s = p2 - p1 as computed by calculate_wfs_seperations
scale    r0_scale == lambda_i lambda_j / (8 pi^2 d_i d_j) with the projected diameters
r0deg    the structure function is of degree -5/3 in r0 and r0 enters nowhere else
layers   zero-initialised accumulator, only `+=` inside the layer loop
project  sub-aperture centres (k + 1/2) d - D/2, projected p (1 - h/H) + theta h (arcsec),
         projected diameter d (1 - h/H) (H = 0: no cone); projection works on copies
lower    only pairs j <= i are filled; the mirror is bitwise_or of float32 views of
         the matrix and its transpose
Not decided: positive semi-definiteness, float32 rounding, the value of D (C08).
"""
import ast
import math
from fractions import Fraction as Fr

from ..common import get_index, nf, check_equal, check_degree, same_value
from ..fx import FX
from ..index import norm_text
from ..interp import Interp, Obj, has_unknown, unknown_atoms, RangeVal
from ..plf import Rat, Sym, Fn, find_atoms, rpow
from ..report import AnalysisError

def no_carried_state(rep, ix, top, rule):
    """per-sensor independence: nothing computed for one sensor (or layer) may leak into the next loop iteration"""
    Ic = Interp(ix)
    for n in ast.walk(top.node):
        if isinstance(n, ast.For):
            assigned = []
            for x in ast.walk(ast.Module(body=n.body, type_ignores=[])):
                if isinstance(x, ast.Name) and isinstance(x.ctx, ast.Store) and x.id not in assigned:
                    assigned.append(x.id)
            tnames = [x.id for x in ast.walk(n.target) if isinstance(x, ast.Name)]
            for nm in assigned:
                if nm in tnames:
                    continue
                only_aug = all(isinstance(w, ast.AugAssign) for w in ast.walk(ast.Module(body=n.body, type_ignores=[]))
                               if isinstance(w, (ast.Assign, ast.AugAssign)) and
                               any(isinstance(t, ast.Name) and t.id == nm for t in ast.walk(w.targets[0] if isinstance(w, ast.Assign) else w.target)))
                if only_aug:
                    continue
                if Ic._is_read_before_write(n.body, nm):
                    rep.violation(rule, "%s: `%s` in `for %s in %s`" % (top.fq, nm, norm_text(n.target), norm_text(n.iter)),
                                  "`%s` is assigned on some paths of the loop body only and read on others: the value computed for the "
                                  "previous %s is used for the next one" % (nm, norm_text(n.target)), top.where(n))
    if not any(o_["rule"] == rule for o_ in rep.obligations):
        rep.ok(rule, top.fq + ": projection loops carry no value from one sensor / layer to the next")


def _read_component(v, i, j, k):
    """element [i, j, k] of the returned separations (inside the block that is written); positions are (n, 2) arrays by
    contract, so reshape(p, (n, 2)) of a position argument is the identity"""
    from ..elem import element
    if not isinstance(v, Rat):
        return None
    return element(v, (i, j, Rat.const(k)), {"__identity_reshape__": True})


LEVEL = "other"
MOD = "aotools.turbulence.slopecovariance"
PERMUTERS = {"fliplr", "flipud", "flip", "rot90", "roll", "T", "sort", "transpose"}

ORACLE = '''
import numpy
from .turbulence.slopecovariance import structure_function_vk


def slope_cov(sep, d1, d2, r0, L0, e1x, e1y, e2x, e2y):
    # E[(phi(a)-phi(b))(phi(c)-phi(d))] * 2 = D(a-d) + D(b-c) - D(a-c) - D(b-d)
    # a, b = p1 +- d1/2 e1 ; c, d = p2 +- d2/2 e2 ; s = p2 - p1
    sx = sep[..., 0]
    sy = sep[..., 1]
    ad = structure_function_vk(numpy.sqrt((sx - d1 / 2. * e1x - d2 / 2. * e2x) ** 2 + (sy - d1 / 2. * e1y - d2 / 2. * e2y) ** 2), r0, L0)
    bc = structure_function_vk(numpy.sqrt((sx + d1 / 2. * e1x + d2 / 2. * e2x) ** 2 + (sy + d1 / 2. * e1y + d2 / 2. * e2y) ** 2), r0, L0)
    ac = structure_function_vk(numpy.sqrt((sx - d1 / 2. * e1x + d2 / 2. * e2x) ** 2 + (sy - d1 / 2. * e1y + d2 / 2. * e2y) ** 2), r0, L0)
    bd = structure_function_vk(numpy.sqrt((sx + d1 / 2. * e1x - d2 / 2. * e2x) ** 2 + (sy + d1 / 2. * e1y - d2 / 2. * e2y) ** 2), r0, L0)
    return ad + bc - ac - bd


def centres(mask, d, D):
    # cell k of the mask spans [k d - D/2, (k+1) d - D/2]: its centre is (k + 1/2) d - D/2
    return numpy.array(numpy.where(mask == 1)).T * d + d / 2. - D / 2.


def project_lgs(p, d, h, H, theta):
    return p * (1 - h / H) + numpy.array(theta) * numpy.pi / 180 / 3600 * h, d * (1 - h / H)


def project_ngs(p, d, h, theta):
    return p + numpy.array(theta) * numpy.pi / 180 / 3600 * h, d
'''

NOMINAL = {"compute_covariance_xx": "xx", "compute_covariance_yy": "yy", "compute_covariance_xy": "xy"}
KINDS = {"xx": (1, 0, 1, 0), "yy": (0, 1, 0, 1), "xy": (1, 0, 0, 1), "yx": (0, 1, 1, 0)}


def strip_perm(v):
    """(value with index-permuting wrappers removed, list of permuter names found)"""
    found = []

    def f(a):
        if isinstance(a, Fn) and a.name in PERMUTERS and a.args and isinstance(a.args[0], Rat):
            found.append(a.name)
            return a.args[0].subst(f)
        return None
    return (v.subst(f) if isinstance(v, Rat) else v), found


def run(rep, tier, root=None):
    ix = get_index(root)
    om = ix.virtual("_oracle_c01", ORACLE)
    fx = FX(ix)
    rep.trusted_base += ["finite-difference slope covariance identity E[(f(a)-f(b))(f(c)-f(d))] = 1/2 [D(a-d)+D(b-c)-D(a-c)-D(b-d)] "
                         "for a stationary field with structure function D (oracle text in sa/props/c01.py)",
                         "numpy.where(mask == 1) enumerates cells in row-major order, the order of the per-pair loops"]
    rep.assumptions += ["gs_altitudes are altitudes (0 = natural star), as the code uses them; masks hold 0/1",
                        "positive semi-definiteness and float32 rounding are not decided"]
    rep.explanation = ("The assembly loops of both copies are analysed once with all loop variables and self attributes symbolic: "
                       "block bounds as affine forms in the sub-aperture counts (tiling), block sources by tuple position, absence of "
                       "index permutations, the scale factor as a normal form; the per-pair functions are compared with the finite-"
                       "difference definition (structure function opaque); the projection formulas with their geometric definition.")
    rep.rule_text = "tile/kind/noperm/stencil/scale/r0deg/layers/project/lower; one obligation per (rule, copy, block or function)"
    cls = ix.cls(MOD, "CovarianceMatrix")
    rep.files_analysed.add(cls.module.relpath)
    IO = Interp(ix, opaque={MOD + ":structure_function_vk"})

    # ---------------------------------------------------------------- stencil
    sep = Rat.sym("seperation", ("array",))
    d1, d2, r0, L0 = Rat.sym("d1"), Rat.sym("d2"), Rat.sym("r0"), Rat.sym("L0")
    defs = {}
    fo = ix.func(om.name, "slope_cov")
    for k, e in KINDS.items():
        defs[k] = IO.returns(fo, [sep, d1, d2, r0, L0] + [Rat.const(x) for x in e])[0][1]
    fun_kind = {}
    for name, want_kind in (("compute_covariance_xx", "xx"), ("compute_covariance_yy", "yy"), ("compute_covariance_xy", "xy")):
        f = ix.func(MOD, name)
        rep.functions_analysed.add(f.fq)
        I = Interp(ix, opaque={MOD + ":structure_function_vk"})
        r = I.returns(f, [sep, d1, d2, r0, L0])
        if len(r) != 1 or not isinstance(r[0][1], Rat) or has_unknown(r[0][1]):
            rep.unknown("stencil", f.fq, "cannot normalise the function body", f.where())
            continue
        v = r[0][1]
        match = [k for k, dv in defs.items() if same_value(v, dv)]
        eq_d = lambda x: x.subst(lambda a: d1 if a == Sym("d2") else None)
        match_eq = [k for k, dv in defs.items() if same_value(eq_d(v), eq_d(dv))]
        fun_kind[name] = (match, match_eq)
        if want_kind in match:
            rep.ok("stencil", f.fq + " == finite-difference %s covariance" % want_kind, "all four structure-function terms agree")
        elif want_kind in match_eq:
            rep.violation("stencil", f.fq + ": exact only for equal sub-aperture diameters",
                          "%s equals the finite-difference %s covariance only when the two projected sub-aperture diameters are equal "
                          "(terms only in the code: %s; only in the definition: %s)" % ((name, want_kind) + term_diff(v, defs[want_kind])),
                          f.where(), {"code": nf(v, 900), "definition": nf(defs[want_kind], 900)})
        else:
            rep.violation("stencil", f.fq + " == finite-difference %s covariance" % want_kind,
                          "%s is not the covariance of the %s finite-difference slopes, even for equal diameters (terms only in the "
                          "code: %s; only in the definition: %s)" % ((name, want_kind) + term_diff(eq_d(v), eq_d(defs[want_kind]))),
                          f.where(), {"code": nf(v, 900), "definition": nf(defs[want_kind], 900)})
        rep.sample({"function": f.fq, "normal_form": nf(v, 500)})

    # wfs_covariance: tuple order and argument forwarding; separations s = p2 - p1 at [i, j]
    wc = ix.func(MOD, "wfs_covariance")
    rep.functions_analysed.add(wc.fq)
    op = {MOD + ":compute_covariance_xx", MOD + ":compute_covariance_yy", MOD + ":compute_covariance_xy", MOD + ":calculate_wfs_seperations"}
    Iw = Interp(ix, opaque=op)
    a = [Rat.sym(p, ("array",) if "positions" in p else ()) for p in wc.params]
    rw = Iw.returns(wc, a)
    tuple_kinds = None
    if len(rw) == 1 and isinstance(rw[0][1], tuple):
        seps = Rat.atom(Fn("call:" + MOD + ":calculate_wfs_seperations", tuple(a[:4])))
        tuple_kinds = []
        for el in rw[0][1]:
            at = el.single_atom() if isinstance(el, Rat) else None
            nm = at.name.split(":")[-1] if isinstance(at, Fn) and at.name.startswith("call:") else None
            good = nm in fun_kind and same_value(at.args[0], seps) and [vk(x) for x in at.args[1:]] == [vk(x) for x in a[4:8]]
            rep.check(good, "stencil.forwarding", "%s -> %s(separations, d1, d2, r0, L0)" % (wc.fq, nm),
                      "wfs_covariance does not forward (separations, wfs1_diam, wfs2_diam, r0, L0) unchanged: %s" % nf(el, 160), wc.where())
            tuple_kinds.append(nm)
    else:
        rep.unknown("stencil.forwarding", wc.fq, "expected a single path returning a tuple", wc.where())
    cs = ix.func(MOD, "calculate_wfs_seperations")
    rep.functions_analysed.add(cs.fq)
    Is = Interp(ix)
    p1, p2 = Rat.sym("p1", ("array",)), Rat.sym("p2", ("array",))
    Is.returns(cs, [Rat.sym("n1", ("int",)), Rat.sym("n2", ("int",)), p1, p2])
    st = [s for s in Is.store_log if s[0] == cs.fq]
    lp = [l for l in Is.loop_log if l[0] == cs.fq]
    if len(st) == 1 and len(lp) == 2 and isinstance(st[0][3], tuple):
        (i_, e1), (j_, e2) = sorted([l[2] for l in lp], key=lambda t: t[0].single_atom().name.count("@2"))[:2] if False else (lp[1][2], lp[0][2])
        g = lambda e, k: Rat.atom(Fn("getitem", (e, Rat.const(k))))
        want_val = (g(e2, 0) - g(e1, 0), g(e2, 1) - g(e1, 1))
        e1p = e1.single_atom().args[0] if isinstance(e1.single_atom(), Fn) else None
        ok = same_value(st[0][3], want_val) and same_value(st[0][2], (i_, j_)) and same_value(e1.single_atom().args[0], p1) \
            and same_value(e2.single_atom().args[0], p2)
        rep.check(ok, "stencil.separations", cs.fq + ": s[i, j] = p2[j] - p1[i]",
                  "separation stored at %s is %s" % (nf(st[0][2], 80), nf(st[0][3], 160)), cs.where())
    else:
        # vectorised form: the value returned is read element-wise at symbolic (i, j, k)
        from ..elem import element
        rets_ = [v for c_, v in Is.returns(cs, [Rat.sym("n1", ("int",)), Rat.sym("n2", ("int",)), p1, p2])]
        i_, j_ = Rat.sym("i", ("int", "loopvar")), Rat.sym("j", ("int", "loopvar"))
        done = False
        if len(rets_) == 1 and isinstance(rets_[0], Rat):
            comps = []
            for k_ in (0, 1):
                comps.append(_read_component(rets_[0], i_, j_, k_))
            if all(c is not None for c in comps):
                done = True
                g2 = lambda e, a, k: Rat.atom(Fn("getitem", (e, (a, Rat.const(k)))))
                ok = all(same_value(comps[k_], g2(p2, j_, k_) - g2(p1, i_, k_)) for k_ in (0, 1))
                rep.check(ok, "stencil.separations", cs.fq + ": s[i, j] = p2[j] - p1[i]",
                          "element [i, j] of the separations is (%s, %s)" % (nf(comps[0], 120), nf(comps[1], 120)), cs.where())
        if not done:
            rep.unknown("stencil.separations", cs.fq, "expected a double loop with one store, or array expressions readable element-wise", cs.where())

    # ---------------------------------------------------------------- r0deg
    D = ix.func(MOD, "structure_function_vk")
    rep.functions_analysed.add(D.fq)
    dv = Interp(ix).returns(D, [Rat.sym("s"), r0, L0])
    if len(dv) == 1:
        check_degree(rep, "r0deg", D.fq + " ~ r0^(-5/3)", dv[0][1], "r0", Fr(-5, 3), D.where(), "structure function")
    # the finite-difference identity of `stencil` needs D to be ONE stationary structure function for every separation the
    # stencil evaluates it at (sub-aperture pairs closer or farther than the outer scale alike): a single elementwise closed
    # form, not a law selected by comparing the separation with something (constants and exponents are C08's subject)
    from .c08 import NOT_POINTWISE
    sD = Rat.sym("s", ("array",))
    dvs = Interp(ix).returns(D, [sD, r0, L0])
    vals_ = [v_ for c_, v_ in dvs if isinstance(v_, Rat)]
    if len(vals_) != 1 or has_unknown(vals_[0]):
        rep.unknown("stencil.structure-law", D.fq, "cannot normalise the structure function to one closed form", D.where())
    else:
        from ..common import origin_guard
        v_, v_origin = origin_guard(vals_[0], sD)        # a value supplied at exactly s = 0 (the limit of the law there) is C08's subject
        npw = [a for a in v_.atoms() if isinstance(a, Fn) and (a.name in NOT_POINTWISE or (a.name == "cmp" and Rat.atom(a).depends_on(Sym("s"))))]
        kvs = [a for a in v_.atoms() if isinstance(a, Fn) and a.name == "kv"]
        rep.check(not npw and len(kvs) == 1, "stencil.structure-law", D.fq + ": one elementwise Bessel law for every separation",
                  "the structure function is not a single elementwise closed form in the separation (%s): sub-aperture pairs on either "
                  "side of the switch are differenced with different laws, so the slope covariance is not that of one stationary field"
                  % (sorted(set(a.name for a in npw)) or "no Bessel term"), D.where())

    # ---------------------------------------------------------------- assembly copies
    for mname in ("_make_covariance_matrix", "_make_covariance_matrix_mp"):
        meth = cls.find_method(mname)
        if meth is None:
            raise AnalysisError("%s missing" % mname)
        rep.functions_analysed.add(meth.fq)
        assembly_rules(rep, ix, cls, meth, wc, tuple_kinds, fun_kind)

    # ---------------------------------------------------------------- projection
    projection_rules(rep, ix, fx, cls, om)
    float_positions_rule(rep, cls.find_method("make_covariance_matrix"))

    # ---------------------------------------------------------------- lower / mirror
    mf = ix.func(MOD, "mirror_covariance_matrix")
    rep.functions_analysed.add(mf.fq)
    C = Rat.sym("cov_mat", ("array",))
    mr = Interp(ix).returns(mf, [C])
    # the upper triangle is the transposed strict lower triangle.  (The earlier implementation OR-ed the float32 bit patterns
    # of the matrix and its transpose; that is a mirror only where one of the two entries is exactly +0, and inside the
    # diagonal block of a sensor both triangles are computed - with different rounding residues where the value is 0.)
    tril = lambda k_: Rat.atom(Fn("tril", (C,) + ((Rat.const(k_),) if k_ else ())))
    if len(mr) == 1:
        got = mr[0][1]
        ors = [a for a in got.atoms() if isinstance(a, Fn) and a.name in ("bitwise_or", "bitwise_xor", "op_BitOr", "view")] if isinstance(got, Rat) else []
        if ors:
            rep.violation("lower.mirror", mf.fq + ": the upper triangle is the transposed lower triangle",
                          "the two triangles are combined through their bit patterns (%s): where both entries are non-zero - the "
                          "diagonal block of every sensor is computed on both sides, with the layers summed in a different order - the OR "
                          "of two float32 patterns is a number with the larger exponent field OR-ed in, up to 2^63 times either entry; the "
                          "result is not the covariance and not positive semi-definite" % sorted(set(a.name for a in ors)), mf.where())
        else:
            forms = []
            for strict_first in (True, False):
                lo, up = Rat.atom(Fn("tril", (C,))), Rat.atom(Fn("T", (Rat.atom(Fn("tril", (C, Rat.const(-1)))),)))
                forms.append(lo + up)
            forms.append(Rat.atom(Fn("tril", (C, Rat.const(-1)))) + Rat.atom(Fn("T", (Rat.atom(Fn("tril", (C,))),))))
            rep.check(any(same_value(got, w_) for w_ in forms), "lower.mirror", mf.fq + " == tril(C) + tril(C, -1).T",
                      "mirror is %s" % nf(got, 200), mf.where())
    else:
        rep.unknown("lower.mirror", mf.fq, "expected one path", mf.where())
    top = cls.find_method("make_covariance_matrix")
    rep.functions_analysed.add(top.fq)
    mcalls = [n for n in ast.walk(top.node) if isinstance(n, ast.Call) and norm_text(n.func) == "mirror_covariance_matrix"]
    rep.check(len(mcalls) == 1 and norm_text(_stmt(top.node, mcalls[0])).replace(" ", "") ==
              "self.covariance_matrix=mirror_covariance_matrix(self.covariance_matrix)", "lower.mirror",
              top.fq + ": the assembled matrix is mirrored exactly once", "mirror calls: %s" % [norm_text(_stmt(top.node, c)) for c in mcalls], top.where())
    from ..common import purity_obligations
    purity_obligations(rep, ix, [ix.func(MOD, n) for n in ("wfs_covariance", "calculate_wfs_seperations", "compute_covariance_xx",
                                                          "compute_covariance_yy", "compute_covariance_xy", "structure_function_vk",
                                                          "mirror_covariance_matrix")],
                       "pure-blocks", "a covariance block would depend on the blocks computed before it")
    rep.floor("C01 obligations", len(rep.obligations), 40)


def vk(v):
    from ..plf import vkey
    return vkey(v)


def term_diff(a, b):
    ta = {vk(Rat({m: c})): Rat({m: c}) for m, c in a.num.items()} if isinstance(a, Rat) else {}
    tb = {vk(Rat({m: c})): Rat({m: c}) for m, c in b.num.items()} if isinstance(b, Rat) else {}
    return ([nf(v, 150) for k, v in ta.items() if k not in tb][:3], [nf(v, 150) for k, v in tb.items() if k not in ta][:3])


def _stmt(fnode, node):
    best = None
    for st in ast.walk(fnode):
        if isinstance(st, ast.stmt) and st is not fnode:
            if any(n is node for n in ast.walk(st)):
                if best is None or st.lineno >= best.lineno:
                    best = st
    return best


def _lv(l):
    """the counting variable of a logged loop: the range variable, or the position of an enumerate() loop"""
    v = l[2]
    if isinstance(v, tuple) and v and isinstance(v[0], Rat):
        v = v[0]
    if isinstance(v, Rat) and isinstance(v.single_atom(), Sym) and "loopvar" in v.single_atom().flags:
        return v
    return None


def _depth(v):
    return int(v.single_atom().name.split("@")[1].rstrip("#"))


def tile_only(rep, ix, cls, meth, wc, rule):
    """the four block updates of an assembly method tile the (i, j) block: rows [2 S_i + a n_i, + n_i), columns
    [2 S_j + b n_j, + n_j) for (a, b) in {0, 1}^2 (x slopes then y slopes of each sensor).  Used by C02 as the layout
    precondition of its duplicate-sensor clause; C01 decides the same under `tile` together with what the blocks hold."""
    I = Interp(ix, opaque={wc.fq})
    o = Obj(cls)
    args = [Rat.sym("threads", ("int",))] if len(meth.params) > 1 else []
    I.paths(meth, args, self_obj=o)
    stores = [s for s in I.store_log if s[1] == "self.covariance_matrix" and (s[0] == meth.fq or s[0].startswith(cls.fq + "."))]
    loops = [l for l in I.loop_log if l[0] == meth.fq]
    lvs = []
    for l in loops:
        v = _lv(l)
        if v is not None and vk(v) not in [vk(x) for x in lvs]:
            lvs.append(v)
    by_depth = sorted(lvs, key=_depth)
    if len(stores) != 4 or len(by_depth) < 3:
        rep.unknown(rule, meth.fq, "expected four block updates of self.covariance_matrix inside the (layer, i, j) loops, found %d" % len(stores),
                    meth.where())
        return
    wi, wj = by_depth[1], by_depth[2]
    S = lambda w: Rat.atom(Fn("sum", (Rat.atom(Fn("getitem", (Rat.sym("self.n_subaps", ("attr",)), ("slice", Rat.const(0), w, None)))), None)))
    n_of = lambda w: Rat.atom(Fn("getitem", (Rat.sym("self.n_subaps", ("attr",)), w)))
    seen = set()
    for s in stores:
        idx, lineno = s[2], s[4]
        where = "%s:%d" % (meth.module.relpath, lineno)
        if not (isinstance(idx, tuple) and len(idx) == 2 and all(isinstance(x, tuple) and x[0] == "slice" and x[3] is None for x in idx)):
            rep.unknown(rule, meth.fq, "block index is not a pair of plain slices: %s" % nf(idx, 100), where)
            return
        (_, r0_, r1_, _), (_, c0_, c1_, _) = idx
        a_ = (r0_ - 2 * S(wi)) / n_of(wi)
        b_ = (c0_ - 2 * S(wj)) / n_of(wj)
        ac, bc = a_.real_const() if isinstance(a_, Rat) else None, b_.real_const() if isinstance(b_, Rat) else None
        okq = ac in (0.0, 1.0) and bc in (0.0, 1.0) and same_value(r1_ - r0_, n_of(wi)) and same_value(c1_ - c0_, n_of(wj))
        if not okq:
            rep.violation(rule, "%s: block [%s]" % (meth.fq, nf(idx, 140)),
                          "block rows [%s, %s) x cols [%s, %s) is not a quadrant of the (i, j) block at (2 S_i, 2 S_j) with extents (n_i, n_j): "
                          "with sensors of different sub-aperture counts the slopes of one sensor are correlated with the wrong slopes of "
                          "the other, so a duplicated sensor is not reproduced" % (nf(r0_, 60), nf(r1_, 60), nf(c0_, 60), nf(c1_, 60)), where)
            return
        seen.add((int(ac), int(bc)))
    rep.check(seen == {(0, 0), (0, 1), (1, 0), (1, 1)}, rule, meth.fq + ": the four block updates tile the 2n_i x 2n_j block of the sensor pair",
              "quadrants written: %s" % sorted(seen), meth.where())


def assembly_rules(rep, ix, cls, meth, wc, tuple_kinds, fun_kind):
    I = Interp(ix, opaque={wc.fq})          # the pool worker is inlined: a result read back in loop order is the call itself
    o = Obj(cls)
    args = [Rat.sym("threads", ("int",))] if len(meth.params) > 1 else []
    I.paths(meth, args, self_obj=o)
    # block updates made by the assembly method itself or by the helper methods it calls (inlined: one interpreter run)
    stores = [s for s in I.store_log if s[1] == "self.covariance_matrix" and (s[0] == meth.fq or s[0].startswith(cls.fq + "."))]
    loops = [l for l in I.loop_log if l[0] == meth.fq]
    tag = meth.fq
    if len(stores) != 4:
        rep.unknown("tile", tag, "expected four block updates of self.covariance_matrix, found %d" % len(stores), meth.where())
        return
    S = lambda w: Rat.atom(Fn("sum", (Rat.atom(Fn("getitem", (Rat.sym("self.n_subaps", ("attr",)), ("slice", Rat.const(0), w, None)))), None)))
    n_of = lambda w: Rat.atom(Fn("getitem", (Rat.sym("self.n_subaps", ("attr",)), w)))
    # loop variables: the innermost two are the pair (i, j)
    lvs = []
    for l in loops:
        v = _lv(l)
        if v is not None and vk(v) not in [vk(x) for x in lvs]:
            lvs.append(v)
    by_depth = sorted(lvs, key=_depth)
    if len(by_depth) < 3:
        rep.unknown("tile", tag, "cannot identify the (layer, i, j) loops", meth.where())
        return
    layer, wi, wj = by_depth[0], by_depth[1], by_depth[2]
    quadrants = {}
    for s in stores:
        idx, val, lineno, op, txt = s[2], s[3], s[4], s[5], s[6]
        where = "%s:%d" % (meth.module.relpath, lineno)
        rep.check(op == "Add", "layers", "%s: block update is an accumulation: %s" % (tag, txt.split("+=")[0][-40:].strip() if "+=" in txt else txt[:50]),
                  "block is updated with operator %s, not `+=`: the matrix is not the sum over layers" % op, where)
        if not (isinstance(idx, tuple) and len(idx) == 2 and all(isinstance(x, tuple) and x[0] == "slice" for x in idx)):
            rep.unknown("tile", tag, "block index is not a pair of slices: %s" % nf(idx, 100), where)
            continue
        (_, r0_, r1_, rs), (_, c0_, c1_, cs_) = idx
        if rs is not None or cs_ is not None:
            rep.violation("noperm", "%s: strided/reversed block slice" % tag, "block slices use a step: %s" % nf(idx, 100), where)
            continue
        a_ = (r0_ - 2 * S(wi)) / n_of(wi)
        b_ = (c0_ - 2 * S(wj)) / n_of(wj)
        ac, bc = a_.real_const() if isinstance(a_, Rat) else None, b_.real_const() if isinstance(b_, Rat) else None
        okq = ac in (0.0, 1.0) and bc in (0.0, 1.0) and same_value(r1_ - r0_, n_of(wi)) and same_value(c1_ - c0_, n_of(wj))
        if not okq:
            rep.violation("tile", "%s: block [%s]" % (tag, txt.split("]")[0][-70:] if False else nf(idx, 140)),
                          "block rows [%s, %s) x cols [%s, %s) is not a quadrant of the (i, j) block at (2 S_i, 2 S_j) with extents "
                          "(n_i, n_j)" % (nf(r0_, 60), nf(r1_, 60), nf(c0_, 60), nf(c1_, 60)), where)
            continue
        q = (int(ac), int(bc))
        if q in quadrants:
            rep.violation("tile", "%s: quadrant %s written twice" % (tag, q), "two block updates target the same quadrant", where)
            continue
        quadrants[q] = (val, where, txt)
    rep.check(set(quadrants) == {(0, 0), (0, 1), (1, 0), (1, 1)}, "tile", tag + ": the four updates tile the 2n_i x 2n_j block",
              "quadrants written: %s" % sorted(quadrants), meth.where())
    # scale and sources
    lam = lambda w: Rat.atom(Fn("getitem", (Rat.sym("self.wfs_wavelengths", ("attr",)), w)))
    dia = lambda w: Rat.atom(Fn("getitem", (Rat.atom(Fn("getitem", (Rat.sym("self.subap_layer_diameters", ("attr",)), layer))), w)))
    want_scale = lam(wi) * lam(wj) / (8 * math.pi ** 2 * dia(wi) * dia(wj))
    need = {(0, 0): "xx", (1, 1): "yy", (0, 1): "xy", (1, 0): "yx"}
    label = {(0, 0): "(x_i, x_j)", (1, 1): "(y_i, y_j)", (0, 1): "(x_i, y_j)", (1, 0): "(y_i, x_j)"}
    for q, (val, where, txt) in sorted(quadrants.items()):
        core, perms = strip_perm(val)
        if perms:
            rep.violation("noperm", "%s: quadrant %s source passes through %s" % (tag, label[q], "/".join(perms)),
                          "the per-pair result is permuted (%s) before it is added to the %s block: entry [p, q] of the per-pair result "
                          "belongs to sub-apertures (p, q) in where(mask == 1) order, and so does entry [p, q] of the block; the "
                          "permutation assigns covariances to the wrong sub-aperture pairs for every mask that is not point-symmetric"
                          % ("/".join(perms), label[q]), where)
        else:
            rep.ok("noperm", "%s: quadrant %s source is not permuted" % (tag, label[q]))
        # source = getitem(P, k) * scale
        gs = [a for a in find_atoms(core, lambda a: isinstance(a, Fn) and a.name == "getitem") if _is_pair_source(a)]
        gs = [a for a in gs if core.degree(a) == 1]
        if len(gs) != 1:
            rep.unknown("kind", "%s: quadrant %s" % (tag, label[q]), "cannot identify the per-pair source in %s" % nf(core, 160), where)
            continue
        src = gs[0]
        k = src.args[1]
        kc = int(k.real_const()) if isinstance(k, Rat) and k.real_const() is not None else None
        scale = core / Rat.atom(src)
        rep.check(same_value(scale, want_scale), "scale", "%s: quadrant %s scaled by lambda_i lambda_j/(8 pi^2 d_i d_j)" % (tag, label[q]),
                  "scale factor is %s" % nf(scale, 200), where, detail={"expected": nf(want_scale, 200)})
        if tuple_kinds is None or kc is None or not (0 <= kc < len(tuple_kinds)) or tuple_kinds[kc] not in fun_kind:
            rep.unknown("kind", "%s: quadrant %s" % (tag, label[q]), "cannot resolve tuple element %s of the per-pair result" % nf(k), where)
            continue
        fn = tuple_kinds[kc]
        match, match_eq = fun_kind[fn]
        if need[q] in match:
            rep.ok("kind", "%s: quadrant %s <- %s (%s covariance)" % (tag, label[q], fn, need[q]))
        elif need[q] in match_eq and NOMINAL.get(fn) == need[q]:
            # the function is meant for this kind; its own deviation is reported once under `stencil`
            rep.ok("kind", "%s: quadrant %s <- %s (%s covariance; see stencil finding)" % (tag, label[q], fn, need[q]))
        elif need[q] in match_eq:
            rep.violation("kind", "%s: quadrant %s filled with %s: exact only for equal diameters" % (tag, label[q], fn),
                          "the %s block needs the %s covariance; %s provides it only when the two projected sub-aperture diameters are "
                          "equal (the diameters of the two sensors are not exchanged)" % (label[q], need[q], fn), where)
        else:
            rep.violation("kind", "%s: quadrant %s filled with %s" % (tag, label[q], fn),
                          "the %s block needs the %s covariance, but %s computes the %s covariance" % (label[q], need[q], fn, match or match_eq or "?"),
                          where)
    # per-pair call arguments: (n_i, n_j, pos[layer][i], pos[layer][j], diam[layer][i], diam[layer][j], r0[layer], L0[layer])
    pos = lambda w: Rat.atom(Fn("getitem", (Rat.atom(Fn("getitem", (Rat.sym("self.subap_layer_positions", ("attr",)), layer))), w)))
    want_args = [n_of(wi), n_of(wj), pos(wi), pos(wj), dia(wi), dia(wj),
                 Rat.atom(Fn("getitem", (Rat.sym("self.layer_r0s", ("attr",)), layer))),
                 Rat.atom(Fn("getitem", (Rat.sym("self.layer_L0s", ("attr",)), layer)))]
    # the arguments of the per-pair call whose result feeds the blocks (read from the block values, so that it does not
    # matter how the argument list was built or how the results were read back)
    got_args = None
    srcs = []
    for q, (val, where, txt) in sorted(quadrants.items()):
        srcs += [a for a in find_atoms(val, lambda a: isinstance(a, Fn) and a.name == "call:" + wc.fq)]
    uniq = []
    for a in srcs:
        if not any(a == b for b in uniq):
            uniq.append(a)
    if len(uniq) == 1 and len(uniq[0].args) == 8:
        got_args = list(uniq[0].args)
    else:
        calls = [c for c in I.call_log if c[0] == meth.fq and (c[1] == "wfs_covariance" or c[1].endswith(".append"))]
        for c in calls:
            if c[1] == "wfs_covariance":
                got_args = list(c[2])
            elif c[2] and isinstance(c[2][0], tuple) and len(c[2][0]) == 8:
                got_args = list(c[2][0])
    if got_args is None or len(got_args) != 8:
        rep.unknown("pair-arguments", tag, "cannot find the per-pair argument list", meth.where())
    else:
        names = wc.params
        for k_, (g_, w_) in enumerate(zip(got_args, want_args)):
            rep.check(same_value(g_, w_), "pair-arguments", "%s: %s = %s" % (tag, names[k_], nf(w_, 80)),
                      "per-pair argument %s is %s" % (names[k_], nf(g_, 120)), meth.where())
    # lower: j <= i only
    jl = [l for l in loops if _lv(l) is not None and vk(_lv(l)) == vk(wj)]
    il = [l for l in loops if _lv(l) is not None and vk(_lv(l)) == vk(wi)]
    okl = jl and il and isinstance(jl[0][3], RangeVal) and same_value(jl[0][3].lo, Rat.const(0)) and same_value(jl[0][3].hi, wi + 1) and \
        isinstance(il[0][3], RangeVal) and same_value(il[0][3].lo, Rat.const(0)) and same_value(il[0][3].hi, Rat.sym("self.n_wfs", ("attr",)))
    rep.check(bool(okl), "lower", tag + ": pairs j <= i of all sensors are filled (lower block triangle)",
              "pair loops are i in %r, j in %r" % (il[0][3] if il else None, jl[0][3] if jl else None), meth.where())
    ll = [l for l in loops if _lv(l) is not None and vk(_lv(l)) == vk(layer)]
    rep.check(bool(ll) and isinstance(ll[0][3], RangeVal) and same_value(ll[0][3].hi, Rat.sym("self.n_layers", ("attr",))) and
              same_value(ll[0][3].lo, Rat.const(0)), "layers", tag + ": every layer contributes (range(n_layers))",
              "layer loop runs over %s: the number of layers summed is not n_layers" % (repr(ll[0][3])[:120] if ll else None), meth.where())
    # zero-initialised float32 accumulator
    al = [c for c in I.call_log if c[0] == meth.fq and c[1].split(".")[-1] in ("zeros", "empty", "ones")]
    T = Rat.sym("self.total_subaps", ("attr",))
    rep.check(len(al) == 1 and al[0][1].endswith("zeros") and same_value(al[0][2][0], (2 * T, 2 * T)), "layers",
              tag + ": accumulator starts as zeros((2T, 2T))", "accumulator allocation: %s" % [(c[1], nf(c[2][0], 60)) for c in al], meth.where())


def _is_pair_source(a):
    base = a.args[0].single_atom() if isinstance(a.args[0], Rat) else None
    if isinstance(base, Fn) and base.name.startswith("call:") and base.name.endswith(":wfs_covariance"):
        return True
    if isinstance(base, Fn) and base.name == "getitem":       # results[counter][k]
        b2 = base.args[0].single_atom() if isinstance(base.args[0], Rat) else None
        return isinstance(b2, Fn) and (b2.name.startswith("?method_map") or b2.name.startswith("?method_starmap"))
    return False


def float_positions_rule(rep, top):
    """the un-projected positions start as integer indices (numpy.where); they must be floating before a float is added
    or subtracted in place, whatever the dtype of the diameters handed in (an int64 array `-= D/2.` raises)"""
    floaty = lambda e: any((isinstance(x, ast.Call) and norm_text(x.func).split(".")[-1] in ("float", "float64", "astype", "asarray", "array") and
                            ("float" in norm_text(x))) or (isinstance(x, ast.Constant) and isinstance(x.value, float)) or
                           (isinstance(x, ast.BinOp) and isinstance(x.op, ast.Div)) for x in ast.walk(e))
    found = 0
    for n in ast.walk(top.node):
        if isinstance(n, ast.Assign) and len(n.targets) == 1 and isinstance(n.targets[0], ast.Name) and \
                any(isinstance(x, ast.Call) and norm_text(x.func).split(".")[-1] in ("where", "nonzero", "argwhere", "indices") for x in ast.walk(n.value)):
            name = n.targets[0].id
            if floaty(n.value):
                continue
            for m in ast.walk(top.node):
                if isinstance(m, ast.AugAssign) and isinstance(m.target, ast.Name) and m.target.id == name and m.lineno > n.lineno and floaty(m.value):
                    found += 1
                    rep.violation("project.float-positions", "%s: `%s` on integer indices" % (top.fq, norm_text(m)[:60]),
                                  "`%s` is numpy.where(...) times the sub-aperture diameter: with an integer diameter (subap_diameters=[1, 1]) it is "
                                  "an int64 array, and the in-place `%s` with a float operand raises UFuncTypeError - make_covariance_matrix "
                                  "cannot be called with integer diameters" % (name, norm_text(m)[:60]), top.where(m))
                    break
    if not found:
        rep.ok("project.float-positions", top.fq + ": positions are floating before floats are added in place")


def projection_rules(rep, ix, fx, cls, om):
    top = cls.find_method("make_covariance_matrix")
    I = Interp(ix, opaque={cls.find_method("_make_covariance_matrix").fq, cls.find_method("_make_covariance_matrix_mp").fq,
                           MOD + ":mirror_covariance_matrix"})
    o = Obj(cls)
    I.paths(top, [], self_obj=o)
    # the geometry may be computed in private methods the public one calls in sequence: they are inlined, their appends count
    app = [c for c in I.call_log if (c[0] == top.fq or c[0].startswith(cls.fq + ".")) and c[1].endswith(".append")]
    IO = Interp(ix)
    A = lambda n: Rat.sym("self." + n, ("attr",))
    g = lambda x, k: Rat.atom(Fn("getitem", (x, k)))
    base = [c for c in app if c[1] == "self.subap_positions.append"]
    if len(base) != 1:
        rep.unknown("project.centres", top.fq, "expected one append of un-projected positions, found %d" % len(base), top.where())
        return
    bv = base[0][2][0]
    lvs = [a for a in bv.atoms() if isinstance(a, Sym) and "loopvar" in a.flags]
    if len(lvs) != 1:
        rep.unknown("project.centres", top.fq, "un-projected positions do not depend on exactly one loop variable", top.where())
        return
    w1 = Rat.atom(lvs[0])
    want = IO.returns(ix.func(om.name, "centres"), [g(A("pupil_masks"), w1), g(A("subap_diameters"), w1), A("telescope_diameter")])[0][1]
    if same_value(bv, want):
        rep.ok("project.centres", top.fq + ": sub-aperture centres (k + 1/2) d - D/2")
    else:
        rep.violation("project.centres", top.fq + ": sub-aperture centres (k + 1/2) d - D/2",
                      "un-projected positions are %s; the centre of mask cell k is (k + 1/2) d - D/2 = %s. A constant offset is harmless "
                      "for one sensor but sensors with different sub-aperture sizes or guide-star altitudes are displaced relative to "
                      "each other" % (nf(bv, 200), nf(want, 200)), top.where(), {"found": nf(bv), "expected": nf(want)})

    # projected positions / diameters per branch
    def resolve_elem(v):
        """?elem((appended,), idx) -> appended[loopvar := idx]"""
        def f(a):
            if isinstance(a, Fn) and a.name == "?elem" and isinstance(a.args[0], tuple) and len(a.args[0]) == 1 and \
                    same_value(a.args[0][0], bv):
                return Rat.sym("P0", ("array",))
            return None
        return v.subst(f) if isinstance(v, Rat) else v
    pos = [c for c in app if c[1] == "wfs_pos.append"]
    dia = [c for c in app if c[1] == "wfs_subap_diameters.append"]
    if len(pos) != 2 or len(dia) != 2:
        rep.unknown("project.formula", top.fq, "expected LGS and NGS branches appending positions and diameters (%d/%d)" % (len(pos), len(dia)), top.where())
        return
    P0 = Rat.sym("P0", ("array",))
    for c in pos + dia:
        conds = [(v, t) for v, t in c[5]]
        if len(conds) != 1:
            rep.unknown("project.formula", top.fq, "projection branch has %d symbolic conditions" % len(conds), top.where())
            return
    # the interpreter records every decision in its positive spelling (`a != b` as not `a == b`): the cone branch is the one
    # where `gs_altitude == 0` is False (or, for a test written some other way, where the test is True)
    cond = pos[0][5][0][0]
    ca_ = cond.single_atom() if isinstance(cond, Rat) else None
    lgs_when = False if (isinstance(ca_, Fn) and ca_.name == "cmp" and ca_.args[0] == "==") else True
    lgs_p = [c for c in pos if c[5][0][1] is lgs_when][0]
    ngs_p = [c for c in pos if c[5][0][1] is (not lgs_when)][0]
    lgs_d = [c for c in dia if c[5][0][1] is lgs_when][0]
    ngs_d = [c for c in dia if c[5][0][1] is (not lgs_when)][0]
    w2s = [a for a in cond.atoms() if isinstance(a, Sym) and "loopvar" in a.flags]
    w2 = Rat.atom(w2s[0]) if len(w2s) == 1 else None
    from ..interp import mk_cmp
    rep.check(w2 is not None and (same_value(cond, mk_cmp("==", g(A("gs_altitudes"), w2), Rat.const(0))) or
                                  same_value(cond, mk_cmp("==", Rat.const(0), g(A("gs_altitudes"), w2)))) and lgs_when is False, "project.branch",
              top.fq + ": cone projection iff gs_altitude != 0", "projection branches on %s" % nf(cond, 120), top.where())
    if w2 is None:
        return
    hs = [a for a in lgs_p[2][0].atoms() if isinstance(a, Fn) and a.name == "getitem" and same_value(a.args[0], A("layer_altitudes"))]
    if len(hs) != 1:
        rep.unknown("project.formula", top.fq, "cannot identify the layer altitude", top.where())
        return
    h = Rat.atom(hs[0])
    d = g(A("subap_diameters"), w2)
    H = g(A("gs_altitudes"), w2)
    th = g(A("gs_positions"), w2)
    wl = IO.returns(ix.func(om.name, "project_lgs"), [P0, d, h, H, th])[0][1]
    wn = IO.returns(ix.func(om.name, "project_ngs"), [P0, d, h, th])[0][1]
    for label, got, want in (("LGS positions p(1 - h/H) + theta h", resolve_elem(lgs_p[2][0]), wl[0]),
                             ("LGS diameter d(1 - h/H)", lgs_d[2][0], wl[1]),
                             ("NGS positions p + theta h", resolve_elem(ngs_p[2][0]), wn[0]),
                             ("NGS diameter d", ngs_d[2][0], wn[1])):
        if isinstance(got, Rat) and has_unknown(got):
            rep.unknown("project.formula", "%s: %s" % (top.fq, label), "unrecognised: %s" % [repr(a)[:60] for a in unknown_atoms(got)][:2], top.where())
        else:
            check_equal(rep, "project.formula", "%s: %s" % (top.fq, label), got, want, top.where(), what="projected geometry")
    # the element read back is the one of this sensor: subap_positions[wfs_n] with the branch's own index
    elems = find_atoms(lgs_p[2][0], lambda a: isinstance(a, Fn) and a.name == "?elem") + \
        find_atoms(ngs_p[2][0], lambda a: isinstance(a, Fn) and a.name == "?elem")
    rep.check(bool(elems) and all(same_value(a.args[1], w2) for a in elems), "project.formula", top.fq + ": sensor w uses its own positions",
              "projected positions of sensor %s read positions[%s]" % (nf(w2), [nf(a.args[1]) for a in elems]), top.where())
    # nesting of the stored lists: [layer][wfs]
    outer_appends = [c for c in app if c[1] in ("self.subap_layer_positions.append", "self.subap_layer_diameters.append")]
    rep.check(len(outer_appends) == 2, "project.nesting", top.fq + ": per-layer lists of per-sensor entries ([layer][wfs])",
              "outer appends: %s" % [c[1] for c in outer_appends], top.where())
    for n in ast.walk(top.node):
        if isinstance(n, ast.For) and "enumerate(self.layer_altitudes)" in norm_text(n.iter).replace(" ", ""):
            inner_inits = [norm_text(s.targets[0]) for s in n.body if isinstance(s, ast.Assign)]
            rep.check("wfs_pos" in inner_inits and "wfs_subap_diameters" in inner_inits, "project.nesting",
                      top.fq + ": per-sensor lists are re-created for every layer",
                      "statements at the top of the layer loop assign %s" % inner_inits, top.where(n))
    no_carried_state(rep, ix, top, "project.no-carried-state")
    # copies: in-place translation must not reach the stored base positions
    sm = fx.summary(top)
    bad = [ev for ev in sm.attr_mut.get("subap_positions", []) if ev.origin[0] == "VA" and ev.kind == "data"]
    rep.check(not bad, "project.copies", top.fq + ": projection works on copies of the un-projected positions",
              "in-place update `%s` modifies self.subap_positions: translations accumulate from layer to layer" %
              (bad[0].stmt_text() if bad else ""), bad[0].where() if bad else top.where())
