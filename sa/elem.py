"""Element-wise reading of array-valued normal forms.

`element(v, idx)` gives the normal form of the scalar  v[idx]  for a tuple `idx` of symbolic indices, by pushing the
index through the array expression (NumPy broadcasting aligned at the trailing axes):

    polynomial in atoms          -> the same polynomial in the elements of the atoms
    getitem(x, basic index)      -> element of x at the composed index (ints, full slices a:b, None, Ellipsis)
    T(x)                         -> element of x at the reversed index
    outer_sub / outer_add / outer-> a[i] -/+/* b[j]
    array symbol                 -> getitem(sym, idx)      scalar symbols / constants -> themselves

Anything else gives None ("cannot read element-wise"); callers treat that as UNRECOGNISED, never as a verdict.
The rank of an operand is taken from the index pattern applied to it, or from `ranks` (symbol name -> rank)."""
from .plf import Rat, Sym, Fn, PowA

SCALAR_FLAGS = ("scalar", "int", "size", "loopvar")


class NoElement(Exception):
    pass


def element(v, idx, ranks=None):
    try:
        return _elem(v, tuple(idx), ranks or {})
    except NoElement:
        return None


def _is_scalar_sym(a):
    return isinstance(a, Sym) and any(f in a.flags for f in SCALAR_FLAGS)


def rank_of(v, ranks):
    """rank of an array-valued normal form, or None if unknown; scalars have rank 0"""
    if not isinstance(v, Rat):
        raise NoElement()
    if v.is_const():
        return 0
    best = 0
    for a in v.atoms(False):
        r = _atom_rank(a, ranks)
        if r is None:
            return None
        best = max(best, r)
    return best


def _atom_rank(a, ranks):
    if isinstance(a, PowA):
        return rank_of(a.base, ranks)
    if isinstance(a, Sym):
        if _is_scalar_sym(a):
            return 0
        return ranks.get(a.name)
    if isinstance(a, Fn):
        if a.name == "getitem" and isinstance(a.args[0], Rat):
            base_rank = rank_of(a.args[0], ranks)
            ix = a.args[1] if isinstance(a.args[1], tuple) and not (a.args[1] and a.args[1][0] == "slice") else (a.args[1],)
            n_int = sum(1 for x in ix if isinstance(x, Rat))
            n_new = sum(1 for x in ix if x is None)
            n_sl = sum(1 for x in ix if isinstance(x, tuple) and x and x[0] == "slice")
            if any(x is Ellipsis for x in ix):
                if base_rank is None:
                    return None
                return base_rank - n_int + n_new
            if base_rank is None:
                # rank from the pattern: every axis is addressed
                return n_sl + n_new
            return base_rank - n_int + n_new
        if a.name == "T" and len(a.args) == 1:
            return rank_of(a.args[0], ranks)
        if a.name in ("outer_sub", "outer_add", "outer"):
            return 2
        if a.name in ("shape", "len", "size"):
            return 0
        if a.name in ("sum", "mean", "max", "min", "std", "var", "prod") and len(a.args) > 1 and a.args[1] is None:
            return 0
    return None


def _elem(v, idx, ranks):
    if isinstance(v, (int, float)):
        return Rat.const(v)
    if not isinstance(v, Rat):
        raise NoElement()
    if v.is_const():
        return v

    def f(a):
        return _elem_atom(a, idx, ranks)
    return v.subst(f)


def _elem_atom(a, idx, ranks):
    if isinstance(a, PowA):
        return Rat.atom(PowA(_elem(a.base, idx, ranks), a.exp))
    if isinstance(a, Sym):
        if _is_scalar_sym(a):
            return Rat.atom(a)
        r = ranks.get(a.name)
        use = idx if r is None else idx[len(idx) - r:] if r <= len(idx) else None
        if use is None:
            raise NoElement()
        return Rat.atom(Fn("getitem", (Rat.atom(a), tuple(use) if len(use) != 1 else use[0])))
    if isinstance(a, Fn):
        if a.name == "getitem" and isinstance(a.args[0], Rat):
            return _elem_getitem(a, idx, ranks)
        if a.name == "T" and len(a.args) == 1:
            r = rank_of(a.args[0], ranks)
            if r is None or r > len(idx):
                raise NoElement()
            use = idx[len(idx) - r:]
            return _elem(a.args[0], tuple(reversed(use)), ranks)
        if a.name in ("outer_sub", "outer_add", "outer"):
            if len(idx) < 2:
                raise NoElement()
            i, j = idx[-2], idx[-1]
            x = _elem(a.args[0], (i,), ranks)
            y = _elem(a.args[1], (j,), ranks)
            return x - y if a.name == "outer_sub" else x + y if a.name == "outer_add" else x * y
        if a.name in ("shape", "len", "size"):
            return Rat.atom(a)
        if a.name in ("sum", "mean", "max", "min", "std", "var", "prod") and len(a.args) > 1 and a.args[1] is None:
            return Rat.atom(a)
        if a.name == "arange" and len(a.args) == 3 and len(idx) >= 1:
            lo, hi, st = a.args
            return lo + idx[-1] * st
        if a.name == "column_stack" and isinstance(a.args[0], tuple) and len(idx) >= 2:
            j = idx[-1].real_const() if isinstance(idx[-1], Rat) else None
            if j is None or int(j) != j or not (0 <= int(j) < len(a.args[0])):
                raise NoElement()
            return _elem(a.args[0][int(j)], (idx[-2],), ranks)
        if a.name == "setitem" and len(a.args) == 3:
            return _elem_setitem(a, idx, ranks)
        if a.name == "astype" and a.args:
            return _elem(a.args[0], idx, ranks)
        if a.name == "reshape" and ranks.get("__identity_reshape__") and isinstance(a.args[0], Rat):
            shp = a.args[1] if len(a.args) == 2 and isinstance(a.args[1], tuple) else a.args[1:]
            if len(shp) == len(idx):
                return _elem(a.args[0], idx, ranks)     # caller's contract: the operand already has this shape
    raise NoElement()


def _elem_setitem(a, idx, ranks):
    """element of `base` after `base[where] = value`, for stores that address whole rows / columns by constants, or a
    leading block [0:a, 0:b, ...] (the element is read inside the block)"""
    base, where, val = a.args
    wt = where if isinstance(where, tuple) and not (where and where[0] == "slice") else (where,)
    if any(w is Ellipsis for w in wt):
        n_named = sum(1 for w in wt if w is not Ellipsis)
        fill = len(idx) - n_named
        if fill < 0:
            raise NoElement()
        wt2 = []
        for w in wt:
            if w is Ellipsis:
                wt2.extend([("slice", Rat.const(0), None, None)] * fill)
            else:
                wt2.append(w)
        wt = tuple(wt2)
    if len(wt) > len(idx):
        raise NoElement()
    use = idx[:len(wt)] if len(wt) == len(idx) else idx[:len(wt)]
    inside = True
    sub = []
    for w, k in zip(wt, use):
        if isinstance(w, tuple) and w and w[0] == "slice":
            lo, hi, st = w[1], w[2], w[3]
            if st is None and (lo is None or (isinstance(lo, Rat) and lo.is_zero())):
                sub.append(k)           # [0:hi]: the generic element is read inside the stored block
                continue
            raise NoElement()
        if isinstance(w, Rat) and w.is_const() and isinstance(k, Rat) and k.is_const():
            if not w.equals(k):
                inside = False
            continue
        raise NoElement()
    if not inside:
        if isinstance(base, Rat):
            return _elem(base, idx, ranks)
        return Rat.const(base)
    rest = tuple(sub) + tuple(idx[len(wt):])
    if isinstance(val, Rat):
        return _elem(val, rest, ranks) if not val.is_const() else val
    raise NoElement()


def _elem_getitem(a, idx, ranks):
    base, ix = a.args
    ixt = ix if isinstance(ix, tuple) and not (ix and ix[0] == "slice") else (ix,)
    # result axes, left to right: one per slice / None; ints consume a base axis without producing one
    n_res = sum(1 for x in ixt if x is None or (isinstance(x, tuple) and x and x[0] == "slice"))
    has_ell = any(x is Ellipsis for x in ixt)
    base_rank = rank_of(base, ranks)
    if has_ell:
        if base_rank is None:
            raise NoElement()
        n_named = sum(1 for x in ixt if x is not None and x is not Ellipsis)
        n_fill = base_rank - n_named
        if n_fill < 0:
            raise NoElement()
        ixt2 = []
        for x in ixt:
            if x is Ellipsis:
                ixt2.extend([("slice", Rat.const(0), None, None)] * n_fill)
            else:
                ixt2.append(x)
        ixt = tuple(ixt2)
        n_res = sum(1 for x in ixt if x is None or (isinstance(x, tuple) and x and x[0] == "slice"))
    elif base_rank is not None:
        n_named = sum(1 for x in ixt if x is not None)
        ixt = ixt + (("slice", Rat.const(0), None, None),) * (base_rank - n_named)
        n_res = sum(1 for x in ixt if x is None or (isinstance(x, tuple) and x and x[0] == "slice"))
    if n_res > len(idx):
        raise NoElement()
    use = list(idx[len(idx) - n_res:])       # broadcasting aligns trailing axes
    inner = []
    for x in ixt:
        if x is None:
            use.pop(0)                        # a length-1 axis: the index is irrelevant
        elif isinstance(x, tuple) and x and x[0] == "slice":
            lo, hi, st = x[1], x[2], x[3]
            k = use.pop(0)
            if st is not None:
                k = k * st
            if isinstance(lo, Rat) and lo.real_const() is not None and lo.real_const() < 0:
                raise NoElement()             # counted from the end: needs the extent
            if lo is not None and not (isinstance(lo, Rat) and lo.is_zero()):
                k = k + lo
            inner.append(k)
        elif isinstance(x, Rat):
            inner.append(x)
        else:
            raise NoElement()
    return _elem(base, tuple(inner), ranks)


# ------------------------------------------------------------------------------------------------ extents
def shape_of(v, ranks):
    """tuple of extents (normal forms) of an array-valued normal form, or None.  Extents of a symbol of known rank r
    are the symbols shape(name)[-r] .. shape(name)[-1]."""
    try:
        return _shape(v, ranks)
    except NoElement:
        return None


def _ext_sym(name, k):
    return Rat.sym("shape(%s)[%d]" % (name, k), ("int", "size"))


def canonical_extents(v, ranks):
    """rewrite shape(x)[k] with k >= 0 as shape(x)[k - rank] for symbols of known rank"""
    def f(a):
        if isinstance(a, Sym) and a.name.startswith("shape(") and "int" in a.flags:
            nm, k = a.name[6:].rsplit(")[", 1)
            k = int(k[:-1])
            if k >= 0 and nm in ranks:
                return _ext_sym(nm, k - ranks[nm])
        return None
    return v.subst(f) if isinstance(v, Rat) else v


def _bcast(a, b):
    if a is None or b is None:
        raise NoElement()
    n = max(len(a), len(b))
    a = (None,) * (n - len(a)) + tuple(a)
    b = (None,) * (n - len(b)) + tuple(b)
    out = []
    for x, y in zip(a, b):
        if x is None or (isinstance(x, Rat) and x.equals(Rat.const(1))):
            out.append(y)
        elif y is None or (isinstance(y, Rat) and y.equals(Rat.const(1))):
            out.append(x)
        else:
            out.append(x)      # equal extents assumed for operands that NumPy accepts
    return tuple(out)


def _shape(v, ranks):
    if not isinstance(v, Rat):
        raise NoElement()
    if v.is_const():
        return ()
    out = ()
    for a in v.atoms(False):
        out = _bcast(out, _atom_shape(a, ranks))
    return out


def _atom_shape(a, ranks):
    if isinstance(a, PowA):
        return _shape(a.base, ranks)
    if isinstance(a, Sym):
        if _is_scalar_sym(a):
            return ()
        r = ranks.get(a.name)
        if r is None:
            raise NoElement()
        return tuple(_ext_sym(a.name, k - r) for k in range(r))
    if isinstance(a, Fn):
        if a.name == "getitem" and isinstance(a.args[0], Rat):
            base = _shape(a.args[0], ranks)
            ix = a.args[1]
            ixt = ix if isinstance(ix, tuple) and not (ix and ix[0] == "slice") else (ix,)
            if any(x is Ellipsis for x in ixt):
                n_named = sum(1 for x in ixt if x is not None and x is not Ellipsis)
                fill = len(base) - n_named
                ixt2 = []
                for x in ixt:
                    if x is Ellipsis:
                        ixt2.extend([("slice", Rat.const(0), None, None)] * fill)
                    else:
                        ixt2.append(x)
                ixt = tuple(ixt2)
            n_named = sum(1 for x in ixt if x is not None)
            ixt = ixt + (("slice", Rat.const(0), None, None),) * (len(base) - n_named)
            out, ax = [], 0
            for x in ixt:
                if x is None:
                    out.append(Rat.const(1))
                    continue
                if ax >= len(base):
                    raise NoElement()
                n = base[ax]
                ax += 1
                if isinstance(x, Rat):
                    continue
                if isinstance(x, tuple) and x and x[0] == "slice":
                    lo, hi, st = x[1], x[2], x[3]
                    if st is not None:
                        raise NoElement()
                    lo = Rat.const(0) if lo is None else lo
                    lo_c = lo.real_const() if isinstance(lo, Rat) else None
                    lo_abs = n + lo if (lo_c is not None and lo_c < 0) else lo
                    if hi is None:
                        hi_abs = n
                    else:
                        hi_c = hi.real_const() if isinstance(hi, Rat) else None
                        neg = (hi_c is not None and hi_c < 0) or _is_negated_positive(hi)
                        hi_abs = n + hi if neg else hi
                    out.append(hi_abs - lo_abs)
                    continue
                raise NoElement()
            return tuple(out)
        if a.name == "T" and len(a.args) == 1:
            return tuple(reversed(_shape(a.args[0], ranks)))
        if a.name in ("shape", "len", "size"):
            return ()
        if a.name in ("sum", "mean", "max", "min", "std", "var", "prod") and len(a.args) > 1 and a.args[1] is None:
            return ()
    raise NoElement()


def _is_negated_positive(v):
    """-(positive quantity): every term has a negative coefficient and is a product of loop / size / integer symbols
    (a slice bound counted from the end, e.g. -i or -(step + t*step))"""
    if not isinstance(v, Rat) or not v.den_is_one():
        return False
    ts = v.terms()
    if not ts:
        return False
    for c, m in ts:
        c = complex(c)
        if c.imag != 0 or c.real >= 0 or not m:
            return False
        for a, e in m:
            if not (isinstance(a, Sym) and any(f in a.flags for f in ("loopvar", "size", "int")) and e > 0):
                return False
    return True


def count_of(v, ranks):
    sh = shape_of(v, ranks)
    if sh is None:
        return None
    n = Rat.const(1)
    for e in sh:
        n = n * e
    return n


def expand_means(v, ranks):
    """mean(X, None) -> sum(X, None) / count(X) and size(X) -> count(X) wherever the extents of X are known, so that
    `numpy.mean(x)`, `x.sum() / x.size` and `numpy.sum(x) / (n0 * n1)` have one normal form."""
    if not isinstance(v, Rat):
        return v

    def f(a):
        if isinstance(a, Fn) and a.name == "mean" and len(a.args) == 2 and a.args[1] is None and isinstance(a.args[0], Rat):
            x = expand_means(a.args[0], ranks)
            n = count_of(x, ranks)
            if n is not None:
                return Rat.atom(Fn("sum", (x, None))) / n
        if isinstance(a, Fn) and a.name in ("size",) and len(a.args) == 1 and isinstance(a.args[0], Rat):
            n = count_of(a.args[0], ranks)
            if n is not None:
                return n
        return None
    return canonical_extents(v.subst(f), ranks)
