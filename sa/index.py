"""RES engine: parse every module of /repo/aotools, symbol tables, import aliases,
star-import replay (package namespaces), attribute-chain resolution, class MRO,
call graph.  Pure `ast`; never imports aotools.
"""
import ast
import os

from .report import AnalysisError, REPO

PKG = "aotools"


class FunctionInfo(object):
    def __init__(self, module, qualname, node, cls=None):
        self.module = module          # ModuleInfo
        self.qualname = qualname
        self.node = node
        self.cls = cls
        a = node.args
        self.params = [x.arg for x in a.posonlyargs + a.args]
        self.kwonly = [x.arg for x in a.kwonlyargs]
        self.vararg = a.vararg.arg if a.vararg else None
        self.kwarg = a.kwarg.arg if a.kwarg else None
        nd = len(a.defaults)
        self.defaults = {}
        if nd:
            for p, d in zip(self.params[-nd:], a.defaults):
                self.defaults[p] = d
        for p, d in zip(self.kwonly, a.kw_defaults):
            if d is not None:
                self.defaults[p] = d

    @property
    def fq(self):
        return "%s:%s" % (self.module.name, self.qualname)

    @property
    def name(self):
        return self.node.name

    def where(self, node=None):
        n = node if node is not None else self.node
        return "%s:%d" % (self.module.relpath, getattr(n, "lineno", 0))

    def decorators(self):
        return [ast.unparse(d) for d in self.node.decorator_list]

    def __repr__(self):
        return "<F %s>" % self.fq


class ClassInfo(object):
    def __init__(self, module, name, node):
        self.module = module
        self.name = name
        self.node = node
        self.methods = {}
        self.base_exprs = node.bases
        self.bases = []         # resolved ClassInfo (repo only)

    @property
    def fq(self):
        return "%s:%s" % (self.module.name, self.name)

    def mro(self):
        out = [self]
        for b in self.bases:
            for c in b.mro():
                if c not in out:
                    out.append(c)
        return out

    def find_method(self, name):
        for c in self.mro():
            if name in c.methods:
                return c.methods[name]
        return None

    def all_methods(self):
        """name -> FunctionInfo actually run for this concrete class."""
        out = {}
        for c in reversed(self.mro()):
            out.update(c.methods)
        return out

    def __repr__(self):
        return "<C %s>" % self.fq


class Binding(object):
    __slots__ = ("kind", "target", "origin")

    def __init__(self, kind, target, origin):
        self.kind = kind        # func | class | module | ext | value
        self.target = target
        self.origin = origin    # module name where the object is defined

    def __repr__(self):
        return "<B %s %r from %s>" % (self.kind, self.target, self.origin)


class ModuleInfo(object):
    def __init__(self, name, path, relpath, is_pkg, source):
        self.name = name
        self.path = path
        self.relpath = relpath
        self.is_pkg = is_pkg
        self.source = source
        self.tree = ast.parse(source, filename=path)
        self.funcs = {}
        self.classes = {}
        self.all = None         # literal __all__ or None
        self.all_dynamic = False
        for st in self.tree.body:
            if isinstance(st, ast.FunctionDef):
                self.funcs[st.name] = FunctionInfo(self, st.name, st)
            elif isinstance(st, ast.ClassDef):
                ci = ClassInfo(self, st.name, st)
                for s2 in st.body:
                    if isinstance(s2, ast.FunctionDef):
                        ci.methods[s2.name] = FunctionInfo(self, "%s.%s" % (st.name, s2.name), s2, ci)
                self.classes[st.name] = ci
            elif isinstance(st, (ast.Assign, ast.AugAssign, ast.AnnAssign)):
                tg = st.targets if isinstance(st, ast.Assign) else [st.target]
                for t in tg:
                    if isinstance(t, ast.Name) and t.id == "__all__":
                        if isinstance(st, ast.Assign) and isinstance(st.value, (ast.List, ast.Tuple)) and \
                                all(isinstance(e, ast.Constant) and isinstance(e.value, str) for e in st.value.elts):
                            self.all = [e.value for e in st.value.elts]
                        else:
                            self.all_dynamic = True

    @property
    def package(self):
        return self.name if self.is_pkg else self.name.rsplit(".", 1)[0]

    def all_functions(self):
        for f in self.funcs.values():
            yield f
        for c in self.classes.values():
            for m in c.methods.values():
                yield m


class RepoIndex(object):
    def __init__(self, root=None, min_modules=24):
        self.root = root or REPO
        self.pkgdir = os.path.join(self.root, PKG)
        if not os.path.isdir(self.pkgdir):
            raise AnalysisError("package directory %s missing" % self.pkgdir)
        self.modules = {}
        for dp, dn, fn in sorted(os.walk(self.pkgdir)):
            dn[:] = sorted(d for d in dn if d != "__pycache__")
            for f in sorted(fn):
                if not f.endswith(".py"):
                    continue
                path = os.path.join(dp, f)
                rel = os.path.relpath(path, self.root)
                parts = rel[:-3].split(os.sep)
                is_pkg = parts[-1] == "__init__"
                if is_pkg:
                    parts = parts[:-1]
                name = ".".join(parts)
                with open(path, encoding="utf-8") as fh:
                    src = fh.read()
                try:
                    self.modules[name] = ModuleInfo(name, path, rel, is_pkg, src)
                except SyntaxError as e:
                    raise AnalysisError("cannot parse %s: %s" % (rel, e))
        if len(self.modules) < min_modules:
            raise AnalysisError("only %d modules parsed under %s (floor %d)"
                                % (len(self.modules), self.pkgdir, min_modules))
        self._ns = {}
        self._ns_progress = {}
        # replay imports in Python's real order: the top-level package first
        self.namespace(PKG)
        for mn in sorted(self.modules):
            self.namespace(mn)
        self._resolve_bases()

    def virtual(self, name, source):
        """Register an analyser-side module (oracle definitions written in Python);
        it lives in the index only, never on disk under /repo."""
        full = PKG + "." + name
        if full in self.modules:
            return self.modules[full]
        m = ModuleInfo(full, "<oracle:%s>" % name, "<oracle:%s>" % name, False, source)
        self.modules[full] = m
        self.namespace(full)
        return m

    # ---------------------------------------------------------------- lookup
    def module(self, name):
        if name not in self.modules:
            raise AnalysisError("anchor module %s not found" % name)
        return self.modules[name]

    def func(self, modname, qualname):
        m = self.module(modname)
        if "." in qualname:
            c, f = qualname.split(".", 1)
            if c not in m.classes or f not in m.classes[c].methods:
                raise AnalysisError("anchor %s:%s not found" % (modname, qualname))
            return m.classes[c].methods[f]
        if qualname not in m.funcs:
            # moved to another module of the package and imported back under the same name: the function the module's
            # name is bound to is the anchor (what a caller of modname.qualname runs)
            b = self.namespace(modname).get(qualname)
            if b is not None and b.kind == "func" and getattr(b.target, "node", None) is not None:
                return b.target
            raise AnalysisError("anchor function %s:%s not found" % (modname, qualname))
        return m.funcs[qualname]

    def cls(self, modname, name):
        m = self.module(modname)
        if name not in m.classes:
            b = self.namespace(modname).get(name)
            if b is not None and b.kind == "class" and getattr(b.target, "methods", None) is not None:
                return b.target
            raise AnalysisError("anchor class %s:%s not found" % (modname, name))
        return m.classes[name]

    def all_functions(self, skip=("aotools._version",)):
        for mn in sorted(self.modules):
            if mn in skip or self.modules[mn].path.startswith("<oracle"):
                continue
            for f in self.modules[mn].all_functions():
                yield f

    # ------------------------------------------------------------- namespaces
    def _abs_module(self, mod, level, name):
        """Resolve a relative import base to a dotted module name."""
        if level == 0:
            return name
        base = mod.package.split(".")
        if level > 1:
            base = base[:-(level - 1)]
        b = ".".join(base)
        return b + ("." + name if name else "")

    def namespace(self, modname):
        """name -> Binding after executing the module's top-level statements in
        order (Python's star-import rule included)."""
        if modname in self._ns:
            return self._ns[modname]
        if modname in self._ns_progress:
            return self._ns_progress[modname]      # partially initialised (cycle)
        mod = self.modules[modname]
        ns = {}
        self._ns_progress[modname] = ns
        self._exec_body(mod, mod.tree.body, ns)
        self._ns[modname] = ns
        del self._ns_progress[modname]
        return ns

    def _bind_submodule(self, full):
        """import of a repo submodule binds it as attribute of its parent package
        (if that package namespace is being / has been built)."""
        if "." not in full:
            return
        parent, leaf = full.rsplit(".", 1)
        for store in (self._ns_progress, self._ns):
            if parent in store:
                store[parent][leaf] = Binding("module", full, full)

    def _exec_body(self, mod, body, ns):
        for st in body:
            if isinstance(st, ast.Import):
                for al in st.names:
                    if al.name.split(".")[0] == PKG and al.name in self.modules:
                        self.namespace(al.name)
                        ns[al.asname or al.name.split(".")[0]] = Binding(
                            "module", al.name if al.asname else PKG, al.name)
                    else:
                        if al.asname:
                            ns[al.asname] = Binding("ext", al.name, al.name)
                        else:
                            top = al.name.split(".")[0]
                            ns[top] = Binding("ext", top, top)
            elif isinstance(st, ast.ImportFrom):
                base = self._abs_module(mod, st.level, st.module or "")
                if base.split(".")[0] != PKG:
                    for al in st.names:
                        if al.name == "*":
                            continue
                        ns[al.asname or al.name] = Binding("ext", base + "." + al.name, base)
                    continue
                if base not in self.modules:
                    raise AnalysisError("import of unknown repo module %s in %s" % (base, mod.name))
                for al in st.names:
                    if al.name == "*":
                        src_ns = self.namespace(base)
                        self._bind_submodule(base)
                        srcmod = self.modules[base]
                        if srcmod.all_dynamic:
                            raise AnalysisError("__all__ of %s is not a literal list" % base)
                        if srcmod.all is not None:
                            names = [n for n in srcmod.all if n in src_ns]
                        else:
                            names = [n for n in src_ns if not n.startswith("_")]
                        for n in names:
                            ns[n] = src_ns[n]
                        continue
                    sub = base + "." + al.name
                    if sub in self.modules:
                        # `from . import x` where x is a submodule: attribute on the
                        # package wins if already bound, else the submodule is imported
                        base_ns = self.namespace(base)
                        if al.name in base_ns and base_ns[al.name].kind != "module":
                            ns[al.asname or al.name] = base_ns[al.name]
                        else:
                            self.namespace(sub)
                            self._bind_submodule(sub)
                            ns[al.asname or al.name] = Binding("module", sub, sub)
                    else:
                        src_ns = self.namespace(base)
                        self._bind_submodule(base)
                        if al.name in src_ns:
                            ns[al.asname or al.name] = src_ns[al.name]
                        else:
                            ns[al.asname or al.name] = Binding("value", None, base)
            elif isinstance(st, ast.FunctionDef):
                ns[st.name] = Binding("func", mod.funcs[st.name], mod.name)
            elif isinstance(st, ast.ClassDef):
                ns[st.name] = Binding("class", mod.classes[st.name], mod.name)
            elif isinstance(st, ast.Assign):
                for t in st.targets:
                    for n in ast.walk(t):
                        if isinstance(n, ast.Name):
                            ns[n.id] = Binding("value", st.value, mod.name)
            elif isinstance(st, (ast.AnnAssign, ast.AugAssign)):
                if isinstance(st.target, ast.Name):
                    ns[st.target.id] = Binding("value", getattr(st, "value", None), mod.name)
            elif isinstance(st, ast.Delete):
                for t in st.targets:
                    if isinstance(t, ast.Name):
                        ns.pop(t.id, None)
            elif isinstance(st, (ast.If, ast.Try, ast.With, ast.For, ast.While)):
                # top-level control flow: conservative = execute all bodies in order
                for fld in ("body", "orelse", "finalbody"):
                    self._exec_body(mod, getattr(st, fld, []) or [], ns)
                for h in getattr(st, "handlers", []) or []:
                    self._exec_body(mod, h.body, ns)

    def _resolve_bases(self):
        for m in self.modules.values():
            for c in m.classes.values():
                for b in c.base_exprs:
                    t = self.resolve_expr(m, b)
                    if t is not None and t.kind == "class":
                        c.bases.append(t.target)

    # -------------------------------------------------------------- resolution
    def resolve_expr(self, mod, expr, local=None):
        """Resolve a Name / Attribute chain in module `mod` to a Binding
        (kind func/class/module/ext/value) or None.  `local` = names bound
        locally in the function (shadowing module names)."""
        chain = []
        e = expr
        while isinstance(e, ast.Attribute):
            chain.append(e.attr)
            e = e.value
        if not isinstance(e, ast.Name):
            return None
        if local and e.id in local:
            return None
        ns = self.namespace(mod.name)
        b = ns.get(e.id)
        if b is None:
            return None
        for attr in reversed(chain):
            if b.kind == "ext":
                b = Binding("ext", b.target + "." + attr, b.origin)
            elif b.kind == "module":
                sub = b.target + "." + attr
                sns = self.namespace(b.target)
                if attr in sns:
                    b = sns[attr]
                elif sub in self.modules:
                    b = Binding("module", sub, sub)
                else:
                    return None
            else:
                return None
        return b

    def local_names(self, finfo):
        """Names assigned (or params) anywhere in the function body."""
        out = set(finfo.params + finfo.kwonly)
        if finfo.vararg:
            out.add(finfo.vararg)
        if finfo.kwarg:
            out.add(finfo.kwarg)
        for n in ast.walk(finfo.node):
            if isinstance(n, ast.Name) and isinstance(n.ctx, (ast.Store, ast.Del)):
                out.add(n.id)
            elif isinstance(n, (ast.Import, ast.ImportFrom)):
                for al in n.names:
                    out.add((al.asname or al.name).split(".")[0])
        return out

    def resolve_call(self, finfo, call, concrete_cls=None):
        """Binding for the callee of `call` inside function `finfo`.
        self.m(...) resolves through the (concrete) class MRO."""
        f = call.func
        if isinstance(f, ast.Attribute) and isinstance(f.value, ast.Name) and f.value.id == "self" \
                and finfo.cls is not None:
            c = concrete_cls or finfo.cls
            m = c.find_method(f.attr)
            if m is not None:
                return Binding("func", m, m.module.name)
            return None
        return self.resolve_expr(finfo.module, f, self.local_names(finfo))

    # -------------------------------------------------------------- public API
    def public_functions(self):
        """Public = in module __all__ if there is one, else non-underscore
        top-level def; methods of public classes not starting with '_' (plus
        __init__, __repr__)."""
        out = []
        for mn in sorted(self.modules):
            if mn == "aotools._version" or self.modules[mn].path.startswith("<oracle"):
                continue
            m = self.modules[mn]
            for f in m.funcs.values():
                if m.all is not None:
                    if f.name in m.all:
                        out.append(f)
                elif not f.name.startswith("_"):
                    out.append(f)
            for c in m.classes.values():
                pub = (c.name in m.all) if m.all is not None else not c.name.startswith("_")
                if not pub:
                    continue
                for name, meth in c.all_methods().items():
                    if not name.startswith("_") or name in ("__init__", "__repr__", "__call__"):
                        if meth not in out:
                            out.append(meth)
        return out

    def call_graph(self):
        """fq -> list of (call node, Binding or None)."""
        g = {}
        for f in self.all_functions():
            lst = []
            for n in ast.walk(f.node):
                if isinstance(n, ast.Call):
                    lst.append((n, self.resolve_call(f, n)))
            g[f.fq] = lst
        return g


def dotted(expr):
    """Textual dotted name of a Name/Attribute chain, or None."""
    parts = []
    e = expr
    while isinstance(e, ast.Attribute):
        parts.append(e.attr)
        e = e.value
    if isinstance(e, ast.Name):
        parts.append(e.id)
        return ".".join(reversed(parts))
    return None


def norm_text(node):
    """Normalised source text of a node (used in construct keys)."""
    try:
        return ast.unparse(node)
    except Exception:
        return ast.dump(node)
