"""FX engine: inter-procedural may-alias / may-mutate / effect analysis.

Abstract value of a variable = set of origins
    ('P', p)   the object passed as parameter p
    ('V', p)   an object that may share memory with parameter p (view / element)
    ('A', a)   the object stored in self.a          ('VA', a) a view of it
    ('G', g)   a module-level mutable object        ('VG', g) a view of it
    ('M', fq)  the object returned by the memoised function fq (kept in its cache)   ('VM', fq) a view of it
(empty set = freshly created in this function).  Structured statements are
interpreted with a fork per branch and a join afterwards; loops run to a
fixpoint.  Summaries (mutates / returns-alias / effects) are propagated over the
resolved call graph to a fixpoint.
"""
import ast
import re

from .index import norm_text, dotted

# ---- tables (each entry: reason) ------------------------------------------
# attributes whose value shares memory with the base array
VIEW_ATTRS = {"T", "real", "imag", "flat", "mT"}
# attributes that yield metadata, never array memory
META_ATTRS = {"shape", "dtype", "size", "ndim", "nbytes", "itemsize", "strides"}
# methods returning a view of the receiver (numpy documentation: "returns a view where possible")
VIEW_METHODS = {"reshape", "view", "ravel", "squeeze", "swapaxes", "transpose", "diagonal", "__getitem__",
                "newbyteorder", "getfield"}
# numpy functions returning (possibly) a view of their first argument
VIEW_FUNCS = {"numpy.asarray", "numpy.asanyarray", "numpy.atleast_1d", "numpy.atleast_2d", "numpy.atleast_3d",
              "numpy.ravel", "numpy.reshape", "numpy.transpose", "numpy.squeeze", "numpy.swapaxes",
              "numpy.moveaxis", "numpy.rollaxis", "numpy.expand_dims", "numpy.broadcast_to", "numpy.real",
              "numpy.imag", "numpy.diagonal", "numpy.ascontiguousarray", "numpy.asfortranarray",
              "numpy.flipud", "numpy.fliplr", "numpy.flip", "numpy.rot90", "numpy.split", "numpy.array_split",
              "numpy.hsplit", "numpy.vsplit", "numpy.lib.stride_tricks.as_strided",
              # scalar-type constructors applied to an array behave like asarray(dtype=...):
              # no copy when the dtype already matches (confirmed on the installed NumPy)
              "numpy.float32", "numpy.float64", "numpy.float16", "numpy.double", "numpy.single",
              "numpy.complex64", "numpy.complex128", "numpy.int32", "numpy.int64", "numpy.int16",
              "numpy.int8", "numpy.uint8", "numpy.uint16", "numpy.uint32", "numpy.uint64", "numpy.bool_",
              "numpy.intp", "numpy.longdouble"}
# receiver-mutating methods (ndarray, list, dict, set)
INPLACE_METHODS = {"sort", "fill", "resize", "put", "itemset", "partition", "setflags", "byteswap", "setfield",
                   "append", "extend", "insert", "pop", "remove", "clear", "update", "reverse", "setdefault",
                   "popitem", "add", "discard", "__setitem__", "__iadd__"}
# functions mutating their first argument
FIRSTARG_MUTATORS = {"numpy.fill_diagonal", "numpy.put", "numpy.place", "numpy.putmask", "numpy.copyto",
                     "numpy.put_along_axis", "numpy.random.shuffle", "random.shuffle", "numpy.ndarray.sort",
                     "numpy.ndarray.fill"}
# global-state RNG functions of numpy.random / stdlib random
GLOBAL_RNG = {"seed", "normal", "rand", "randn", "random", "random_sample", "ranf", "sample", "choice", "shuffle",
              "permutation", "uniform", "randint", "random_integers", "standard_normal", "poisson", "gamma",
              "exponential", "binomial", "beta", "bytes", "get_state", "set_state", "gauss", "randrange",
              "triangular", "lognormal", "multivariate_normal", "rayleigh", "chisquare", "getrandbits", "choices"}
# index expressions that make a subscript LOAD a copy (advanced indexing)
ARRAY_INDEX_CALLS = {"numpy.where", "numpy.nonzero", "numpy.arange", "numpy.argsort", "numpy.argwhere",
                     "numpy.flatnonzero", "numpy.array", "numpy.indices", "numpy.argmax", "numpy.argmin",
                     "numpy.digitize", "numpy.round", "numpy.linspace", "numpy.tile"}
MEMO_DECORATORS = ("lru_cache", "cache", "memoize", "cached")

SCALAR_DOC = re.compile(r"^\s*([A-Za-z_][A-Za-z_0-9]*)\s*\(\s*(int|float|str|string|bool|boolean|tuple)\s*(,\s*optional\s*)?\)", re.M)


def is_memoised(finfo):
    for d in finfo.node.decorator_list:
        txt = norm_text(d)
        if any(k == txt.split("(")[0].split(".")[-1] for k in MEMO_DECORATORS):
            return True
    return False


class Event(object):
    def __init__(self, kind, origin, node, func, how, chain=""):
        self.kind = kind        # 'data' | 'meta'
        self.origin = origin
        self.node = node
        self.func = func        # FunctionInfo where the sink is
        self.how = how
        self.chain = chain

    def stmt_text(self):
        return norm_text(self.node)

    def where(self):
        return self.func.where(self.node)


class Summary(object):
    def __init__(self):
        self.mutates = {}           # param -> [Event]
        self.returns_alias = set()  # params
        self.returns_attr = set()   # self attrs aliased by the return value
        self.attr_mut = {}          # attr -> [Event]
        self.attr_bind = {}         # attr -> set(origins)
        self.attr_reads = set()
        self.attr_writes = set()
        self.global_mut = {}        # global name -> [Event]
        self.global_rebind = {}     # global name -> [node]
        self.rng_global = []        # [(node, dotted)]
        self.rng_draws = []         # [(node, receiver origins)]
        self.calls = []             # [(node, binding)]
        self.clock = []             # [(node, dotted)]
        self.memo_mut = {}          # memoised function fq -> [Event]: its cached result is modified in place
        self.returns_memo = set()   # memoised functions whose cached result object this function may return
        self.returns_global = set() # module-level objects (or objects stored in them) this function may return

    def sig(self):
        return (tuple(sorted((p, len(v)) for p, v in self.mutates.items())),
                tuple(sorted(self.returns_alias)), tuple(sorted(self.returns_attr)),
                tuple(sorted((a, len(v)) for a, v in self.attr_mut.items())),
                tuple(sorted((a, tuple(sorted(map(str, o)))) for a, o in self.attr_bind.items())),
                tuple(sorted((g, len(v)) for g, v in self.global_mut.items())),
                len(self.rng_global), tuple(sorted((g, len(v)) for g, v in self.memo_mut.items())),
                tuple(sorted(self.returns_memo)), tuple(sorted(self.returns_global)))


def view_of(origins):
    out = set()
    for o in origins:
        k = o[0]
        if k == "P":
            out.add(("V", o[1]))
        elif k == "A":
            out.add(("VA", o[1]))
        elif k == "G":
            out.add(("VG", o[1]))
        elif k == "M":
            out.add(("VM", o[1]))
        else:
            out.add(o)
    return frozenset(out)


def scalar_params(finfo):
    """Parameters that are certainly immutable scalars (augmented assignment on
    them rebinds and cannot modify the caller's object)."""
    out = set()
    for p, d in finfo.defaults.items():
        if isinstance(d, ast.Constant) and isinstance(d.value, (int, float, str, bool, complex)) and d.value is not None:
            out.add(p)
    doc = ast.get_docstring(finfo.node) or ""
    for m in SCALAR_DOC.finditer(doc):
        if m.group(1) in finfo.params:
            out.add(m.group(1))
    return out


class FX(object):
    def __init__(self, index):
        self.ix = index
        self.funcs = [f for f in index.all_functions()]
        self.by_fq = {f.fq: f for f in self.funcs}
        self.summ = {f.fq: Summary() for f in self.funcs}
        self.rounds = 0
        self._fixpoint()

    def _fixpoint(self):
        for r in range(12):
            changed = False
            for f in self.funcs:
                new = _Analysis(self, f).run()
                if new.sig() != self.summ[f.fq].sig():
                    changed = True
                self.summ[f.fq] = new
            self.rounds = r + 1
            if not changed:
                return
        # finite lattice: should not happen
        raise RuntimeError("FX summaries did not stabilise")

    def summary(self, f):
        return self.summ[f.fq]

    def analysis(self, f):
        """fresh per-function analysis object (with sink trace) for reporting"""
        a = _Analysis(self, f)
        a.run()
        return a


class _Analysis(object):
    def __init__(self, fx, f):
        self.fx = fx
        self.ix = fx.ix
        self.f = f
        self.S = Summary()
        self.locals = self.ix.local_names(f)
        self.scalars = scalar_params(f)
        self.globals_declared = set()
        for n in ast.walk(f.node):
            if isinstance(n, ast.Global):
                self.globals_declared.update(n.names)
        self.arrayidx = set()      # local names known to hold index arrays
        self.alias_edges = 0

    # ------------------------------------------------------------------
    def run(self):
        env = {}
        for p in self.f.params + self.f.kwonly:
            if p == "self" and self.f.cls is not None:
                continue
            env[p] = frozenset() if p in self.scalars else frozenset([("P", p)])
        if self.f.vararg:
            env[self.f.vararg] = frozenset([("V", self.f.vararg)])
        if self.f.kwarg:
            env[self.f.kwarg] = frozenset([("V", self.f.kwarg)])
        self.block(self.f.node.body, env)
        return self.S

    # ---- state helpers
    @staticmethod
    def join(a, b):
        if a is None:
            return b
        if b is None:
            return a
        out = dict(a)
        for k, v in b.items():
            out[k] = out.get(k, frozenset()) | v
        return out

    def block(self, stmts, env):
        for st in stmts:
            if env is None:
                return None
            env = self.stmt(st, env)
        return env

    # ---- sinks
    def sink(self, origins, node, how, kind="data"):
        for o in origins:
            k = o[0]
            if k in ("P", "V"):
                if kind == "meta" and k != "P":
                    continue
                self.S.mutates.setdefault(o[1], []).append(Event(kind, o, node, self.f, how))
            elif k in ("A", "VA"):
                if kind == "meta" and k != "A":
                    continue
                self.S.attr_mut.setdefault(o[1], []).append(Event(kind, o, node, self.f, how))
            elif k in ("G", "VG"):
                self.S.global_mut.setdefault(o[1], []).append(Event(kind, o, node, self.f, how))
            elif k in ("M", "VM"):
                if kind == "meta" and k != "M":
                    continue
                self.S.memo_mut.setdefault(o[1], []).append(Event(kind, o, node, self.f, how))

    # ---- statements
    def stmt(self, st, env):
        if isinstance(st, ast.Assign):
            val = self.origins(st.value, env)
            self.scan_calls(st.value, env)
            for t in st.targets:
                env = self.assign(t, val, st.value, st, env)
            return env
        if isinstance(st, ast.AnnAssign):
            if st.value is not None:
                self.scan_calls(st.value, env)
                env = self.assign(st.target, self.origins(st.value, env), st.value, st, env)
            return env
        if isinstance(st, ast.AugAssign):
            self.scan_calls(st.value, env)
            t = st.target
            if isinstance(t, ast.Name):
                o = env.get(t.id)
                if o is None and t.id in self.globals_declared:
                    self.S.global_rebind.setdefault(t.id, []).append(st)
                    o = frozenset([("G", t.id)])
                if o:
                    self.sink(o, st, "augmented assignment `%s`" % norm_text(st))
            elif isinstance(t, ast.Subscript):
                self.sink(self.origins(t.value, env), st, "augmented subscript store `%s`" % norm_text(st)[:80])
                self.scan_calls(t, env)
            elif isinstance(t, ast.Attribute):
                if isinstance(t.value, ast.Name) and t.value.id == "self" and self.f.cls is not None:
                    self.S.attr_writes.add(t.attr)
                    self.S.attr_reads.add(t.attr)
                    self.sink(frozenset([("A", t.attr)]), st, "augmented attribute `%s`" % norm_text(st)[:80])
                else:
                    self.sink(self.origins(t.value, env), st, "augmented attribute store", "meta")
            return env
        if isinstance(st, ast.Expr):
            self.scan_calls(st.value, env)
            return env
        if isinstance(st, ast.Return):
            if st.value is not None:
                self.scan_calls(st.value, env)
                for o in self.origins(st.value, env):
                    if o[0] in ("P", "V"):
                        self.S.returns_alias.add(o[1])
                    elif o[0] in ("A", "VA"):
                        self.S.returns_attr.add(o[1])
                    elif o[0] in ("M", "VM"):
                        self.S.returns_memo.add(o[1])
                    elif o[0] in ("G", "VG"):
                        self.S.returns_global.add(o[1])
            return None
        if isinstance(st, ast.Raise):
            if st.exc is not None:
                self.scan_calls(st.exc, env)
            return None
        if isinstance(st, ast.If):
            self.scan_calls(st.test, env)
            a = self.block(st.body, dict(env))
            b = self.block(st.orelse, dict(env))
            return self.join(a, b)
        if isinstance(st, (ast.For, ast.While)):
            if isinstance(st, ast.For):
                self.scan_calls(st.iter, env)
            else:
                self.scan_calls(st.test, env)
            cur = dict(env)
            out = None
            for _ in range(6):
                start = dict(cur)
                if isinstance(st, ast.For):
                    it = self.iter_origins(st.iter, start)
                    start = self.assign(st.target, it, None, st, start)
                end = self.block(st.body, start)
                out = self.join(out, end)
                nxt = self.join(cur, end)
                if nxt == cur:
                    break
                cur = nxt
            res = self.join(env, out)
            if st.orelse:
                res = self.block(st.orelse, res)
            return res
        if isinstance(st, ast.Try):
            states = [dict(env)]
            cur = dict(env)
            for s2 in st.body:
                if cur is None:
                    break
                cur = self.stmt(s2, cur)
                if cur is not None:
                    states.append(dict(cur))
            hjoin = None
            for s0 in states:
                hjoin = self.join(hjoin, s0)
            outs = []
            if cur is not None and st.orelse:
                cur = self.block(st.orelse, cur)
            outs.append(cur)
            for h in st.handlers:
                henv = dict(hjoin) if hjoin is not None else {}
                if h.name:
                    henv[h.name] = frozenset()
                outs.append(self.block(h.body, henv))
            res = None
            for o in outs:
                res = self.join(res, o)
            if st.finalbody:
                res = self.block(st.finalbody, res if res is not None else dict(env))
            return res
        if isinstance(st, ast.With):
            for it in st.items:
                self.scan_calls(it.context_expr, env)
                if it.optional_vars is not None:
                    env = self.assign(it.optional_vars, frozenset(), it.context_expr, st, env)
            return self.block(st.body, env)
        if isinstance(st, ast.Delete):
            for t in st.targets:
                if isinstance(t, ast.Subscript):
                    self.sink(self.origins(t.value, env), st, "del subscript")
                elif isinstance(t, ast.Name):
                    env = dict(env)
                    env[t.id] = frozenset()
            return env
        if isinstance(st, (ast.FunctionDef, ast.ClassDef, ast.Pass, ast.Break, ast.Continue, ast.Global,
                           ast.Nonlocal, ast.Import, ast.ImportFrom, ast.Assert)):
            return env
        return env

    def iter_origins(self, it, env):
        if isinstance(it, ast.Call):
            d = dotted(it.func)
            if d in ("range", "numba.prange", "prange"):
                return frozenset()
            if d in ("enumerate", "zip", "reversed", "list", "sorted", "iter"):
                out = frozenset()
                for a in it.args:
                    out |= view_of(self.origins(a, env))
                return out
        return view_of(self.origins(it, env))

    def assign(self, t, val, valnode, st, env):
        env = dict(env)
        if isinstance(t, ast.Name):
            if t.id in self.globals_declared:
                self.S.global_rebind.setdefault(t.id, []).append(st)
            env[t.id] = val
            if val:
                self.alias_edges += 1
            if valnode is not None and self.is_array_index(valnode, env):
                self.arrayidx.add(t.id)
            else:
                self.arrayidx.discard(t.id)
        elif isinstance(t, (ast.Tuple, ast.List)):
            if isinstance(valnode, (ast.Tuple, ast.List)) and len(valnode.elts) == len(t.elts):
                for te, ve in zip(t.elts, valnode.elts):
                    env = self.assign(te, self.origins(ve, env), ve, st, env)
            else:
                meta = isinstance(valnode, ast.Attribute) and valnode.attr in META_ATTRS
                for te in t.elts:
                    env = self.assign(te, frozenset() if meta else view_of(val), None, st, env)
        elif isinstance(t, ast.Starred):
            env = self.assign(t.value, view_of(val), None, st, env)
        elif isinstance(t, ast.Attribute):
            if isinstance(t.value, ast.Name) and t.value.id == "self" and self.f.cls is not None:
                self.S.attr_writes.add(t.attr)
                self.S.attr_bind.setdefault(t.attr, set()).update(val)
            else:
                # attribute store on another object: metadata change of that object
                self.sink(self.origins(t.value, env), st, "attribute store `%s`" % norm_text(st)[:80], "meta")
        elif isinstance(t, ast.Subscript):
            self.sink(self.origins(t.value, env), st, "subscript store `%s`" % norm_text(st)[:80])
            self.scan_calls(t, env)
        return env

    # ---- expressions
    def is_array_index(self, node, env):
        if isinstance(node, ast.Compare):
            return True
        if isinstance(node, ast.Name):
            return node.id in self.arrayidx
        if isinstance(node, ast.Call):
            b = self.resolve(node.func)
            if b is not None and b.kind == "ext" and b.target in ARRAY_INDEX_CALLS:
                return True
            if isinstance(node.func, ast.Attribute) and node.func.attr in ("astype", "nonzero", "argsort"):
                return self.is_array_index(node.func.value, env) or node.func.attr in ("nonzero", "argsort")
        if isinstance(node, ast.Tuple):
            return any(self.is_array_index(e, env) for e in node.elts)
        if isinstance(node, ast.List):
            return True
        if isinstance(node, ast.BinOp):
            return self.is_array_index(node.left, env) or self.is_array_index(node.right, env)
        if isinstance(node, ast.UnaryOp):
            return self.is_array_index(node.operand, env)
        if isinstance(node, ast.Subscript):
            return self.is_array_index(node.value, env) and not self.basic_index(node.slice, env, strict=True)
        return False

    def basic_index(self, sl, env, strict=False):
        """True if the subscript is basic indexing (result is a view)."""
        if isinstance(sl, ast.Tuple):
            return all(self.basic_index(e, env, strict) for e in sl.elts)
        if isinstance(sl, ast.Slice):
            return True
        if isinstance(sl, ast.Constant):
            return True
        if self.is_array_index(sl, env):
            return False
        return True

    def resolve(self, expr):
        return self.ix.resolve_expr(self.f.module, expr, self.locals)

    def origins(self, e, env):
        if e is None:
            return frozenset()
        if isinstance(e, ast.Name):
            if e.id in env:
                return env[e.id]
            if e.id in self.locals:
                return frozenset()
            b = self.ix.namespace(self.f.module.name).get(e.id)
            if b is not None and b.kind == "value" and isinstance(
                    b.target, (ast.Dict, ast.List, ast.Set, ast.Call, ast.ListComp, ast.DictComp)):
                return frozenset([("G", e.id)])
            return frozenset()
        if isinstance(e, ast.Attribute):
            if isinstance(e.value, ast.Name) and e.value.id == "self" and self.f.cls is not None:
                self.S.attr_reads.add(e.attr)
                return frozenset([("A", e.attr)])
            if e.attr in META_ATTRS:
                return frozenset()
            if e.attr in VIEW_ATTRS:
                return view_of(self.origins(e.value, env))
            return frozenset()
        if isinstance(e, ast.Subscript):
            base = self.origins(e.value, env)
            if not base:
                return base
            if isinstance(e.value, ast.Attribute) and e.value.attr in META_ATTRS:
                return frozenset()
            if self.basic_index(e.slice, env):
                return view_of(base)
            return frozenset()
        if isinstance(e, ast.IfExp):
            return self.origins(e.body, env) | self.origins(e.orelse, env)
        if isinstance(e, ast.BoolOp):
            out = frozenset()
            for v in e.values:
                out |= self.origins(v, env)
            return out
        if isinstance(e, (ast.Tuple, ast.List, ast.Set)):
            out = frozenset()
            for v in e.elts:
                out |= view_of(self.origins(v, env))
            return out
        if isinstance(e, ast.Starred):
            return self.origins(e.value, env)
        if isinstance(e, ast.NamedExpr):
            return self.origins(e.value, env)
        if isinstance(e, ast.Call):
            return self.call_origins(e, env)
        return frozenset()

    def call_origins(self, c, env):
        f = c.func
        # out= keyword: the result is the out array
        for k in c.keywords:
            if k.arg == "out":
                return self.origins(k.value, env)
        if isinstance(f, ast.Attribute):
            recv_is_self_method = isinstance(f.value, ast.Name) and f.value.id == "self" and self.f.cls is not None
            if not recv_is_self_method:
                b = self.resolve(f)
                if b is None:
                    # method call on a value
                    if f.attr in VIEW_METHODS:
                        return view_of(self.origins(f.value, env))
                    if f.attr == "astype":
                        for k in c.keywords:
                            if k.arg == "copy" and isinstance(k.value, ast.Constant) and k.value.value is False:
                                return view_of(self.origins(f.value, env))
                        return frozenset()
                    return frozenset()
        b = self.ix.resolve_call(self.f, c)
        if b is None:
            return frozenset()
        if b.kind == "ext":
            if b.target in VIEW_FUNCS and c.args:
                return view_of(self.origins(c.args[0], env))
            if b.target == "numpy.array" and c.args:
                for k in c.keywords:
                    if k.arg == "copy" and isinstance(k.value, ast.Constant) and k.value.value is False:
                        return view_of(self.origins(c.args[0], env))
            return frozenset()
        if b.kind == "func":
            callee = b.target
            s = self.fx.summ.get(callee.fq)
            if s is None:
                return frozenset()
            out = frozenset()
            if is_memoised(callee):
                out |= frozenset([("M", callee.fq)])
            for g in s.returns_memo:
                out |= frozenset([("M", g)])
            for g in s.returns_global:
                out |= frozenset([("VG", g)])
            for p, a in self.bind(callee, c):
                if p in s.returns_alias:
                    out |= view_of(self.origins(a, env))
            if callee.cls is not None and isinstance(f, ast.Attribute) and isinstance(f.value, ast.Name) \
                    and f.value.id == "self":
                for a in s.returns_attr:
                    out |= frozenset([("VA", a)])
            return out
        return frozenset()

    def bind(self, callee, c):
        """pairs (param name, argument node)"""
        params = [p for p in callee.params]
        if callee.cls is not None and params and params[0] == "self":
            params = params[1:]
        out = []
        i = 0
        for a in c.args:
            if isinstance(a, ast.Starred):
                # f(*args): every remaining parameter may receive an element of the starred value
                for p in params[i:]:
                    out.append((p, a.value))
                i = len(params)
                continue
            if i < len(params):
                out.append((params[i], a))
            elif callee.vararg:
                out.append((callee.vararg, a))
            i += 1
        for k in c.keywords:
            if k.arg is None:
                continue
            if k.arg in params or k.arg in callee.kwonly:
                out.append((k.arg, k.value))
        return out

    def scan_calls(self, expr, env):
        """effects of every call inside expr (evaluated left to right)."""
        for n in ast.walk(expr):
            if isinstance(n, ast.Call):
                self.call_effects(n, env)
            elif isinstance(n, ast.Attribute) and isinstance(n.value, ast.Name) and n.value.id == "self" \
                    and self.f.cls is not None and isinstance(n.ctx, ast.Load):
                self.S.attr_reads.add(n.attr)

    def call_effects(self, c, env):
        f = c.func
        b = self.ix.resolve_call(self.f, c)
        self.S.calls.append((c, b))
        for k in c.keywords:
            if k.arg == "out":
                self.sink(self.origins(k.value, env), c, "out= argument of `%s`" % norm_text(f))
            # SciPy / NumPy routines allowed to destroy their input: overwrite_x / overwrite_a / overwrite_b / overwrite_input=True
            if k.arg and k.arg.startswith("overwrite") and isinstance(k.value, ast.Constant) and k.value.value is True and c.args:
                pos = 1 if k.arg == "overwrite_b" and len(c.args) > 1 else 0
                self.sink(self.origins(c.args[pos], env), c, "%s=True lets `%s` overwrite its argument" % (k.arg, norm_text(f)))
        if b is None:
            if isinstance(f, ast.Attribute):
                recv = self.origins(f.value, env)
                if f.attr in INPLACE_METHODS:
                    self.sink(recv, c, "in-place method .%s()" % f.attr)
                if f.attr == "at" and isinstance(f.value, ast.Attribute) and c.args:
                    self.sink(self.origins(c.args[0], env), c, "ufunc.at")
                # draw on a generator object held in a local / attribute
                if f.attr in ("normal", "standard_normal", "random", "uniform", "integers", "choice",
                              "shuffle", "permutation", "poisson", "exponential", "gamma"):
                    self.S.rng_draws.append((c, recv))
            return
        if b.kind == "ext":
            d = b.target
            if d in FIRSTARG_MUTATORS and c.args:
                self.sink(self.origins(c.args[0], env), c, "%s mutates its first argument" % d)
            parts = d.split(".")
            if (d.startswith("numpy.random.") and len(parts) == 3 and parts[2] in GLOBAL_RNG) or \
                    (parts[0] == "random" and len(parts) == 2 and parts[1] in GLOBAL_RNG):
                self.S.rng_global.append((c, d))
            if d in ("time.time", "time.time_ns", "time.perf_counter", "time.monotonic", "time.clock",
                     "datetime.datetime.now", "os.urandom", "os.getpid", "uuid.uuid4"):
                self.S.clock.append((c, d))
            if d.endswith(".at") and c.args and d.startswith("numpy."):
                self.sink(self.origins(c.args[0], env), c, "ufunc.at")
            return
        if b.kind == "func":
            callee = b.target
            s = self.fx.summ.get(callee.fq)
            if s is None:
                return
            for p, a in self.bind(callee, c):
                if p in s.mutates:
                    kinds = set(ev.kind for ev in s.mutates[p])
                    o = self.origins(a, env)
                    if "data" in kinds:
                        self.sink(o, c, "passed as `%s` to %s, which modifies it" % (p, callee.fq))
                    elif "meta" in kinds:
                        self.sink(o, c, "passed as `%s` to %s, which changes its metadata" % (p, callee.fq), "meta")
            # method on self: attribute mutations / bindings of the callee belong to this object too
            if callee.cls is not None and isinstance(f, ast.Attribute) and isinstance(f.value, ast.Name) \
                    and f.value.id == "self" and self.f.cls is not None:
                for a, evs in s.attr_mut.items():
                    self.S.attr_mut.setdefault(a, []).extend(
                        Event(ev.kind, ev.origin, c, self.f, "via self.%s(): %s" % (callee.name, ev.how)) for ev in evs[:1])
                self.S.attr_writes |= s.attr_writes
                self.S.attr_reads |= s.attr_reads
            for g, evs in s.global_mut.items():
                self.S.global_mut.setdefault(g, []).append(Event("data", ("G", g), c, self.f, "via %s" % callee.fq))
            if s.rng_global:
                self.S.rng_global.append((c, "via " + callee.fq))
            if s.clock:
                self.S.clock.append((c, "via " + callee.fq))
