"""Field sub-domain of PLF (C10/C11): values that are linear images of an input
field.  For v = sum_k s_k * L_k(field) the terms are grouped by their carrier
atom; linearity and the power gain  ||v||^2 = gain * ||field||^2  are computed
recursively through multipliers of constant modulus, shifts and (I)DFTs."""
from .plf import Rat, Sym, Fn, PowA, find_atoms, ARRAY_FNS

LINEAR_PERM = ("fftshift", "ifftshift")          # permutations: gain 1
DFT_POWER = {"fft2": 2, "ifft2": -2, "fft": 1, "ifft": -1}     # sum|Tx|^2 = N^p sum|x|^2


class NotLinear(Exception):
    pass


class NotConstantModulus(Exception):
    pass


def carries(atom, field):
    return field in Rat.atom(atom).atoms()


def is_array_atom(a):
    if isinstance(a, Fn) and a.name in ARRAY_FNS:
        return True
    if isinstance(a, Sym) and "array" in a.flags:
        return True
    return False


def split_terms(v, field):
    """v -> dict carrier_atom -> scalar Rat ; raises NotLinear."""
    if not isinstance(v, Rat):
        raise NotLinear("value is not an arithmetic expression")
    den = v.den
    if not v.den_is_one():
        for m in den:
            for a, e in m:
                if carries(a, field):
                    raise NotLinear("the input field appears in a denominator")
    groups = {}
    for m, c in v.num.items():
        car = [(a, e) for a, e in m if carries(a, field)]
        if not car:
            raise NotLinear("additive term independent of the input field: %s" % Rat({m: c}).show()[:120])
        if len(car) != 1 or car[0][1] != 1:
            raise NotLinear("term is not of first degree in the input field: %s" % Rat({m: c}).show()[:120])
        a = car[0][0]
        rest = tuple(x for x in m if x[0] != a)
        groups[a] = groups.get(a, Rat({})) + Rat({rest: c})
    if not v.den_is_one():
        d = Rat(dict(den))
        groups = {a: s / d for a, s in groups.items()}
    return groups


def linear_gain(v, field, N, anti=False):
    """Return gain Rat such that sum|v|^2 = gain * sum|field|^2 for every field,
    checking that v is complex-linear in `field` (`anti`: inside an odd number of conjugations, where the expression must
    be anti-linear for the whole to be linear - conj(T(conj(x))) is a linear operator).  Raises NotLinear /
    NotConstantModulus with an explanation."""
    groups = split_terms(v, field)
    if len(groups) != 1:
        raise NotConstantModulus("output is a sum of %d differently transformed copies of the input; "
                                 "its power is not a constant multiple of the input power" % len(groups))
    (carrier, scalar), = groups.items()
    mod2 = scalar * scalar.conj()
    bad = [a for a in mod2.atoms() if is_array_atom(a)]
    if bad:
        raise NotConstantModulus("array-valued multiplier whose modulus is not constant: |%s|^2 = %s"
                                 % (scalar.show()[:100], mod2.show()[:160]))
    return mod2 * carrier_gain(carrier, field, N, anti)


def carrier_gain(atom, field, N, anti=False):
    if atom == field:
        if anti:
            raise NotLinear("the conjugate of the field is not complex-linear")
        return Rat.const(1)
    if isinstance(atom, Fn):
        if atom.name in LINEAR_PERM:
            return linear_gain(atom.args[0], field, N, anti)
        if atom.name in DFT_POWER:
            return linear_gain(atom.args[0], field, N, anti) * (N ** DFT_POWER[atom.name])
        if atom.name == "conj" and len(atom.args) == 1 and isinstance(atom.args[0], Rat):
            return linear_gain(atom.args[0], field, N, not anti)          # modulus unchanged; linearity flips
        if atom.name in ("abs", "real", "imag", "conj"):
            raise NotLinear("%s() of the field is not complex-linear" % atom.name)
    raise NotLinear("input field passes through %s, which is not a recognised linear operator"
                    % (atom.name if isinstance(atom, Fn) else repr(atom)))


def outer_multiplier(v, field):
    """scalar multiplier applied after the outermost transform (single carrier)."""
    groups = split_terms(v, field)
    if len(groups) != 1:
        return None, None
    (carrier, scalar), = groups.items()
    return carrier, scalar
