"""Helpers shared by the property drivers."""
import ast

from .index import RepoIndex, norm_text
from .interp import Interp, has_unknown, unknown_atoms, pyconst
from .plf import Rat, Sym, Fn, PowA, show, vkey, as_rat, rpow
from .report import AnalysisError

_IX = {}


def get_index(root=None):
    if root not in _IX:
        _IX[root] = RepoIndex(root)
    return _IX[root]


def nf(v, limit=400):
    s = show(v)
    return s if len(s) <= limit else s[:limit] + "..."


def same_value(a, b, rtol=1e-12):
    """structural / algebraic equality of two interpreter values."""
    if isinstance(a, Rat) and isinstance(b, Rat):
        if a.key() == b.key():
            return True
        try:
            return a.equals(b, rtol)
        except Exception:
            return False
    if isinstance(a, (tuple, list)) and isinstance(b, (tuple, list)):
        return len(a) == len(b) and all(same_value(x, y, rtol) for x, y in zip(a, b))
    return vkey(a) == vkey(b)


def check_equal(rep, rule, key, got, want, where="", rtol=1e-12, what="", note=""):
    """HOLDS if got == want as normal forms; UNRECOGNISED if `got` contains
    constructs the interpreter does not understand; else VIOLATION."""
    if same_value(got, want, rtol):
        rep.ok(rule, key, note or ("%s = %s" % (what or "normal form", nf(got, 160))))
        return True
    if has_unknown(got):
        rep.unknown(rule, key, "cannot normalise %s: %s (unknown: %s)"
                    % (what, nf(got, 200), ", ".join(sorted(set(repr(a) for a in unknown_atoms(got))))[:200]), where)
        return False
    rep.violation(rule, key, "%s differs from its definition" % (what or "normal form"), where,
                  {"found": nf(got), "expected": nf(want)})
    return False


def check_degree(rep, rule, key, value, target, want, where="", what=""):
    if isinstance(target, str):
        target = Sym(target)
    d = value.degree(target) if isinstance(value, Rat) else None
    if d is not None and d == want:
        rep.ok(rule, key, "degree(%s, %s) = %s" % (what or "value", target, want))
        return True
    if isinstance(value, Rat) and has_unknown(value):
        rep.unknown(rule, key, "cannot normalise %s: %s" % (what, nf(value, 200)), where)
        return False
    rep.violation(rule, key, "%s must be homogeneous of degree %s in %s, found %s"
                  % (what or "value", want, target, "degree %s" % d if d is not None else "no single degree"),
                  where, {"found": nf(value)})
    return False


def const_close(a, b, tol):
    a, b = complex(a), complex(b)
    return abs(a - b) <= tol * max(abs(a), abs(b))


def func_where(f, node=None):
    return f.where(node)


def find_calls(fnode, pred):
    return [n for n in ast.walk(fnode) if isinstance(n, ast.Call) and pred(n)]


def stmt_of(fnode, node):
    """innermost statement of fnode containing node"""
    best = None
    for st in ast.walk(fnode):
        if isinstance(st, ast.stmt):
            for n in ast.walk(st):
                if n is node:
                    if best is None or (st.lineno >= best.lineno):
                        best = st
    return best


def literal_number(node):
    if isinstance(node, ast.Constant) and isinstance(node.value, (int, float)) and not isinstance(node.value, bool):
        return node.value
    if isinstance(node, ast.UnaryOp) and isinstance(node.op, ast.USub):
        v = literal_number(node.operand)
        return -v if v is not None else None
    return None


FULL = ("slice", None, None, None)


def _is_full(x):
    return isinstance(x, tuple) and len(x) == 4 and x[0] == "slice" and x[3] is None and x[2] is None and \
        (x[1] is None or (isinstance(x[1], Rat) and x[1].is_zero()))


def _scalar_index(r):
    """an integer-valued scalar index (constants and int / loop symbols only): x[i][j] is x[i, j] only for those"""
    if r.is_const():
        return True
    for a in r.atoms(True):
        if not (isinstance(a, Sym) and any(f in a.flags for f in ("int", "loopvar", "size"))):
            return False
    return True


def canon_matrix_forms(v):
    """One normal form for spellings of the same matrix expression:
       U * w[None, :]            ->  dot(U, diagmat(w))          (column scaling is right-multiplication by a diagonal matrix)
       x[i][j] / x[(i, j)]       ->  x[i, j]                     (for an integer / array first index)
       x[a:b, :]                 ->  x[a:b]                      (trailing full slices address nothing)
       reshape(x, (1, n))        ->  kept (callers strip a documented result shape themselves)"""
    if isinstance(v, tuple):
        return tuple(canon_matrix_forms(x) for x in v)
    if not isinstance(v, Rat):
        return v

    def strip(idx):
        if isinstance(idx, tuple) and not (idx and idx[0] == "slice"):
            lst = [canon_matrix_forms(x) if isinstance(x, (Rat, tuple)) else x for x in idx]
            while len(lst) > 1 and _is_full(lst[-1]) and not any(x is None for x in lst):
                lst.pop()
            return lst[0] if len(lst) == 1 else tuple(lst)
        return canon_matrix_forms(idx) if isinstance(idx, Rat) else idx

    def f(a):
        if isinstance(a, Fn) and a.name in ("getitem", "setitem") and isinstance(a.args[0], (Rat, int, float)):
            base = canon_matrix_forms(a.args[0]) if isinstance(a.args[0], Rat) else a.args[0]
            idx = strip(a.args[1])
            rest = tuple(canon_matrix_forms(x) if isinstance(x, (Rat, tuple)) else x for x in a.args[2:])
            if a.name == "getitem" and isinstance(base, Rat):
                inner = base.single_atom()
                if isinstance(inner, Fn) and inner.name == "getitem" and isinstance(inner.args[1], Rat) and _scalar_index(inner.args[1]):
                    j = idx if isinstance(idx, tuple) and not (idx and idx[0] == "slice") else (idx,)
                    return Rat.atom(Fn("getitem", (inner.args[0], (inner.args[1],) + tuple(j))))
            return Rat.atom(Fn(a.name, (base, idx) + rest))
        return None
    v = v.subst(f)
    # column scaling
    ts = v.terms()
    if ts is not None and len(ts) == 1:
        c, m = ts[0]
        if abs(complex(c) - 1) < 1e-15 and len(m) == 2 and all(e == 1 for _, e in m):
            (a1, _), (a2, _) = m
            for row, mat in ((a1, a2), (a2, a1)):
                if isinstance(row, Fn) and row.name == "getitem" and isinstance(row.args[1], tuple) and len(row.args[1]) == 2 \
                        and row.args[1][0] is None and _is_full(row.args[1][1]) and isinstance(row.args[0], Rat):
                    return Rat.atom(Fn("dot", (Rat.atom(mat), Rat.atom(Fn("diagmat", (row.args[0],))))))
    return v


_FXC = {}


def get_fx(ix):
    from .fx import FX
    if id(ix) not in _FXC:
        _FXC[id(ix)] = FX(ix)
    return _FXC[id(ix)]


_SCALAR_CALLS = {"float", "int", "abs", "round", "min", "max", "len", "bool", "complex", "pow", "divmod", "str"}


def _provably_scalar(f):
    """every return value of f is built from numbers only (so the cached object is immutable)"""
    from .fx import scalar_params
    ok_names = set(scalar_params(f))
    assigns = {}
    for n in ast.walk(f.node):
        if isinstance(n, ast.Assign) and len(n.targets) == 1 and isinstance(n.targets[0], ast.Name):
            assigns.setdefault(n.targets[0].id, []).append(n.value)
        elif isinstance(n, (ast.AugAssign, ast.For, ast.While, ast.With)):
            return False

    def sc(e, depth=0):
        if depth > 8:
            return False
        if isinstance(e, ast.Constant):
            return isinstance(e.value, (int, float, complex, bool, str)) or e.value is None
        if isinstance(e, ast.Name):
            if e.id in ok_names:
                return True
            return e.id in assigns and all(sc(v, depth + 1) for v in assigns[e.id])
        if isinstance(e, ast.BinOp):
            return sc(e.left, depth + 1) and sc(e.right, depth + 1)
        if isinstance(e, ast.UnaryOp):
            return sc(e.operand, depth + 1)
        if isinstance(e, ast.Tuple):
            return all(sc(x, depth + 1) for x in e.elts)
        if isinstance(e, ast.IfExp):
            return sc(e.body, depth + 1) and sc(e.orelse, depth + 1)
        if isinstance(e, ast.Compare):
            return True
        if isinstance(e, ast.Call):
            fn = norm_text(e.func)
            if fn in _SCALAR_CALLS or fn.startswith("math."):
                return all(sc(a, depth + 1) for a in e.args)
        return False
    rets = [n for n in ast.walk(f.node) if isinstance(n, ast.Return) and n.value is not None]
    return bool(rets) and all(sc(r.value) for r in rets)


def memo_findings(ix, f):
    """Why a memoisation decorator on `f` makes results depend on the call history; [] if it provably does not.
    A cache is invisible iff the cached objects can never change and the key (the arguments) determines the value:
      (a) no caller modifies a cached result in place,
      (b) no cached mutable object is handed out to user code (public return), where it could be modified,
      (c) the function depends on nothing but its arguments (no self, no module-level mutable object)."""
    from .fx import is_memoised
    if not is_memoised(f):
        return []
    fx = get_fx(ix)
    out = []
    for g in ix.all_functions():
        for ev in fx.summary(g).memo_mut.get(f.fq, []):
            if ev.kind == "data":
                out.append(("the cached result of %s is modified in place in %s: `%s` (%s) - later calls return the modified object"
                            % (f.fq, g.fq, ev.stmt_text()[:80], ev.how), ev.where()))
    if not _provably_scalar(f):
        public = set(x.fq for x in ix.public_functions())
        if f.fq in public:
            out.append(("public memoised function returns its cached (mutable) object: a caller that modifies the result changes what later calls return", f.where()))
        for g in ix.all_functions():
            if g.fq in public and f.fq in fx.summary(g).returns_memo:
                out.append(("public function %s returns the cached (mutable) object of %s without copying it" % (g.fq, f.fq), g.where()))
    if f.cls is not None:
        out.append(("memoised method: the cache key does not contain the attributes the result depends on", f.where()))
    else:
        ns = ix.namespace(f.module.name)
        loc = ix.local_names(f)
        for n in ast.walk(f.node):
            if isinstance(n, ast.Name) and isinstance(n.ctx, ast.Load) and n.id not in loc:
                b = ns.get(n.id)
                if b is not None and b.kind == "value" and isinstance(b.target, (ast.Dict, ast.List, ast.Set, ast.ListComp, ast.DictComp)):
                    out.append(("memoised function reads module-level mutable object `%s`, which is not part of the cache key" % n.id, f.where(n)))
                    break
    return out


def cache_excuse(ix, f, gname):
    """None if the module-level dict `gname` written by `f` is an *invisible* cache, else the reason it is hidden state.
    Invisible = (1) it is only ever written by keyed stores D[key] = value in one function, (2) the key contains every
    parameter the stored value (and the decision to store it) depends on, and nothing but parameters is used,
    (3) no stored object is ever modified in place, (4) no stored object is handed out by a public function
    without a copy."""
    fx = get_fx(ix)
    # the functions that write the object themselves (callers inherit the effect "via" them)
    direct = []
    for g in ix.all_functions():
        for ev in fx.summary(g).global_mut.get(gname, []):
            if not ev.how.startswith("via "):
                direct.append((g, ev))
    mods = set(g.module.name for g, _ in direct)
    if len(mods) != 1:
        return "written from %d modules" % len(mods)
    home = direct[0][0].module
    ns = ix.namespace(home.name)
    b = ns.get(gname)
    if b is None or b.kind != "value":
        return "not a plain module-level object"
    t = b.target
    if not ((isinstance(t, ast.Dict) and not t.keys) or (isinstance(t, ast.Call) and norm_text(t.func) in ("dict", "collections.OrderedDict", "OrderedDict") and not t.args)):
        return "module-level object is not an empty dict used as a keyed cache"
    for g in ix.all_functions():
        if gname in fx.summary(g).global_rebind and g.module is home:
            return "rebound by %s" % g.fq
    writers = []
    for g, ev in direct:
        st = ev.node
        if ev.origin[0] != "G" or not isinstance(st, ast.Assign) or len(st.targets) != 1 or \
                not isinstance(st.targets[0], ast.Subscript) or norm_text(st.targets[0].value) != gname:
            return "modified other than by a keyed store: `%s` in %s" % (ev.stmt_text()[:70], g.fq)
        writers.append((g, st))
    if not writers or any(g is not writers[0][0] for g, _ in writers):
        return "written by several functions"
    g = writers[0][0]
    params = set(g.params + g.kwonly)
    if g.cls is not None:
        return "cache filled by a method (the key cannot contain the instance state)"
    single = {}
    for n in ast.walk(g.node):
        if isinstance(n, ast.Assign) and len(n.targets) == 1 and isinstance(n.targets[0], ast.Name):
            single.setdefault(n.targets[0].id, []).append(n.value)
        elif isinstance(n, (ast.AugAssign,)) and isinstance(n.target, ast.Name):
            single.setdefault(n.target.id, []).append(n.value)
            single[n.target.id].append(ast.Name(id=n.target.id, ctx=ast.Load()))

    def key_expr(k):
        if isinstance(k, ast.Name) and k.id in single and len(single[k.id]) == 1:
            return single[k.id][0]
        return k

    def deps(e, seen):
        out = set()
        for n in ast.walk(e):
            if isinstance(n, ast.Name) and isinstance(n.ctx, ast.Load):
                if n.id in params:
                    out.add(n.id)
                elif n.id in single and n.id not in seen:
                    seen.add(n.id)
                    for v in single[n.id]:
                        out |= deps(v, seen)
                elif n.id == "self":
                    out.add("<self>")
                else:
                    bb = ns.get(n.id)
                    if bb is not None and bb.kind == "value" and n.id != gname and isinstance(
                            bb.target, (ast.Dict, ast.List, ast.Set, ast.ListComp, ast.DictComp, ast.Call)):
                        out.add("<global %s>" % n.id)
        return out
    ktexts = set()
    for _, st in writers:
        k = st.targets[0].slice
        ke = key_expr(k)
        ktexts.add(norm_text(ke))
        knames = set(n.id for n in ast.walk(ke) if isinstance(n, ast.Name))
        d = deps(st.value, set())
        # control dependence: tests of the enclosing ifs (other than membership tests on the cache itself)
        for n in ast.walk(g.node):
            if isinstance(n, ast.If) and any(x is st for x in ast.walk(n)):
                for c in ast.walk(n.test):
                    if isinstance(c, ast.Name) and not (isinstance(k, ast.Name) and c.id == k.id) and c.id != gname:
                        d |= deps(c, set())
        missing = sorted(x for x in d if x not in knames)
        if missing:
            return "the stored value depends on %s, which the key (%s) does not contain" % (", ".join(missing), norm_text(ke)[:60])
    # every access uses the same key
    for n in ast.walk(g.node):
        if isinstance(n, ast.Subscript) and norm_text(n.value) == gname:
            if norm_text(key_expr(n.slice)) not in ktexts:
                return "read with a different key `%s`" % norm_text(n.slice)[:40]
    public = set(x.fq for x in ix.public_functions())
    for h in ix.all_functions():
        if h.fq in public and gname in fx.summary(h).returns_global:
            return "public function %s hands out the cached object without copying it" % h.fq
    return None


def global_state_findings(ix, f):
    """[(name, message)] for module-level state written by f that makes results depend on the call history
    (invisible complete-key caches are excused)."""
    fx = get_fx(ix)
    s = fx.summary(f)
    out = []
    for g in sorted(set(list(s.global_mut) + list(s.global_rebind))):
        why = cache_excuse(ix, f, g) if g not in s.global_rebind else "rebound"
        if why is None:
            continue
        out.append((g, "function writes module-level state `%s` (%s): results depend on the call history" % (g, why)))
    return out


def purity_obligations(rep, ix, funcs, rule, why, internal_out_params=(), closure=True):
    """Necessary condition shared by the formula-level properties: the functions whose normal forms are
    compared must be functions of their arguments only - they must not modify an argument (the same array is
    reused across the identities / across repeated calls) nor keep state between calls.  With `closure`, the
    repository functions reachable from `funcs` through resolved calls are included for the hidden-state part
    (argument mutation inside a helper is already part of the caller's inter-procedural summary)."""
    fx = get_fx(ix)
    roots = list(funcs)
    allf = reachable_functions(ix, roots) if closure else roots
    root_fq = set(f.fq for f in roots)
    for f in allf:
        s = fx.summary(f)
        bad = False
        if f.fq in root_fq:
            for p, evs in sorted(s.mutates.items()):
                ev = evs[0]
                if ev.kind != "data":
                    continue
                if (f.fq, p) in internal_out_params:
                    continue        # non-public helper writing into a buffer its (checked) callers allocate: an out-parameter by design
                bad = True
                rep.violation(rule, "%s(%s): %s" % (f.fq, p, ev.stmt_text()[:90]),
                              "argument `%s` may be modified in place (%s): %s" % (p, ev.how, why), ev.where())
        for g, msg in global_state_findings(ix, f):
            bad = True
            rep.violation(rule, "%s: module state %s" % (f.fq, g), msg, f.where())
        for msg, where in memo_findings(ix, f):
            bad = True
            rep.violation(rule, "%s: memoised: %s" % (f.fq, msg[:100]), msg, where)
        for p, dflt in f.defaults.items():
            if isinstance(dflt, (ast.List, ast.Dict, ast.Set)) and _mutable_default_used(f, p):
                bad = True
                rep.violation(rule, "%s(%s=%s): mutable default used as a store" % (f.fq, p, norm_text(dflt)),
                              "a mutable default argument is written to: it persists between calls (hidden state)", f.where())
        if not bad:
            rep.ok(rule, f.fq, "no argument mutation, no hidden state" if f.fq in root_fq else "no hidden state (helper)", False)


def _mutable_default_used(f, p):
    for n in ast.walk(f.node):
        if isinstance(n, (ast.Assign, ast.AugAssign)):
            tg = n.targets if isinstance(n, ast.Assign) else [n.target]
            for t in tg:
                if isinstance(t, ast.Subscript) and isinstance(t.value, ast.Name) and t.value.id == p:
                    return True
        if isinstance(n, ast.Call) and isinstance(n.func, ast.Attribute) and isinstance(n.func.value, ast.Name) and \
                n.func.value.id == p and n.func.attr in ("append", "update", "setdefault", "add", "extend", "pop", "clear", "__setitem__"):
            return True
    return False


def reachable_functions(ix, roots):
    fx = get_fx(ix)
    seen, todo = [], list(roots)
    while todo:
        g = todo.pop()
        if g in seen:
            continue
        seen.append(g)
        for n, b in fx.summary(g).calls:
            if b is not None and b.kind == "func" and b.target not in seen:
                todo.append(b.target)
    return seen


def merged_paths(interp, f, args, **kw):
    """single value if all returning paths agree, else a `paths` atom (a fully understood disagreement)"""
    vals = []
    for c, v in interp.returns(f, list(args), **kw):
        if not any(vkey(v) == vkey(x) for x in vals):
            vals.append(v)
    if not vals:
        raise AnalysisError("%s: no returning path" % f.fq)
    if len(vals) == 1:
        return vals[0]
    if all(isinstance(v, Rat) for v in vals):
        return Rat.atom(Fn("paths", tuple(vals)))
    if all(isinstance(v, tuple) and len(v) == len(vals[0]) for v in vals):
        return tuple(Rat.atom(Fn("paths", tuple(v[i] for v in vals))) if len(set(vkey(v[i]) for v in vals)) > 1 else vals[0][i]
                     for i in range(len(vals[0])))
    raise AnalysisError("%s: paths return values of different kinds" % f.fq)


def integer_power_hazards(f, array_params, _depth=0):
    """[(node, text)]: an array parameter raised to an integer literal power >= 3 (or multiplied by itself as often) while
    still in the caller's dtype.  For integer-typed input (altitudes in metres from numpy.arange, counts) the power wraps
    around silently (x**5 overflows int64 from 6209, int32 from 74), whereas a float exponent or a prior conversion to float
    does not.  Conversions recognised: float literals in the same product, numpy.asarray/array(..., dtype=float), astype(float),
    float(...), true division, x * 1.0."""
    out = []
    arr = set(array_params) & set(f.params + f.kwonly)
    floated = set()
    for n in ast.walk(f.node):
        if isinstance(n, ast.Assign) and len(n.targets) == 1 and isinstance(n.targets[0], ast.Name) and n.targets[0].id in arr:
            txt = norm_text(n.value)
            if "float" in txt or "/" in txt:
                floated.add(n.targets[0].id)
    def raw(base):
        """the array argument itself, or a dtype-preserving wrapper of it (asarray / array / copy without dtype)"""
        while isinstance(base, ast.Call) and norm_text(base.func).split(".")[-1] in ("asarray", "array", "asanyarray", "copy", "atleast_1d") \
                and base.args and not any(k.arg == "dtype" for k in base.keywords) and len(base.args) == 1:
            base = base.args[0]
        return base.id if isinstance(base, ast.Name) and base.id in arr and base.id not in floated else None
    for n in ast.walk(f.node):
        if isinstance(n, ast.BinOp) and isinstance(n.op, ast.Pow) and isinstance(n.right, ast.Constant) and \
                isinstance(n.right.value, int) and not isinstance(n.right.value, bool) and n.right.value >= 3:
            b_ = raw(n.left)
            if b_ is not None:
                out.append((n, "%s: integer power of the array argument `%s` in its own dtype" % (norm_text(n), b_)))
        # a helper of the same module handed the array as it came: the helper is part of the function
        if isinstance(n, ast.Call) and isinstance(n.func, ast.Name) and _depth < 3:
            callee = getattr(f.module, "funcs", {}).get(n.func.id)
            if callee is not None and callee is not f:
                passed = [p_ for p_, a_ in zip(callee.params, n.args) if raw(a_) is not None]
                passed += [k.arg for k in n.keywords if k.arg in callee.params and raw(k.value) is not None]
                if passed:
                    for node_, txt_ in integer_power_hazards(callee, tuple(passed), _depth + 1):
                        out.append((n, "%s (in helper %s, called as `%s`)" % (txt_, callee.name, norm_text(n)[:50])))
    return out


def result_dtype_hazards(f, array_params):
    """[(node, text)]: the result is allocated with the dtype of an array argument still in the caller's dtype -
    numpy.piecewise(x, ...) (output has x's dtype), zeros_like / empty_like / ones_like / full_like(x) without dtype=, or
    out=x: for integer-typed input (numpy.arange, whole-number lists) every value written is truncated to an integer."""
    out = []
    arr = set(array_params) & set(f.params + f.kwonly)
    floated = set()
    for n in ast.walk(f.node):
        if isinstance(n, ast.Assign) and len(n.targets) == 1 and isinstance(n.targets[0], ast.Name) and n.targets[0].id in arr:
            txt = norm_text(n.value)
            if "float" in txt or "/" in txt:
                floated.add(n.targets[0].id)
    for n in ast.walk(f.node):
        if not isinstance(n, ast.Call):
            continue
        nm = norm_text(n.func).split(".")[-1]
        a0 = n.args[0] if n.args else None
        raw = isinstance(a0, ast.Name) and a0.id in arr and a0.id not in floated
        if nm == "piecewise" and raw:
            out.append((n, "%s: numpy.piecewise returns an array of the dtype of `%s`" % (norm_text(n)[:60], a0.id)))
        elif nm in ("zeros_like", "empty_like", "ones_like", "full_like") and raw and not any(k.arg == "dtype" for k in n.keywords):
            out.append((n, "%s: the result array has the dtype of `%s`" % (norm_text(n)[:60], a0.id)))
    return out


def canon_iteration_sums(v, length_of):
    """sums accumulated by iterating over sequences (`for x in A`, `for a, b in zip(A, B)`, `for i, a in enumerate(A)`) written
    as the sum over positions range(0, n): loopsum(body(pos#), tag, iteration-key) -> loopsum(body(pos), tag, (0, n, 1)).
    `length_of(seq)` gives the number of items of a sequence as a normal form (None if unknown); zipped sequences must have
    the same length for the rewrite to apply."""
    from .plf import Rat, Sym, Fn

    def seqs_of(key):
        if isinstance(key, tuple) and key and key[0] == "zip" and len(key) == 2 and isinstance(key[1], tuple):
            return list(key[1])
        if isinstance(key, tuple) and key and key[0] == "enumerate" and len(key) == 2:
            return seqs_of(key[1]) if isinstance(key[1], tuple) and key[1] and key[1][0] in ("zip",) else [key[1]]
        if isinstance(key, Rat):
            return [key]
        return None

    def f(a):
        if isinstance(a, Fn) and a.name == "loopsum" and len(a.args) == 3 and isinstance(a.args[0], Rat):
            body, tag, key = a.args
            if isinstance(key, tuple) and len(key) == 3 and all(isinstance(x, Rat) for x in key):
                return None
            sq = seqs_of(key)
            if not sq or not all(isinstance(x, Rat) for x in sq):
                return None
            ns = [length_of(x) for x in sq]
            if any(n is None for n in ns) or any(not same_value(n, ns[0]) for n in ns[1:]):
                return None
            pos = Rat.atom(Sym(tag, ("int", "loopvar")))
            body2 = body.subst(lambda x: pos if isinstance(x, Sym) and x.name == tag + "#" else None).subst(f)
            return Rat.atom(Fn("loopsum", (body2, tag, (Rat.const(0), ns[0], Rat.const(1)))))
        return None
    return v.subst(f) if isinstance(v, Rat) else v


def origin_guard(v, r):
    """(value away from the origin, value at the origin) when v is  where(r == 0, v0, v1)  /  where(r != 0, v1, v0)  /
    where(r > 0, v1, v0)  on the non-negative argument r, else (v, None).  A closed form that is 0 * infinity at r = 0
    (x^(5/6) K_5/6(x)) has to be written like this to be evaluable there; the guard is legitimate exactly when v0 is the
    limit of v1, which the caller checks."""
    from .plf import Rat, Fn
    a = v.single_atom() if isinstance(v, Rat) else None
    if not (isinstance(a, Fn) and a.name == "where3" and isinstance(a.args[0], Rat)):
        return v, None
    c = a.args[0].single_atom()
    if not (isinstance(c, Fn) and c.name == "cmp"):
        return v, None
    op, l, rr = c.args
    if isinstance(l, Rat) and l.is_zero():
        l, rr = rr, l
        op = {"<": ">", ">": "<", "<=": ">=", ">=": "<="}.get(op, op)
    if not (same_value(l, r) and isinstance(rr, Rat) and rr.is_zero()):
        return v, None
    if op == "==" or op == "<=":
        return a.args[2], a.args[1]
    if op in ("!=", ">"):
        return a.args[1], a.args[2]
    return v, None


NARROW = ("float32", "float16", "single", "half", "complex64", "csingle")


def narrowing_casts(f, names=None):
    """[(node, text)]: a value is cast to a precision below double inside f - numpy.float32(x), x.astype('float32' /
    numpy.float32), asarray(x, dtype=float32), dtype='f4'.  `names`: restrict to casts whose operand mentions one of them."""
    out = []
    for n in ast.walk(f.node):
        if not isinstance(n, ast.Call):
            continue
        fn = norm_text(n.func)
        last = fn.split(".")[-1]
        operand = None
        hit = False
        if last in NARROW and n.args:
            hit, operand = True, n.args[0]
        elif last == "astype" and n.args and any(t in norm_text(n.args[0]) for t in NARROW + ("f4", "f2")):
            hit, operand = True, n.func.value if isinstance(n.func, ast.Attribute) else None
        else:
            for k in n.keywords:
                if k.arg == "dtype" and any(t in norm_text(k.value) for t in NARROW + ("'f4'", "'f2'")):
                    hit, operand = True, (n.args[0] if n.args else None)
        if hit and (names is None or (operand is not None and any(isinstance(x, ast.Name) and x.id in names for x in ast.walk(operand)))):
            out.append((n, norm_text(n)[:70]))
    return out


WIDE = ("float64", "double", "float_", "longdouble", "float128", "float")


def _stmt_of(fnode, node):
    for st in ast.walk(fnode):
        if isinstance(st, ast.stmt) and any(n is node for n in ast.walk(st)) and not isinstance(st, (ast.FunctionDef, ast.For, ast.While, ast.If, ast.With, ast.Try)):
            return st
    return node


def promoted_to_double(f, param):
    """(True, None, '') if the first use of parameter `param` in f re-binds it to a double-precision copy of itself -
    numpy.float64(p), float(p), numpy.asarray / array(p, dtype=float | float64 | 'f8' | 'd'), p.astype(float ...) - possibly inside
    a larger expression (`numpy.float64(p) + eps`); else (False, node, text of the first use).  A value computed from a
    float32 argument in float32 carries 1e-7 relative error; for quantities that are later differenced that is the whole result."""
    raw = {param}          # the parameter and its plain aliases (`r_ = r`)

    def is_widen(n):
        if not isinstance(n, ast.Call):
            return False
        fn = norm_text(n.func)
        last = fn.split(".")[-1]
        def dt_ok(x):
            t = norm_text(x).replace("'", "").replace('"', "")
            return t.split(".")[-1] in WIDE + ("f8", "d")
        if last in WIDE and len(n.args) == 1 and isinstance(n.args[0], ast.Name) and n.args[0].id in raw:
            return True
        if last in ("asarray", "array", "asanyarray", "ascontiguousarray") and n.args and isinstance(n.args[0], ast.Name) and n.args[0].id in raw:
            return any(k.arg == "dtype" and dt_ok(k.value) for k in n.keywords) or (len(n.args) > 1 and dt_ok(n.args[1]))
        if last == "astype" and isinstance(n.func, ast.Attribute) and n.args and dt_ok(n.args[0]):
            base = n.func.value
            while isinstance(base, ast.Call) and norm_text(base.func).split(".")[-1] in ("asarray", "array", "asanyarray") and base.args:
                base = base.args[0]
            return isinstance(base, ast.Name) and base.id in raw
        return False

    def reads(node):
        return [n for n in ast.walk(node) if isinstance(n, ast.Name) and n.id in raw and isinstance(n.ctx, ast.Load)]
    wide = set()
    for st in f.node.body:
        if isinstance(st, ast.Expr) and isinstance(st.value, ast.Constant):
            continue
        if not raw:
            return True, None, ""
        rs = reads(st)
        if isinstance(st, ast.Assign) and len(st.targets) == 1 and isinstance(st.targets[0], ast.Name):
            tgt = st.targets[0].id
            wid = [n for n in ast.walk(st.value) if is_widen(n)]
            inside = set(id(x) for w in wid for x in ast.walk(w))
            if rs and wid and all(id(r_) in inside for r_ in rs):
                wide.add(tgt)           # a double-precision copy, under the parameter's own name or another
                raw.discard(tgt)
                continue
            if isinstance(st.value, ast.Name) and st.value.id in raw:
                raw.add(tgt)            # a plain alias is still the caller's array
                continue
            loaded = set(n.id for n in ast.walk(st.value) if isinstance(n, ast.Name) and isinstance(n.ctx, ast.Load))
            if not rs and tgt in raw and loaded & wide:
                wide.add(tgt)           # re-bound to its double-precision copy
                raw.discard(tgt)
                continue
        if rs:
            return False, st, norm_text(st)[:80]
    if wide:
        return True, None, ""          # used only through its double-precision copy
    return False, f.node, "parameter %s is never used" % param
