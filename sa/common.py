"""Helpers shared by the property drivers."""
import ast

from .index import RepoIndex, norm_text
from .interp import Interp, has_unknown, unknown_atoms, pyconst
from .plf import Rat, Sym, Fn, PowA, show, vkey, as_rat, rpow
from .report import AnalysisError

_IX = {}


def get_index(root=None):
    if root not in _IX:
        _IX[root] = RepoIndex(root)
    return _IX[root]


def nf(v, limit=400):
    s = show(v)
    return s if len(s) <= limit else s[:limit] + "..."


def same_value(a, b, rtol=1e-12):
    """structural / algebraic equality of two interpreter values."""
    if isinstance(a, Rat) and isinstance(b, Rat):
        if a.key() == b.key():
            return True
        try:
            return a.equals(b, rtol)
        except Exception:
            return False
    if isinstance(a, (tuple, list)) and isinstance(b, (tuple, list)):
        return len(a) == len(b) and all(same_value(x, y, rtol) for x, y in zip(a, b))
    return vkey(a) == vkey(b)


def check_equal(rep, rule, key, got, want, where="", rtol=1e-12, what="", note=""):
    """HOLDS if got == want as normal forms; UNRECOGNISED if `got` contains
    constructs the interpreter does not understand; else VIOLATION."""
    if same_value(got, want, rtol):
        rep.ok(rule, key, note or ("%s = %s" % (what or "normal form", nf(got, 160))))
        return True
    if has_unknown(got):
        rep.unknown(rule, key, "cannot normalise %s: %s (unknown: %s)"
                    % (what, nf(got, 200), ", ".join(sorted(set(repr(a) for a in unknown_atoms(got))))[:200]), where)
        return False
    rep.violation(rule, key, "%s differs from its definition" % (what or "normal form"), where,
                  {"found": nf(got), "expected": nf(want)})
    return False


def check_degree(rep, rule, key, value, target, want, where="", what=""):
    if isinstance(target, str):
        target = Sym(target)
    d = value.degree(target) if isinstance(value, Rat) else None
    if d is not None and d == want:
        rep.ok(rule, key, "degree(%s, %s) = %s" % (what or "value", target, want))
        return True
    if isinstance(value, Rat) and has_unknown(value):
        rep.unknown(rule, key, "cannot normalise %s: %s" % (what, nf(value, 200)), where)
        return False
    rep.violation(rule, key, "%s must be homogeneous of degree %s in %s, found %s"
                  % (what or "value", want, target, "degree %s" % d if d is not None else "no single degree"),
                  where, {"found": nf(value)})
    return False


def const_close(a, b, tol):
    a, b = complex(a), complex(b)
    return abs(a - b) <= tol * max(abs(a), abs(b))


def func_where(f, node=None):
    return f.where(node)


def find_calls(fnode, pred):
    return [n for n in ast.walk(fnode) if isinstance(n, ast.Call) and pred(n)]


def stmt_of(fnode, node):
    """innermost statement of fnode containing node"""
    best = None
    for st in ast.walk(fnode):
        if isinstance(st, ast.stmt):
            for n in ast.walk(st):
                if n is node:
                    if best is None or (st.lineno >= best.lineno):
                        best = st
    return best


def literal_number(node):
    if isinstance(node, ast.Constant) and isinstance(node.value, (int, float)) and not isinstance(node.value, bool):
        return node.value
    if isinstance(node, ast.UnaryOp) and isinstance(node.op, ast.USub):
        v = literal_number(node.operand)
        return -v if v is not None else None
    return None


_FXC = {}


def get_fx(ix):
    from .fx import FX
    if id(ix) not in _FXC:
        _FXC[id(ix)] = FX(ix)
    return _FXC[id(ix)]


def purity_obligations(rep, ix, funcs, rule, why, internal_out_params=()):
    """Necessary condition shared by the formula-level properties: the functions whose normal forms are
    compared must be functions of their arguments only - they must not modify an argument (the same array is
    reused across the identities / across repeated calls) nor keep state between calls."""
    from .fx import MEMO_DECORATORS
    fx = get_fx(ix)
    for f in funcs:
        s = fx.summary(f)
        bad = False
        for p, evs in sorted(s.mutates.items()):
            ev = evs[0]
            if ev.kind != "data":
                continue
            if (f.fq, p) in internal_out_params:
                continue        # non-public helper writing into a buffer its (checked) callers allocate: an out-parameter by design
            bad = True
            rep.violation(rule, "%s(%s): %s" % (f.fq, p, ev.stmt_text()[:90]),
                          "argument `%s` may be modified in place (%s): %s" % (p, ev.how, why), ev.where())
        for g in sorted(set(list(s.global_mut) + list(s.global_rebind))):
            bad = True
            rep.violation(rule, "%s: module state %s" % (f.fq, g), "function writes module-level state `%s`: results depend on the call history" % g, f.where())
        for d in f.node.decorator_list:
            txt = norm_text(d)
            if any(k in txt.split("(")[0].split(".")[-1] for k in MEMO_DECORATORS):
                bad = True
                rep.violation(rule, "%s: @%s" % (f.fq, txt), "memoised: results depend on the call history", f.where(d))
        for p, dflt in f.defaults.items():
            if isinstance(dflt, (ast.List, ast.Dict, ast.Set)) and _mutable_default_used(f, p):
                bad = True
                rep.violation(rule, "%s(%s=%s): mutable default used as a store" % (f.fq, p, norm_text(dflt)),
                              "a mutable default argument is written to: it persists between calls (hidden state)", f.where())
        if not bad:
            rep.ok(rule, f.fq, "no argument mutation, no hidden state", False)


def _mutable_default_used(f, p):
    for n in ast.walk(f.node):
        if isinstance(n, (ast.Assign, ast.AugAssign)):
            tg = n.targets if isinstance(n, ast.Assign) else [n.target]
            for t in tg:
                if isinstance(t, ast.Subscript) and isinstance(t.value, ast.Name) and t.value.id == p:
                    return True
        if isinstance(n, ast.Call) and isinstance(n.func, ast.Attribute) and isinstance(n.func.value, ast.Name) and \
                n.func.value.id == p and n.func.attr in ("append", "update", "setdefault", "add", "extend", "pop", "clear", "__setitem__"):
            return True
    return False


def reachable_functions(ix, roots):
    fx = get_fx(ix)
    seen, todo = [], list(roots)
    while todo:
        g = todo.pop()
        if g in seen:
            continue
        seen.append(g)
        for n, b in fx.summary(g).calls:
            if b is not None and b.kind == "func" and b.target not in seen:
                todo.append(b.target)
    return seen


def merged_paths(interp, f, args, **kw):
    """single value if all returning paths agree, else a `paths` atom (a fully understood disagreement)"""
    vals = []
    for c, v in interp.returns(f, list(args), **kw):
        if not any(vkey(v) == vkey(x) for x in vals):
            vals.append(v)
    if not vals:
        raise AnalysisError("%s: no returning path" % f.fq)
    if len(vals) == 1:
        return vals[0]
    if all(isinstance(v, Rat) for v in vals):
        return Rat.atom(Fn("paths", tuple(vals)))
    if all(isinstance(v, tuple) and len(v) == len(vals[0]) for v in vals):
        return tuple(Rat.atom(Fn("paths", tuple(v[i] for v in vals))) if len(set(vkey(v[i]) for v in vals)) > 1 else vals[0][i]
                     for i in range(len(vals[0])))
    raise AnalysisError("%s: paths return values of different kinds" % f.fq)
