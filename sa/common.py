"""Helpers shared by the property drivers."""
import ast

from .index import RepoIndex, norm_text
from .interp import Interp, has_unknown, unknown_atoms, pyconst
from .plf import Rat, Sym, Fn, PowA, show, vkey, as_rat, rpow
from .report import AnalysisError

_IX = {}


def get_index(root=None):
    if root not in _IX:
        _IX[root] = RepoIndex(root)
    return _IX[root]


def nf(v, limit=400):
    s = show(v)
    return s if len(s) <= limit else s[:limit] + "..."


def same_value(a, b, rtol=1e-12):
    """structural / algebraic equality of two interpreter values."""
    if isinstance(a, Rat) and isinstance(b, Rat):
        if a.key() == b.key():
            return True
        try:
            return a.equals(b, rtol)
        except Exception:
            return False
    if isinstance(a, (tuple, list)) and isinstance(b, (tuple, list)):
        return len(a) == len(b) and all(same_value(x, y, rtol) for x, y in zip(a, b))
    return vkey(a) == vkey(b)


def check_equal(rep, rule, key, got, want, where="", rtol=1e-12, what="", note=""):
    """HOLDS if got == want as normal forms; UNRECOGNISED if `got` contains
    constructs the interpreter does not understand; else VIOLATION."""
    if same_value(got, want, rtol):
        rep.ok(rule, key, note or ("%s = %s" % (what or "normal form", nf(got, 160))))
        return True
    if has_unknown(got):
        rep.unknown(rule, key, "cannot normalise %s: %s (unknown: %s)"
                    % (what, nf(got, 200), ", ".join(sorted(set(repr(a) for a in unknown_atoms(got))))[:200]), where)
        return False
    rep.violation(rule, key, "%s differs from its definition" % (what or "normal form"), where,
                  {"found": nf(got), "expected": nf(want)})
    return False


def check_degree(rep, rule, key, value, target, want, where="", what=""):
    if isinstance(target, str):
        target = Sym(target)
    d = value.degree(target) if isinstance(value, Rat) else None
    if d is not None and d == want:
        rep.ok(rule, key, "degree(%s, %s) = %s" % (what or "value", target, want))
        return True
    if isinstance(value, Rat) and has_unknown(value):
        rep.unknown(rule, key, "cannot normalise %s: %s" % (what, nf(value, 200)), where)
        return False
    rep.violation(rule, key, "%s must be homogeneous of degree %s in %s, found %s"
                  % (what or "value", want, target, "degree %s" % d if d is not None else "no single degree"),
                  where, {"found": nf(value)})
    return False


def const_close(a, b, tol):
    a, b = complex(a), complex(b)
    return abs(a - b) <= tol * max(abs(a), abs(b))


def func_where(f, node=None):
    return f.where(node)


def find_calls(fnode, pred):
    return [n for n in ast.walk(fnode) if isinstance(n, ast.Call) and pred(n)]


def stmt_of(fnode, node):
    """innermost statement of fnode containing node"""
    best = None
    for st in ast.walk(fnode):
        if isinstance(st, ast.stmt):
            for n in ast.walk(st):
                if n is node:
                    if best is None or (st.lineno >= best.lineno):
                        best = st
    return best


def literal_number(node):
    if isinstance(node, ast.Constant) and isinstance(node.value, (int, float)) and not isinstance(node.value, bool):
        return node.value
    if isinstance(node, ast.UnaryOp) and isinstance(node.op, ast.USub):
        v = literal_number(node.operand)
        return -v if v is not None else None
    return None
